//! Run-time core shared by every property module: deterministic PRNG, case
//! bookkeeping (evaluations, distinct non-trivial digests, observation counters,
//! samples), panic capture, violations with replay files, known findings.
//!
//! A *case* is identified by `(stream name, index)`; everything a case does derives
//! from `ctx.rng(stream, index)`, so `--only stream:index` re-executes exactly one case.

use serde_json::{json, Map, Value};
use std::cell::RefCell;
use std::collections::{BTreeMap, HashSet};
use std::fs;
use std::io::Write;
use std::panic::{catch_unwind, AssertUnwindSafe};
use std::path::PathBuf;

// ---------------------------------------------------------------- PRNG

/// SplitMix64.
#[derive(Clone, Debug)]
pub struct Rng(pub u64);

pub fn mix64(mut z: u64) -> u64 {
    z = z.wrapping_add(0x9e37_79b9_7f4a_7c15);
    z = (z ^ (z >> 30)).wrapping_mul(0xbf58_476d_1ce4_e5b9);
    z = (z ^ (z >> 27)).wrapping_mul(0x94d0_49bb_1331_11eb);
    z ^ (z >> 31)
}

/// FNV-1a 64 over bytes, used for digests and stream keys.
pub fn fnv(bytes: &[u8]) -> u64 {
    let mut h: u64 = 0xcbf2_9ce4_8422_2325;
    for &b in bytes {
        h ^= b as u64;
        h = h.wrapping_mul(0x0000_0100_0000_01b3);
    }
    h
}

pub fn fnv_add(h: u64, bytes: &[u8]) -> u64 {
    let mut h = h;
    for &b in bytes {
        h ^= b as u64;
        h = h.wrapping_mul(0x0000_0100_0000_01b3);
    }
    mix64(h)
}

pub const EXTREMES: &[u64] = &[
    0,
    1,
    2,
    0x3f,
    0x40,
    0x7f,
    0x80,
    0xff,
    0x100,
    0x3fff,
    0x4000,
    0x7fff,
    0x8000,
    0xffff,
    0x1_0000,
    0x7fff_ffff,
    0x8000_0000,
    0xffff_fff0,
    0xffff_fffe,
    0xffff_ffff,
    0x1_0000_0000,
    1 << 61,
    (1 << 61) + 1,
    (1 << 62),
    0x7fff_ffff_ffff_ffff,
    0x8000_0000_0000_0000,
    0x8000_0000_0000_0001,
    0xffff_ffff_ffff_fffe,
    0xffff_ffff_ffff_ffff,
];

impl Rng {
    pub fn new(seed: u64) -> Rng {
        Rng(seed)
    }
    pub fn next(&mut self) -> u64 {
        self.0 = self.0.wrapping_add(0x9e37_79b9_7f4a_7c15);
        let mut z = self.0;
        z = (z ^ (z >> 30)).wrapping_mul(0xbf58_476d_1ce4_e5b9);
        z = (z ^ (z >> 27)).wrapping_mul(0x94d0_49bb_1331_11eb);
        z ^ (z >> 31)
    }
    /// Uniform in `0..n` (n > 0).
    pub fn below(&mut self, n: u64) -> u64 {
        if n == 0 {
            return 0;
        }
        self.next() % n
    }
    pub fn usize(&mut self, n: usize) -> usize {
        self.below(n as u64) as usize
    }
    /// Uniform in `lo..=hi`.
    pub fn range(&mut self, lo: u64, hi: u64) -> u64 {
        if hi <= lo {
            return lo;
        }
        let span = hi - lo;
        if span == u64::MAX {
            return self.next();
        }
        lo + self.below(span + 1)
    }
    pub fn irange(&mut self, lo: i64, hi: i64) -> i64 {
        if hi <= lo {
            return lo;
        }
        let span = (hi as i128 - lo as i128) as u128;
        (lo as i128 + (self.next() as u128 % (span + 1)) as i128) as i64
    }
    pub fn bool(&mut self) -> bool {
        self.next() & 1 == 1
    }
    /// True with probability num/den.
    pub fn chance(&mut self, num: u64, den: u64) -> bool {
        self.below(den) < num
    }
    pub fn pick<'a, T>(&mut self, xs: &'a [T]) -> &'a T {
        &xs[self.usize(xs.len())]
    }
    pub fn bytes(&mut self, n: usize) -> Vec<u8> {
        (0..n).map(|_| self.next() as u8).collect()
    }
    /// A value biased towards boundaries: extremes, extremes±1, small, or uniform.
    pub fn boundary(&mut self) -> u64 {
        match self.below(10) {
            0..=3 => *self.pick(EXTREMES),
            4 => self.pick(EXTREMES).wrapping_add(1),
            5 => self.pick(EXTREMES).wrapping_sub(1),
            6 | 7 => self.below(300),
            8 => 1u64 << self.below(64),
            _ => self.next(),
        }
    }
    /// Boundary-biased value that fits in `bits` bits.
    pub fn boundary_bits(&mut self, bits: u32) -> u64 {
        let v = self.boundary();
        if bits >= 64 {
            v
        } else {
            v & ((1u64 << bits) - 1)
        }
    }
    /// Small size, biased to tiny, occasionally up to `max`.
    pub fn small(&mut self, max: u64) -> u64 {
        match self.below(8) {
            0..=4 => self.below(max.min(6) + 1),
            5 | 6 => self.below(max.min(40) + 1),
            _ => self.below(max + 1),
        }
    }
    pub fn shuffle<T>(&mut self, xs: &mut [T]) {
        for i in (1..xs.len()).rev() {
            let j = self.usize(i + 1);
            xs.swap(i, j);
        }
    }
}

// ---------------------------------------------------------------- basic enums

#[derive(Clone, Copy, Debug, PartialEq, Eq)]
pub enum Tier {
    Quick,
    Thorough,
}

#[derive(Clone, Copy, Debug, PartialEq, Eq)]
pub enum Profile {
    Dbg,
    Rel,
    Asan,
    Miri,
}

impl Profile {
    pub fn name(self) -> &'static str {
        match self {
            Profile::Dbg => "dbg",
            Profile::Rel => "rel",
            Profile::Asan => "asan",
            Profile::Miri => "miri",
        }
    }
    pub fn parse(s: &str) -> Option<Profile> {
        Some(match s {
            "dbg" => Profile::Dbg,
            "rel" => Profile::Rel,
            "asan" => Profile::Asan,
            "miri" => Profile::Miri,
            _ => return None,
        })
    }
}

// ---------------------------------------------------------------- panic capture

#[derive(Clone, Debug)]
pub struct PanicInfo {
    pub file: String,
    pub line: u32,
    pub message: String,
}

thread_local! {
    static LAST_PANIC: RefCell<Option<PanicInfo>> = const { RefCell::new(None) };
    static CAPTURING: RefCell<bool> = const { RefCell::new(false) };
}

pub fn install_panic_hook() {
    let default = std::panic::take_hook();
    std::panic::set_hook(Box::new(move |info| {
        let capturing = CAPTURING.with(|c| *c.borrow());
        let (file, line) = info
            .location()
            .map(|l| (l.file().to_string(), l.line()))
            .unwrap_or_default();
        let message = if let Some(s) = info.payload().downcast_ref::<&str>() {
            (*s).to_string()
        } else if let Some(s) = info.payload().downcast_ref::<String>() {
            s.clone()
        } else {
            "<non-string panic payload>".to_string()
        };
        if capturing {
            LAST_PANIC.with(|p| {
                let mut p = p.borrow_mut();
                if p.is_none() {
                    *p = Some(PanicInfo { file, line, message });
                }
            });
        } else {
            default(info);
        }
    }));
}

/// Run `f`, capturing the first panic (location + message) instead of unwinding further.
pub fn capture<R>(f: impl FnOnce() -> R) -> Result<R, PanicInfo> {
    LAST_PANIC.with(|p| *p.borrow_mut() = None);
    let prev = CAPTURING.with(|c| std::mem::replace(&mut *c.borrow_mut(), true));
    let r = catch_unwind(AssertUnwindSafe(f));
    CAPTURING.with(|c| *c.borrow_mut() = prev);
    match r {
        Ok(v) => Ok(v),
        Err(_) => Err(LAST_PANIC.with(|p| p.borrow_mut().take()).unwrap_or(PanicInfo {
            file: String::new(),
            line: 0,
            message: "<panic not captured>".into(),
        })),
    }
}

/// Classify a panic message into a stable "kind" (no numbers / addresses).
pub fn panic_kind(msg: &str) -> String {
    let m = msg;
    for k in [
        "attempt to multiply with overflow",
        "attempt to add with overflow",
        "attempt to subtract with overflow",
        "attempt to negate with overflow",
        "attempt to shift left with overflow",
        "attempt to shift right with overflow",
        "attempt to divide by zero",
        "attempt to calculate the remainder with a divisor of zero",
        "attempt to divide with overflow",
        "index out of bounds",
        "out of range for slice",
        "slice index starts at",
        "called `Option::unwrap()` on a `None` value",
        "called `Result::unwrap()` on an `Err` value",
        "assertion failed",
        "assertion `left == right` failed",
        "assertion `left != right` failed",
        "capacity overflow",
        "gimli_verif:",
        "explicit panic",
        "unreachable",
        "not implemented",
    ] {
        if m.contains(k) {
            return k.to_string();
        }
    }
    // strip digits
    let s: String = m.chars().filter(|c| !c.is_ascii_digit()).take(60).collect();
    s
}

// ---------------------------------------------------------------- known findings

#[derive(Clone, Debug)]
pub struct KnownFinding {
    pub property: String,
    pub status: String,
    pub signature: String,
    pub what: String,
}

pub fn load_known_findings(path: &std::path::Path) -> Vec<KnownFinding> {
    let Ok(text) = fs::read_to_string(path) else {
        return vec![];
    };
    let Ok(v) = serde_json::from_str::<Value>(&text) else {
        eprintln!("gv: cannot parse {}", path.display());
        return vec![];
    };
    let mut out = vec![];
    for e in v.as_array().cloned().unwrap_or_default() {
        out.push(KnownFinding {
            property: e["property"].as_str().unwrap_or("").to_string(),
            status: e["status"].as_str().unwrap_or("").to_string(),
            signature: e["signature"].as_str().unwrap_or("").to_string(),
            what: e["what"].as_str().unwrap_or("").to_string(),
        });
    }
    out
}

// ---------------------------------------------------------------- context

#[derive(Clone, Debug)]
pub struct ViolationRec {
    pub signature: String,
    pub what: String,
    pub replay: String,
    pub known: bool,
}

pub struct Ctx {
    pub prop: String,
    pub tier: Tier,
    pub profile: Profile,
    pub seed: u64,
    pub shard: u64,
    pub nshards: u64,
    /// Path of the gimli tree under test (for reading the source line of a panic).
    pub repo: PathBuf,
    /// Directory for replay files and journals.
    pub work: PathBuf,
    /// `--only stream:index`
    pub only: Option<(String, u64)>,
    pub verbose: bool,

    pub evaluations: u64,
    digests: HashSet<u64>,
    /// distinct cases counted by a module-local exact structure (bitmap) instead of `digests`.
    pub counted_distinct: u64,
    pub samples: Vec<Value>,
    sample_kinds: HashSet<String>,
    pub obs: BTreeMap<String, u64>,
    pub violations: Vec<ViolationRec>,
    seen_sigs: HashSet<String>,
    pub inconclusive: Vec<String>,
    pub harness_errors: Vec<String>,
    known: Vec<KnownFinding>,
    journal: Option<fs::File>,
    cur: (String, u64),
    pub max_violations: usize,
    /// Under Miri only: `want` accepts every `slow_stride`-th of this shard's cases (lets a
    /// module thin out an enumerated stream for the interpreter without changing it elsewhere).
    pub slow_stride: u64,
    /// Under AddressSanitizer only: same thinning for the (3-4x slower) asan profile.
    pub asan_stride: u64,
}

pub struct CtxArgs {
    pub prop: String,
    pub tier: Tier,
    pub profile: Profile,
    pub seed: u64,
    pub shard: u64,
    pub nshards: u64,
    pub repo: PathBuf,
    pub work: PathBuf,
    pub only: Option<(String, u64)>,
    pub known_findings: PathBuf,
    pub journal: Option<PathBuf>,
    pub verbose: bool,
}

impl Ctx {
    pub fn new(a: CtxArgs) -> Ctx {
        let known = load_known_findings(&a.known_findings);
        let journal = a.journal.as_ref().and_then(|p| {
            fs::OpenOptions::new()
                .create(true)
                .write(true)
                .truncate(true)
                .open(p)
                .ok()
        });
        Ctx {
            prop: a.prop,
            tier: a.tier,
            profile: a.profile,
            seed: a.seed,
            shard: a.shard,
            nshards: a.nshards.max(1),
            repo: a.repo,
            work: a.work,
            only: a.only,
            verbose: a.verbose,
            evaluations: 0,
            digests: HashSet::new(),
            counted_distinct: 0,
            samples: vec![],
            sample_kinds: HashSet::new(),
            obs: BTreeMap::new(),
            violations: vec![],
            seen_sigs: HashSet::new(),
            inconclusive: vec![],
            harness_errors: vec![],
            known,
            journal,
            cur: (String::new(), 0),
            max_violations: 40,
            slow_stride: 1,
            asan_stride: 1,
        }
    }

    pub fn quick(&self) -> bool {
        self.tier == Tier::Quick
    }
    pub fn dbg(&self) -> bool {
        self.profile == Profile::Dbg
    }
    pub fn slow(&self) -> bool {
        matches!(self.profile, Profile::Miri)
    }

    /// Workload size: `q` in the quick tier, `t` in the thorough tier; divided by
    /// `dbg_div` in the unoptimised profile (which is 10-40x slower) and by 2000 under Miri.
    pub fn size(&self, q: u64, t: u64, dbg_div: u64) -> u64 {
        // The modules were sized while a dozen builds shared the machine; on 16 free cores
        // their quick tiers finish in a few seconds, so the seeded/random streams of the
        // quick tier are scaled up per property (never beyond the thorough size).
        let scale: u64 = match self.prop.as_str() {
            "C02" | "C13" | "C19" => 8,
            "C03" => 6,
            "C12" | "C17" => 4,
            "C04" | "C05" | "C11" => 3,
            "C07" | "C08" | "C09" | "C15" => 2,
            "C14" | "C16" => 5,
            "C18" => 10,
            _ => 1,
        };
        let n = if self.quick() { q.saturating_mul(scale).min(t.max(q)) } else { t };
        match self.profile {
            Profile::Dbg => (n / dbg_div.max(1)).max(1),
            Profile::Rel => n,
            Profile::Asan => (n / 4).max(1),
            Profile::Miri => (n / 2000).max(1).min(400),
        }
    }

    /// PRNG for case `idx` of `stream`.
    pub fn rng(&self, stream: &str, idx: u64) -> Rng {
        let mut h = fnv(self.prop.as_bytes());
        h = fnv_add(h, stream.as_bytes());
        h = fnv_add(h, &self.seed.to_le_bytes());
        h = fnv_add(h, &idx.to_le_bytes());
        Rng::new(h)
    }

    /// Does this shard execute case `idx` of `stream`?  Also sets the current case id
    /// (used by replay records).
    pub fn want(&mut self, stream: &str, idx: u64) -> bool {
        let w = match &self.only {
            Some((s, i)) => s == stream && *i == idx,
            // streams named "iso.*" hold cases that may kill the process (stack overflow,
            // abort); the orchestrator runs each of them in a process of its own
            None => {
                !stream.starts_with("iso.")
                    && idx % self.nshards == self.shard
                    && (self.slow_stride <= 1 || self.profile != Profile::Miri || (idx / self.nshards) % self.slow_stride == 0)
                    && (self.asan_stride <= 1 || self.profile != Profile::Asan || (idx / self.nshards) % self.asan_stride == 0)
            }
        };
        if w {
            if self.cur.0 != stream {
                self.cur.0 = stream.to_string();
            }
            self.cur.1 = idx;
        }
        w
    }

    /// Like `want` but for work that is not sharded by index (every shard skips unless
    /// `hash(stream, idx) % nshards == shard`); use for sparse index spaces.
    pub fn want_hashed(&mut self, stream: &str, idx: u64) -> bool {
        let w = match &self.only {
            Some((s, i)) => s == stream && *i == idx,
            None => mix64(idx ^ fnv(stream.as_bytes())) % self.nshards == self.shard,
        };
        if w {
            if self.cur.0 != stream {
                self.cur.0 = stream.to_string();
            }
            self.cur.1 = idx;
        }
        w
    }

    pub fn cur_case(&self) -> (String, u64) {
        self.cur.clone()
    }

    pub fn eval(&mut self) {
        self.evaluations += 1;
    }
    pub fn evals(&mut self, n: u64) {
        self.evaluations += n;
    }
    /// Register the digest of a non-trivial case.
    pub fn nontrivial(&mut self, digest: u64) {
        self.digests.insert(digest);
    }
    pub fn nontrivial_bytes(&mut self, salt: &str, bytes: &[u8]) {
        let h = fnv_add(fnv(salt.as_bytes()), bytes);
        self.digests.insert(h);
    }
    pub fn distinct(&self) -> u64 {
        self.digests.len() as u64 + self.counted_distinct
    }
    pub fn digests(&self) -> &HashSet<u64> {
        &self.digests
    }
    pub fn obs(&mut self, key: &str) {
        self.obs_n(key, 1);
    }
    pub fn obs_n(&mut self, key: &str, n: u64) {
        if let Some(v) = self.obs.get_mut(key) {
            *v += n;
        } else {
            self.obs.insert(key.to_string(), n);
        }
    }
    pub fn obs_max(&mut self, key: &str, n: u64) {
        let e = self.obs.entry(format!("max:{key}")).or_insert(0);
        if n > *e {
            *e = n;
        }
    }

    /// Keep a sample: at most 2 per `kind`, at most 12 in total.
    pub fn sample(&mut self, kind: &str, f: impl FnOnce() -> Value) {
        if self.samples.len() >= 12 {
            return;
        }
        let k1 = format!("{kind}#1");
        let k2 = format!("{kind}#2");
        let key = if !self.sample_kinds.contains(&k1) {
            k1
        } else if !self.sample_kinds.contains(&k2) {
            k2
        } else {
            return;
        };
        self.sample_kinds.insert(key);
        let mut v = f();
        if let Value::Object(m) = &mut v {
            m.insert("kind".into(), json!(kind));
            m.insert("case".into(), json!(format!("{}:{}", self.cur.0, self.cur.1)));
        }
        self.samples.push(v);
    }

    fn journal_case(&mut self, entry: &str) {
        if let Some(j) = &mut self.journal {
            use std::os::unix::fs::FileExt;
            let mut rec = format!(
                "{}\t{}\t{}\t{}\n",
                self.cur.0, self.cur.1, entry, self.evaluations
            )
            .into_bytes();
            rec.resize(200, b' ');
            rec[199] = b'\n';
            let _ = j.write_at(&rec, 0);
        }
    }

    /// Run gimli code for the current case under panic capture.  A panic is a violation
    /// of the running property (signature: entry, file, source line text, panic kind).
    /// Returns `None` after a panic.
    pub fn guard<R>(
        &mut self,
        entry: &str,
        input: &dyn Fn() -> Value,
        f: impl FnOnce() -> R,
    ) -> Option<R> {
        self.journal_case(entry);
        match capture(f) {
            Ok(r) => Some(r),
            Err(p) => {
                self.report_panic(entry, &p, input);
                None
            }
        }
    }

    /// Like `guard`, but hands the panic back to the caller instead of reporting it.
    pub fn guard_raw<R>(&mut self, entry: &str, f: impl FnOnce() -> R) -> Result<R, PanicInfo> {
        self.journal_case(entry);
        capture(f)
    }

    pub fn panic_signature(&self, entry: &str, p: &PanicInfo) -> (String, bool) {
        let repo_src = self.repo.join("src");
        let in_repo = std::path::Path::new(&p.file).starts_with(&repo_src)
            || p.file.contains("/src/read/")
            || p.file.contains("/src/write/")
            || p.file.ends_with("/src/leb128.rs")
            || p.file.ends_with("/src/endianity.rs");
        let in_harness = p.file.contains("harness/src/") || p.file.starts_with("src/");
        let mut line_text = String::new();
        if let Ok(src) = fs::read_to_string(&p.file) {
            if let Some(l) = src.lines().nth(p.line.saturating_sub(1) as usize) {
                line_text = l.split_whitespace().collect::<Vec<_>>().join(" ");
            }
        }
        let rel = p
            .file
            .strip_prefix(self.repo.to_str().unwrap_or(""))
            .unwrap_or(&p.file)
            .trim_start_matches('/');
        let sig = format!(
            "panic|{}|{}|{}|{}",
            entry,
            rel,
            line_text,
            panic_kind(&p.message)
        );
        (sig, in_repo && !in_harness)
    }

    pub fn report_panic(&mut self, entry: &str, p: &PanicInfo, input: &dyn Fn() -> Value) {
        self.report_panic2(entry, entry, p, input)
    }

    /// `sig_entry` goes into the signature (use a constant to make the signature depend on
    /// the panic site only), `entry` into the description.
    pub fn report_panic2(&mut self, sig_entry: &str, entry: &str, p: &PanicInfo, input: &dyn Fn() -> Value) {
        let (sig, in_repo) = self.panic_signature(sig_entry, p);
        // A panic raised by std on behalf of gimli (e.g. slice indexing inside core) is
        // located in the standard library; attribute it to gimli unless it is in the harness.
        let in_std = p.file.contains("/library/") || p.file.contains("/rustc/");
        if !(in_repo || in_std) {
            let msg = format!(
                "harness panic in {} at {}:{}: {}",
                entry, p.file, p.line, p.message
            );
            if self.harness_errors.len() < 20 {
                self.harness_errors.push(msg);
            }
            return;
        }
        let what = format!(
            "{} panicked at {}:{}: {}",
            entry,
            p.file,
            p.line,
            p.message.chars().take(200).collect::<String>()
        );
        let replay = json!({"entry": entry, "panic": {"file": p.file, "line": p.line, "message": p.message}, "input": input()});
        self.violation(&sig, &what, replay);
    }

    /// Record a violation.  Deduplicated by signature; matched against open known findings.
    pub fn violation(&mut self, signature: &str, what: &str, mut replay: Value) {
        self.obs("violations_raw");
        if self.seen_sigs.contains(signature) {
            return;
        }
        if self.violations.len() >= self.max_violations {
            return;
        }
        self.seen_sigs.insert(signature.to_string());
        let known = self
            .known
            .iter()
            .any(|k| k.status == "open" && k.property == self.prop && k.signature == signature);
        let path = self.work.join("replay").join(format!(
            "{}-{:016x}.json",
            self.prop,
            fnv(signature.as_bytes())
        ));
        if let Value::Object(m) = &mut replay {
            m.insert("property".into(), json!(self.prop));
            m.insert("profile".into(), json!(self.profile.name()));
            m.insert("tier".into(), json!(if self.quick() { "quick" } else { "thorough" }));
            m.insert("seed".into(), json!(self.seed));
            m.insert("stream".into(), json!(self.cur.0));
            m.insert("index".into(), json!(self.cur.1));
            m.insert("signature".into(), json!(signature));
            m.insert("what".into(), json!(what));
        }
        let _ = fs::create_dir_all(path.parent().unwrap());
        let _ = fs::write(&path, serde_json::to_string_pretty(&replay).unwrap_or_default());
        if self.verbose {
            eprintln!("violation [{}] {}", signature, what);
        }
        self.violations.push(ViolationRec {
            signature: signature.to_string(),
            what: what.to_string(),
            replay: path.to_string_lossy().to_string(),
            known,
        });
    }

    /// Compare an expected (model) and an observed (gimli) value; on difference record a
    /// violation whose signature is `sig` (keep signatures coarse: entry point + field).
    pub fn check_eq<T: PartialEq + std::fmt::Debug>(
        &mut self,
        sig: &str,
        expected: &T,
        observed: &T,
        input: &dyn Fn() -> Value,
    ) -> bool {
        if expected == observed {
            return true;
        }
        let e = format!("{:?}", expected);
        let o = format!("{:?}", observed);
        let what = format!(
            "{}: expected {} observed {}",
            sig,
            e.chars().take(300).collect::<String>(),
            o.chars().take(300).collect::<String>()
        );
        let replay = json!({"entry": sig, "expected": e, "observed": o, "input": input()});
        self.violation(&format!("mismatch|{}", sig), &what, replay);
        false
    }

    pub fn fail(&mut self, sig: &str, what: &str, input: &dyn Fn() -> Value) {
        let replay = json!({"entry": sig, "input": input()});
        self.violation(&format!("mismatch|{}", sig), what, replay);
    }

    pub fn inconclusive(&mut self, reason: &str) {
        if self.inconclusive.len() < 50 {
            self.inconclusive.push(reason.to_string());
        }
        self.obs("inconclusive");
    }

    pub fn harness_error(&mut self, msg: &str) {
        if self.harness_errors.len() < 20 {
            self.harness_errors.push(msg.to_string());
        }
    }

    /// Serialise this shard's result.
    pub fn result_json(&self) -> Value {
        let mut obs = Map::new();
        for (k, v) in &self.obs {
            obs.insert(k.clone(), json!(v));
        }
        json!({
            "property": self.prop,
            "profile": self.profile.name(),
            "shard": self.shard,
            "nshards": self.nshards,
            "evaluations": self.evaluations,
            "counted_distinct": self.counted_distinct,
            "digest_count": self.digests.len(),
            "samples": self.samples,
            "obs": obs,
            "violations": self.violations.iter().map(|v| json!({"signature": v.signature, "what": v.what, "replay": v.replay, "known": v.known})).collect::<Vec<_>>(),
            "inconclusive": self.inconclusive,
            "harness_errors": self.harness_errors,
        })
    }

    pub fn write_digests(&self, path: &std::path::Path) -> std::io::Result<()> {
        let mut f = std::io::BufWriter::new(fs::File::create(path)?);
        for d in &self.digests {
            f.write_all(&d.to_le_bytes())?;
        }
        f.flush()
    }
}

pub fn hex(bytes: &[u8]) -> String {
    let mut s = String::with_capacity(bytes.len() * 2);
    for b in bytes.iter().take(4096) {
        s.push_str(&format!("{:02x}", b));
    }
    if bytes.len() > 4096 {
        s.push_str(&format!("...(+{} bytes)", bytes.len() - 4096));
    }
    s
}

pub fn unhex(s: &str) -> Vec<u8> {
    let s: Vec<u8> = s.bytes().filter(|b| b.is_ascii_hexdigit()).collect();
    s.chunks(2)
        .filter(|c| c.len() == 2)
        .map(|c| u8::from_str_radix(std::str::from_utf8(c).unwrap(), 16).unwrap())
        .collect()
}

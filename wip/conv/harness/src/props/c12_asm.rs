//! stub
use crate::rt::Ctx;
pub fn run(_ctx: &mut Ctx) {}

//! C10 — whole-section agreement (stub).
use crate::rt::Ctx;
pub fn run(_ctx: &mut Ctx) {}

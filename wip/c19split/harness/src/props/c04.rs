//! C04 — line-number rows equal the DWARF state machine; sequences are consistent.
//!
//! Oracle: `model::line` (independent section 6.2 state machine + table model) fed by the
//! model's own decoder from the assembled bytes; self-agreement of
//! `sequences()`/`resume_from()` with a straight run; and, for arbitrary bytes, the
//! monotonicity / address-mask invariant alone.

use crate::asm::Enc;
use crate::gen::line::*;
use crate::gen::mutate;
use crate::model::line::*;
use crate::props::PropInfo;
use crate::rt::{hex, Ctx, Rng};
use gimli::{AttributeValue, DebugLineOffset, EndianSlice, RunTimeEndian};
use serde_json::{json, Value};

type Rd<'a> = EndianSlice<'a, RunTimeEndian>;

#[path = "c04_corpus.rs"]
mod corpus;

pub fn info() -> PropInfo {
    PropInfo {
        id: "C04",
        level: "exploration",
        rule: "Streams: `probe` = per sampled header (parameter space min_inst_len {1,2,4,255,U}, max_ops {1,2,3,4,255,U} (v>=4), line_base {-128,-5,-3,-1,0,1,127,U}, line_range {1,2,12,14,127,255,U}, opcode_base {1,2,10,13,14,40,255,U} with arbitrary standard_opcode_lengths for opcodes >= 13, default_is_stmt raw byte, cycling through all 64 encodings = versions 2-5 x Dwarf32/64 x address sizes 1/2/4/8 x both byte orders) and per register prefix (6 prefixes: initial state, all registers set, op_index non-zero after a row, address/line at the top, line 0 and extreme file/column, random program): all 256 opcode bytes as the probed instruction and, for opcode 0, all 256 extended sub-opcodes (with operands/payload), followed by two DW_LNE_end_sequence (the first exposes every register, the second the reset). `prog` = random multi-sequence programs of 1-200 instructions over the full instruction set with boundary operands, padded ULEB128 operands, extended instructions with trailing bytes inside their length, DW_LNE_define_file, unit placed at a non-zero offset and followed by bytes that must not be executed; 85% well-formed by model look-ahead, 15% with ill-formed steps (secondary). `hdr` = header/table focused cases (v2-4 lists, v5 entry formats with 1-6 content types in any order, standard and non-standard forms, unknown content types, strings in .debug_line_str/.debug_str resolved through Dwarf::attr_line_string). For every case: header fields, include_directories, file_names (before and after define_file), file()/directory() lookups, rows of rows(), LineSequence{start,end} of sequences(), rows of resume_from() for every sequence against both the model and the straight run. `inv.bytes`/`inv.mut` = valid header + random instruction bytes, and structure-agnostic / field-map mutations of valid units: only the invariant (addresses never decrease within a sequence, never exceed the address size; LineSequence start <= end) is judged, on rows(), after errors, and on every resumed sequence. `regress` = witnesses of fixed defects. A case is non-trivial when the model emits at least one row (probe/prog), the header has at least one table entry (hdr) or the header parses and at least one instruction byte follows (inv); distinct by digest of the section bytes. `corpus` (external-tool oracle; mon/corpus.rs) = small C (two translation units + a header in a sub-directory) and C++ (templates, inlining, virtual calls, destructors, throw/catch) programs compiled and linked at check time with gcc 12 / clang 14: quick tier 4 configurations (g++ -gdwarf-5 -O2; clang -gdwarf-5 -O2 -fno-asynchronous-unwind-tables; gcc -m32 -gdwarf-3 -O2 static without libc; clang++ -gdwarf-4 -O0), thorough tier 58 ({gcc,clang} x -gdwarf-{2,3,4,5} x {-O0,-O2} x {C,C++}, -gdwarf64 with gcc-written line tables, -fdebug-types-section, .debug_frame builds, 32-bit builds, --gc-sections, frame pointers, -Os/-O3); one case per configuration, sharded by index; executables and tool dumps are cached under .work/corpus by a hash of compiler version, flags and sources. For C04 every line program of the executable (walked sequentially through .debug_line) is compared with `llvm-dwarfdump --debug-line`: all header parameters, include_directories, file_names (name, directory index, mtime, length, MD5, source), every row (address, line, column, file index, isa, discriminator, is_stmt, basic_block, end_sequence, prologue_end, epilogue_begin), the file name and directory of every row through LineRow::file / FileEntry::directory, the (start, end) pairs of sequences() and the rows of resume_from() for every sequence. A corpus case is non-trivial when llvm printed at least one table; distinct by digest of .debug_line.",
        assumptions: &[
            "well-formed = header fields valid, every instruction decodes inside the program, no address arithmetic beyond the address size or u64, no DW_LNE_set_address below the current address of its sequence or >= 2^(8*size)-2, line register stays within 0..2^64; behaviour outside that domain (saturating line, AddressOverflow, tombstone suppression) is predicted from the pinned tree and compared as secondary observations only",
            "standard opcodes 1..12 keep their standard operand counts in standard_opcode_lengths and their DWARF 3+ meaning in every version (DESIGN A.4)",
            "LineSequence.start is compared only for sequences with a row before end_sequence",
            "v5 tables: (content type, form) pairs outside the standard's lists (e.g. MD5 as block, timestamp as block, path with a non-string form) and duplicate standard content types are secondary; content type codes above 0xffff are reported as 0xffff",
            "default_is_stmt: any non-zero byte means true",
            "ULEB128 operands are at most 10 bytes long (padded but not over-long)",
            "rows after an Err from next_row are included in the invariant clause (the iterator keeps going after AddressOverflow)",
            "corpus: llvm-dwarfdump 14 is the oracle; tool/compiler failures and unparsable dumps are inconclusive, never violations",
            "corpus normalisations (presentation only): strings are compared after resolving gimli's AttributeValue through Dwarf::attr_line_string; llvm prints address_size/seg_select_size only for version 5 and max_ops_per_inst only for version >= 4, so these are compared only then (seg_select_size never: gimli has no accessor); default_is_stmt is compared as 0/1; a missing mtime/length in a v5 table is 0; LeftEdge column = 0, line None = 0; pre-v5 rows with file dir_index 0 (compilation directory, not in the table) skip the directory comparison; llvm does not print op_index (max_ops is 1 on x86)",
            "corpus: LineSequence.start is not compared for a table that contains an end_sequence without a preceding row (none observed)",
        ],
        exhaustive_subspaces: &[
            "all 256 opcode bytes x all 6 register prefixes per sampled header",
            "all 256 extended sub-opcodes x all 6 register prefixes per sampled header",
            "all 64 encodings (version x format x address size x byte order) per stream",
        ],
        must_observe: &[
            "ins.special", "ins.copy", "ins.advance_pc", "ins.advance_line", "ins.set_file", "ins.set_column", "ins.negate_stmt", "ins.set_basic_block", "ins.const_add_pc", "ins.fixed_advance_pc",
            "ins.set_prologue_end", "ins.set_epilogue_begin", "ins.set_isa", "ins.unknown_std0", "ins.unknown_std1", "ins.unknown_stdN", "ins.end_sequence", "ins.set_address", "ins.define_file",
            "ins.set_discriminator", "ins.unknown_ext", "strict.rows", "strict.sequences", "strict.resume", "strict.header", "strict.tables", "version.2", "version.3", "version.4", "version.5",
            "max_ops.gt1", "op_index.nonzero", "opcode_base.lt10", "opcode_base.gt13", "v5.form.line_strp", "v5.form.strp", "v5.form.string", "v5.form.data16", "v5.ct.unknown", "v5.ct.md5", "v5.ct.source",
            "secondary.agree", "inv.rows", "inv.parsed", "inv.error_seen", "inv.sequences", "regress.tombstone",
            "corpus.object", "corpus.cc.gcc", "corpus.cc.clang", "corpus.lang.c", "corpus.lang.cpp", "corpus.line.tables", "corpus.line.rows", "corpus.line.file_entries", "corpus.line.dir_entries",
            "corpus.line.sequences", "corpus.line.version.3", "corpus.line.version.4", "corpus.line.version.5", "corpus.line.md5", "corpus.line.addr4", "corpus.line.end_sequence", "corpus.line.prologue_end",
            "corpus.line.discriminator", "corpus.line.not_stmt", "corpus.line.file_switch",
        ],
        run,
    }
}

// ---------------------------------------------------------------- observed side

pub(crate) fn av_of(v: &AttributeValue<Rd<'_>>) -> AV {
    match v {
        AttributeValue::Block(b) => AV::Block(b.slice().to_vec()),
        AttributeValue::Data1(x) => AV::Data1(*x),
        AttributeValue::Data2(x) => AV::Data2(*x),
        AttributeValue::Data4(x) => AV::Data4(*x),
        AttributeValue::Data8(x) => AV::Data8(*x),
        AttributeValue::Udata(x) => AV::Udata(*x),
        AttributeValue::Sdata(x) => AV::Sdata(*x),
        AttributeValue::Flag(x) => AV::Flag(*x),
        AttributeValue::SecOffset(x) => AV::SecOffset(*x as u64),
        AttributeValue::String(s) => AV::Str(s.slice().to_vec()),
        AttributeValue::DebugStrRef(o) => AV::Strp(o.0 as u64),
        AttributeValue::DebugStrRefSup(o) => AV::StrpSup(o.0 as u64),
        AttributeValue::DebugLineStrRef(o) => AV::LineStrp(o.0 as u64),
        AttributeValue::DebugStrOffsetsIndex(i) => AV::Strx(i.0 as u64),
        other => AV::Other(format!("{other:?}")),
    }
}

pub(crate) fn file_of(f: &gimli::FileEntry<Rd<'_>>) -> FileM {
    FileM { path: av_of(&f.path_name()), dir: f.directory_index(), mtime: f.timestamp(), size: f.size(), md5: *f.md5(), source: f.source().map(|s| av_of(&s)) }
}

pub(crate) fn row_of(r: &gimli::LineRow) -> Row {
    Row {
        address: r.address(),
        op_index: r.op_index(),
        file: r.file_index(),
        line: r.line().map(|l| l.get()).unwrap_or(0),
        column: match r.column() {
            gimli::ColumnType::LeftEdge => 0,
            gimli::ColumnType::Column(c) => c.get(),
        },
        is_stmt: r.is_stmt(),
        basic_block: r.basic_block(),
        end_sequence: r.end_sequence(),
        prologue_end: r.prologue_end(),
        epilogue_begin: r.epilogue_begin(),
        isa: r.isa(),
        discriminator: r.discriminator(),
    }
}

#[derive(Debug, PartialEq, Clone, Default)]
struct Params {
    offset: u64,
    unit_length: u64,
    version: u16,
    fmt64: bool,
    addr: u8,
    header_length: u64,
    min_inst_len: u8,
    max_ops: u8,
    default_is_stmt: bool,
    line_base: i8,
    line_range: u8,
    opcode_base: u8,
    std_lengths: Vec<u8>,
    program: Vec<u8>,
}

#[derive(Debug, PartialEq, Clone, Default)]
struct Tables {
    dir_fmt: Vec<(u16, u16)>,
    dirs: Vec<AV>,
    file_fmt: Vec<(u16, u16)>,
    files: Vec<FileM>,
    has: (bool, bool, bool, bool),
    file_lookup: Vec<Option<FileM>>,
    dir_lookup: Vec<Option<AV>>,
    file_dirs: Vec<Option<AV>>,
    resolved: Vec<Option<Vec<u8>>>,
}

fn lookup_indices(n: usize) -> Vec<u64> {
    let n = n as u64;
    vec![0, 1, 2, n.saturating_sub(1), n, n + 1, n + 2, 1 << 32, 1 << 63, u64::MAX]
}

struct Comp {
    dir: Option<Vec<u8>>,
    name: Option<Vec<u8>>,
}

fn model_params(h: &Hdr, b: &Built) -> Params {
    Params {
        offset: b.offset as u64,
        unit_length: b.unit_length,
        version: h.enc.version,
        fmt64: h.enc.fmt64,
        addr: h.enc.addr,
        header_length: b.header_length,
        min_inst_len: h.min_inst_len,
        max_ops: h.max_ops,
        default_is_stmt: h.default_is_stmt,
        line_base: h.line_base,
        line_range: h.line_range,
        opcode_base: h.opcode_base,
        std_lengths: h.std_lengths.clone(),
        program: b.line[b.prog_off..b.prog_off + b.prog_len].to_vec(),
    }
}

fn clamp_fmt(f: &[Fmt]) -> Vec<(u16, u16)> {
    f.iter().map(|(ct, form)| ((*ct).min(0xffff) as u16, *form)).collect()
}

fn model_resolve(v: &AV, tabs: &Tabs) -> Option<Vec<u8>> {
    match v {
        AV::Str(s) => Some(s.clone()),
        AV::Strp(o) => tabs.str_.get(*o),
        AV::LineStrp(o) => tabs.line_str.get(*o),
        _ => None,
    }
}

fn model_tables(h: &Hdr, files: &[FileM], tabs: &Tabs, comp: &Comp) -> Tables {
    let dirs = h.dir_table();
    let v5 = h.v5();
    let has = if v5 {
        let c = |ct: u64| h.file_fmt.iter().any(|(x, _)| *x == ct);
        (c(LNCT_TIMESTAMP), c(LNCT_SIZE), c(LNCT_MD5), c(LNCT_LLVM_SOURCE))
    } else {
        (true, true, false, false)
    };
    let mut resolved = vec![];
    for d in &dirs {
        resolved.push(model_resolve(d, tabs));
    }
    for f in files {
        resolved.push(model_resolve(&f.path, tabs));
        if let Some(s) = &f.source {
            resolved.push(model_resolve(s, tabs));
        }
    }
    Tables {
        dir_fmt: clamp_fmt(&h.dir_fmt),
        file_fmt: clamp_fmt(&h.file_fmt),
        file_lookup: lookup_indices(files.len()).iter().map(|i| h.file(files, *i, comp.name.as_deref())).collect(),
        dir_lookup: lookup_indices(dirs.len()).iter().map(|i| h.directory(*i, comp.dir.as_deref())).collect(),
        file_dirs: files.iter().map(|f| h.directory(f.dir, comp.dir.as_deref())).collect(),
        dirs,
        files: files.to_vec(),
        has,
        resolved,
    }
}

fn got_params(hd: &gimli::LineProgramHeader<Rd<'_>>) -> Params {
    Params {
        offset: hd.offset().0 as u64,
        unit_length: hd.unit_length() as u64,
        version: hd.version(),
        fmt64: hd.format() == gimli::Format::Dwarf64,
        addr: hd.address_size(),
        header_length: hd.header_length() as u64,
        min_inst_len: hd.minimum_instruction_length(),
        max_ops: hd.maximum_operations_per_instruction(),
        default_is_stmt: hd.default_is_stmt(),
        line_base: hd.line_base(),
        line_range: hd.line_range(),
        opcode_base: hd.opcode_base(),
        std_lengths: hd.standard_opcode_lengths().slice().to_vec(),
        program: hd.raw_program_buf().slice().to_vec(),
    }
}

fn got_tables(hd: &gimli::LineProgramHeader<Rd<'_>>, dwarf: &gimli::Dwarf<Rd<'_>>) -> Tables {
    let res = |v: AttributeValue<Rd<'_>>| -> Option<Vec<u8>> {
        match &v {
            AttributeValue::String(_) | AttributeValue::DebugStrRef(_) | AttributeValue::DebugLineStrRef(_) => dwarf.attr_line_string(v).ok().map(|s| s.slice().to_vec()),
            _ => None,
        }
    };
    let fmt = |f: &[gimli::FileEntryFormat]| f.iter().map(|x| (x.content_type.0, x.form.0)).collect::<Vec<_>>();
    let mut resolved = vec![];
    for d in hd.include_directories() {
        resolved.push(res(d.clone()));
    }
    for f in hd.file_names() {
        resolved.push(res(f.path_name()));
        if let Some(s) = f.source() {
            resolved.push(res(s));
        }
    }
    Tables {
        dir_fmt: fmt(hd.directory_entry_format()),
        dirs: hd.include_directories().iter().map(av_of).collect(),
        file_fmt: fmt(hd.file_name_entry_format()),
        files: hd.file_names().iter().map(file_of).collect(),
        has: (hd.file_has_timestamp(), hd.file_has_size(), hd.file_has_md5(), hd.file_has_source()),
        file_lookup: lookup_indices(hd.file_names().len()).iter().map(|i| hd.file(*i).map(file_of)).collect(),
        dir_lookup: lookup_indices(hd.include_directories().len()).iter().map(|i| hd.directory(*i).map(|d| av_of(&d))).collect(),
        file_dirs: hd.file_names().iter().map(|f| f.directory(hd).map(|d| av_of(&d))).collect(),
        resolved,
    }
}

#[derive(Default)]
struct Got {
    parse_err: Option<String>,
    params: Params,
    tables_before: Tables,
    tables_after: Tables,
    rows: Vec<Row>,
    /// error from next_row (first one); rows() was stopped there
    row_err: Option<String>,
    /// None = not run; Some(Err) = sequences() failed
    seqs: Option<Result<Vec<GotSeq>, String>>,
}

#[derive(Debug, Clone, PartialEq)]
struct GotSeq {
    start: u64,
    end: u64,
    rows: Vec<Row>,
    err: Option<String>,
    /// next_row after the last row returned Ok(None) (twice)
    ended: bool,
}

fn observe(b: &Built, tabs: &Tabs, enc: Enc, comp: &Comp, want_tables: bool, want_seqs: bool) -> Got {
    let endian = enc.endian();
    let mut g = Got::default();
    let dl = gimli::DebugLine::new(&b.line, endian);
    let cd = comp.dir.as_ref().map(|d| EndianSlice::new(&d[..], endian));
    let cn = comp.name.as_ref().map(|d| EndianSlice::new(&d[..], endian));
    let program = match dl.program(DebugLineOffset(b.offset), enc.addr, cd, cn) {
        Ok(p) => p,
        Err(e) => {
            g.parse_err = Some(format!("{e:?}"));
            return g;
        }
    };
    let mut dwarf: gimli::Dwarf<Rd<'_>> = gimli::Dwarf::default();
    dwarf.debug_str = gimli::DebugStr::new(&tabs.str_.bytes, endian);
    dwarf.debug_line_str = gimli::DebugLineStr::from(EndianSlice::new(&tabs.line_str.bytes[..], endian));
    g.params = got_params(program.header());
    if want_tables {
        g.tables_before = got_tables(program.header(), &dwarf);
    }
    let mut rows = program.clone().rows();
    let cap = b.prog_len + 64;
    let mut calls = 0;
    loop {
        calls += 1;
        if calls > cap {
            g.row_err = Some("harness: step cap".into());
            break;
        }
        match rows.next_row() {
            Ok(Some((_, r))) => g.rows.push(row_of(r)),
            Ok(None) => break,
            Err(e) => {
                g.row_err = Some(format!("{e:?}"));
                break;
            }
        }
    }
    if want_tables {
        g.tables_after = got_tables(rows.header(), &dwarf);
    }
    if want_seqs {
        g.seqs = Some(match program.sequences() {
            Err(e) => Err(format!("{e:?}")),
            Ok((complete, seqs)) => {
                let mut out = vec![];
                for s in &seqs {
                    let mut gs = GotSeq { start: s.start, end: s.end, rows: vec![], err: None, ended: false };
                    let mut rr = complete.resume_from(s);
                    let mut calls = 0;
                    loop {
                        calls += 1;
                        if calls > cap {
                            gs.err = Some("harness: step cap".into());
                            break;
                        }
                        match rr.next_row() {
                            Ok(Some((_, r))) => gs.rows.push(row_of(r)),
                            Ok(None) => {
                                gs.ended = matches!(rr.next_row(), Ok(None));
                                break;
                            }
                            Err(e) => {
                                gs.err = Some(format!("{e:?}"));
                                break;
                            }
                        }
                    }
                    out.push(gs);
                }
                Ok(out)
            }
        });
    }
    g
}

// ---------------------------------------------------------------- comparison

struct Case<'a> {
    h: &'a Hdr,
    tabs: &'a Tabs,
    prog: Vec<u8>,
    pre: Vec<u8>,
    post: Vec<u8>,
    comp: Comp,
}

fn hdr_json(h: &Hdr) -> Value {
    json!({"enc": h.enc.label(), "min_inst_len": h.min_inst_len, "max_ops": h.max_ops, "default_is_stmt": h.default_is_stmt_raw, "line_base": h.line_base, "line_range": h.line_range,
        "opcode_base": h.opcode_base, "std_lengths": hex(&h.std_lengths), "dir_fmt": format!("{:?}", h.dir_fmt), "file_fmt": format!("{:?}", h.file_fmt)})
}

fn rows_diff(exp: &[Row], got: &[Row]) -> Option<(usize, &'static str)> {
    for (k, (e, g)) in exp.iter().zip(got.iter()).enumerate() {
        if let Some(f) = e.first_diff(g) {
            return Some((k, f));
        }
    }
    if exp.len() != got.len() {
        return Some((exp.len().min(got.len()), "row_count"));
    }
    None
}

fn obs_hdr(ctx: &mut Ctx, h: &Hdr) {
    ctx.obs(&format!("version.{}", h.enc.version));
    if h.max_ops > 1 {
        ctx.obs("max_ops.gt1");
    }
    if h.opcode_base < 10 {
        ctx.obs("opcode_base.lt10");
    }
    if h.opcode_base > 13 {
        ctx.obs("opcode_base.gt13");
    }
    if h.v5() {
        for (ct, form) in h.dir_fmt.iter().chain(h.file_fmt.iter()) {
            let n = form_name(*form);
            ctx.obs(&format!("v5.form.{n}"));
            match *ct {
                LNCT_PATH => ctx.obs("v5.ct.path"),
                LNCT_DIRECTORY_INDEX => ctx.obs("v5.ct.directory_index"),
                LNCT_TIMESTAMP => ctx.obs("v5.ct.timestamp"),
                LNCT_SIZE => ctx.obs("v5.ct.size"),
                LNCT_MD5 => ctx.obs("v5.ct.md5"),
                LNCT_LLVM_SOURCE => ctx.obs("v5.ct.source"),
                _ => ctx.obs("v5.ct.unknown"),
            }
        }
    }
}

/// Run one well-formedness-aware case through gimli and compare every clause.
/// `class` goes into the violation signature (instruction class or stream).
fn run_case(ctx: &mut Ctx, stream: &str, class: &str, c: &Case, check_tables: bool, count_ins: bool) -> Option<Run> {
    let h = c.h;
    let b = assemble(h, &c.prog, &c.pre, &c.post);
    let (dec, complete) = decode(h, &c.prog);
    let ins: Vec<Ins> = dec.into_iter().map(|(_, i)| i).collect();
    let run = crate::model::line::run(h, &ins, complete);
    ctx.eval();
    let input = || {
        json!({"hdr": hdr_json(h), "debug_line": hex(&b.line), "offset": b.offset, "debug_line_str": hex(&c.tabs.line_str.bytes), "debug_str": hex(&c.tabs.str_.bytes),
            "comp_dir": c.comp.dir.as_ref().map(|d| hex(d)), "comp_name": c.comp.name.as_ref().map(|d| hex(d)), "program": format!("{:?}", ins.iter().take(60).collect::<Vec<_>>())})
    };
    let got = ctx.guard(&format!("line.{stream}"), &input, || observe(&b, c.tabs, h.enc, &c.comp, check_tables, true))?;
    if let Some(e) = &got.parse_err {
        ctx.fail(&format!("{stream}.header.parse"), &format!("valid header rejected: {e}"), &input);
        return Some(run);
    }
    // ---- header parameters (always strict)
    let mp = model_params(h, &b);
    if mp != got.params {
        macro_rules! f {
            ($($n:ident),*) => {$( ctx.check_eq(&format!("{stream}.header.{}", stringify!($n)), &mp.$n, &got.params.$n, &input); )*};
        }
        f!(offset, unit_length, version, fmt64, addr, header_length, min_inst_len, max_ops, default_is_stmt, line_base, line_range, opcode_base, std_lengths, program);
    }
    ctx.obs("strict.header");
    // ---- tables
    if check_tables {
        let before = model_tables(h, &h.file_table(), c.tabs, &c.comp);
        let after = model_tables(h, &run.files, c.tabs, &c.comp);
        if h.tables_strict() {
            ctx.obs("strict.tables");
            for (tag, m, g) in [("before", &before, &got.tables_before), ("after", &after, &got.tables_after)] {
                if tag == "after" && got.row_err.is_some() {
                    continue;
                }
                if m != g {
                    macro_rules! f {
                        ($($n:ident),*) => {$( ctx.check_eq(&format!("{stream}.tables.{}", stringify!($n)), &m.$n, &g.$n, &input); )*};
                    }
                    f!(dir_fmt, dirs, file_fmt, files, has, file_lookup, dir_lookup, file_dirs, resolved);
                }
            }
        } else if before == got.tables_before {
            ctx.obs("secondary.tables.agree");
        } else {
            ctx.obs("secondary.tables.differ");
        }
    }
    // ---- rows
    if count_ins {
        for i in &ins {
            ctx.obs(&format!("ins.{}", i.kind()));
        }
        if run.rows.iter().any(|r| r.op_index != 0) {
            ctx.obs("op_index.nonzero");
        }
    }
    if run.wellformed {
        ctx.obs("strict.rows");
        if let Some(e) = &got.row_err {
            ctx.fail(&format!("{stream}.rows.error.{class}"), &format!("well-formed program: next_row returned Err({e}) after {} rows; model has {} rows", got.rows.len(), run.rows.len()), &input);
        } else if let Some((k, field)) = rows_diff(&run.rows, &got.rows) {
            ctx.check_eq(&format!("{stream}.rows.{field}.{class}"), &format!("row {k}: {:?}", run.rows.get(k)), &format!("row {k}: {:?}", got.rows.get(k)), &input);
        }
    } else {
        // strict prefix: rows emitted before the first ill-formed event are still fixed
        let n = run.strict_rows.min(got.rows.len());
        if n < run.strict_rows {
            ctx.check_eq(&format!("{stream}.rows.strict_prefix.row_count.{class}"), &run.strict_rows, &got.rows.len(), &input);
        } else if let Some((k, field)) = rows_diff(&run.rows[..n], &got.rows[..n]) {
            ctx.check_eq(&format!("{stream}.rows.strict_prefix.{field}.{class}"), &format!("row {k}: {:?}", run.rows.get(k)), &format!("row {k}: {:?}", got.rows.get(k)), &input);
        }
        // PINNED part: secondary only
        let agree = complete && rows_diff(&run.rows, &got.rows).is_none() && (run.err == got.row_err.as_deref().map(|e| e.contains("AddressOverflow")).unwrap_or(false));
        if !complete {
            ctx.obs("secondary.undecodable");
        } else if agree {
            ctx.obs("secondary.agree");
        } else {
            ctx.obs("secondary.differ");
        }
    }
    // ---- sequences and resume
    match &got.seqs {
        Some(Ok(gs)) => {
            // self-agreement with the straight run holds whatever the program is as long as
            // the straight run did not fail
            if run.wellformed {
                ctx.obs("strict.sequences");
                let exp: Vec<(Option<u64>, u64)> = run.seqs.iter().map(|s| (s.start, s.end)).collect();
                let gotb: Vec<(Option<u64>, u64)> = gs.iter().zip(run.seqs.iter()).map(|(g, m)| (m.start.map(|_| g.start), g.end)).collect();
                if gs.len() != run.seqs.len() {
                    ctx.check_eq(&format!("{stream}.sequences.count"), &run.seqs.len(), &gs.len(), &input);
                } else {
                    ctx.check_eq(&format!("{stream}.sequences.bounds"), &exp, &gotb, &input);
                    for (k, (g, m)) in gs.iter().zip(run.seqs.iter()).enumerate() {
                        ctx.obs("strict.resume");
                        let want = &run.rows[m.first..m.past];
                        if let Some(e) = &g.err {
                            ctx.fail(&format!("{stream}.resume.error"), &format!("resume_from(sequence {k}) returned Err({e})"), &input);
                        } else if let Some((j, field)) = rows_diff(want, &g.rows) {
                            ctx.check_eq(&format!("{stream}.resume.{field}"), &format!("sequence {k} row {j}: {:?}", want.get(j)), &format!("sequence {k} row {j}: {:?}", g.rows.get(j)), &input);
                        } else if !g.ended {
                            ctx.fail(&format!("{stream}.resume.not_ended"), &format!("resume_from(sequence {k}) did not end with Ok(None)"), &input);
                        }
                        // against the straight run of gimli itself
                        if got.row_err.is_none() && got.rows.len() >= m.past {
                            if let Some((j, field)) = rows_diff(&got.rows[m.first..m.past], &g.rows) {
                                ctx.check_eq(&format!("{stream}.resume_vs_rows.{field}"), &format!("sequence {k} row {j}: {:?}", got.rows.get(m.first + j)), &format!("sequence {k} row {j}: {:?}", g.rows.get(j)), &input);
                            }
                        }
                    }
                }
            } else {
                // secondary: resumed rows concatenated == rows of the straight run up to the last end_sequence
                let cat: Vec<Row> = gs.iter().flat_map(|g| g.rows.iter().copied()).collect();
                let upto = got.rows.iter().rposition(|r| r.end_sequence).map(|p| p + 1).unwrap_or(0);
                if got.row_err.is_none() && cat == got.rows[..upto] {
                    ctx.obs("secondary.resume.agree");
                } else {
                    ctx.obs("secondary.resume.differ");
                }
            }
        }
        Some(Err(e)) => {
            if run.wellformed {
                ctx.fail(&format!("{stream}.sequences.error"), &format!("well-formed program: sequences() returned Err({e})"), &input);
            }
        }
        None => {}
    }
    // the invariant holds for every input
    invariant_rows(ctx, stream, &got.rows, h.mask(), &input);
    if let Some(Ok(gs)) = &got.seqs {
        for g in gs {
            invariant_rows(ctx, stream, &g.rows, h.mask(), &input);
        }
    }
    Some(run)
}

/// Monotonicity / mask invariant over a row list.
fn invariant_rows(ctx: &mut Ctx, stream: &str, rows: &[Row], mask: u64, input: &dyn Fn() -> Value) {
    let mut prev: Option<u64> = None;
    for (k, r) in rows.iter().enumerate() {
        if r.address & !mask != 0 {
            ctx.fail(&format!("{stream}.invariant.mask"), &format!("row {k} address {:#x} exceeds the address size (mask {:#x})", r.address, mask), input);
            return;
        }
        if let Some(p) = prev {
            if r.address < p {
                ctx.fail(&format!("{stream}.invariant.monotone"), &format!("row {k} address {:#x} is lower than its predecessor {:#x} within one sequence", r.address, p), input);
                return;
            }
        }
        prev = if r.end_sequence { None } else { Some(r.address) };
    }
}

// ---------------------------------------------------------------- workloads

fn self_check(ctx: &mut Ctx, h: &Hdr, ins: &[Ins], prog: &[u8]) {
    let (dec, complete) = decode(h, prog);
    let d: Vec<Ins> = dec.into_iter().map(|(_, i)| i).collect();
    if !complete || d != ins {
        ctx.harness_error(&format!("model decode(assemble(program)) differs from the program: {:?} vs {:?}", ins.iter().take(8).collect::<Vec<_>>(), d.iter().take(8).collect::<Vec<_>>()));
    }
}

fn comp_for(r: &mut Rng) -> Comp {
    Comp { dir: if r.chance(2, 3) { Some(b"/comp/dir".to_vec()) } else { None }, name: if r.chance(2, 3) { Some(b"unit.c".to_vec()) } else { None } }
}

const NPRE: u64 = 6;

fn push_if(h: &Hdr, m: &mut Machine, out: &mut Vec<Ins>, i: Ins) {
    let ok = match &i {
        Ins::Copy => h.has_std(LNS_COPY),
        Ins::AdvancePc(_) => h.has_std(LNS_ADVANCE_PC),
        Ins::AdvanceLine(_) => h.has_std(LNS_ADVANCE_LINE),
        Ins::SetFile(_) => h.has_std(LNS_SET_FILE),
        Ins::SetColumn(_) => h.has_std(LNS_SET_COLUMN),
        Ins::NegateStmt => h.has_std(LNS_NEGATE_STMT),
        Ins::SetBasicBlock => h.has_std(LNS_SET_BASIC_BLOCK),
        Ins::ConstAddPc => h.has_std(LNS_CONST_ADD_PC),
        Ins::FixedAdvancePc(_) => h.has_std(LNS_FIXED_ADVANCE_PC),
        Ins::SetPrologueEnd => h.has_std(LNS_SET_PROLOGUE_END),
        Ins::SetEpilogueBegin => h.has_std(LNS_SET_EPILOGUE_BEGIN),
        Ins::SetIsa(_) => h.has_std(LNS_SET_ISA),
        Ins::Special(op) => *op >= h.opcode_base,
        _ => true,
    };
    if !ok {
        return;
    }
    let mut t = m.clone();
    t.step(&i);
    if t.ill {
        return; // keep prefixes well-formed
    }
    *m = t;
    out.push(i);
}

fn prefix(r: &mut Rng, h: &Hdr, k: u64) -> (Vec<Ins>, Machine) {
    let mut m = Machine::new(h);
    let mut p = vec![];
    let mask = h.mask();
    let max_ok = mask.wrapping_sub(2);
    match k {
        0 => {}
        1 => {
            push_if(h, &mut m, &mut p, Ins::SetAddress { addr: r.below(0x40) & mask, extra: vec![] });
            push_if(h, &mut m, &mut p, Ins::SetDiscriminator { v: 1 + r.below(100), extra: vec![] });
            push_if(h, &mut m, &mut p, Ins::AdvanceLine(5 + r.below(300) as i64));
            push_if(h, &mut m, &mut p, Ins::SetFile(2 + r.below(5)));
            push_if(h, &mut m, &mut p, Ins::SetColumn(1 + r.below(200)));
            push_if(h, &mut m, &mut p, Ins::SetIsa(1 + r.below(9)));
            push_if(h, &mut m, &mut p, Ins::NegateStmt);
            push_if(h, &mut m, &mut p, Ins::SetBasicBlock);
            push_if(h, &mut m, &mut p, Ins::SetPrologueEnd);
            push_if(h, &mut m, &mut p, Ins::SetEpilogueBegin);
        }
        2 => {
            push_if(h, &mut m, &mut p, Ins::SetAddress { addr: r.below(0x20) & mask, extra: vec![] });
            push_if(h, &mut m, &mut p, Ins::AdvanceLine(20));
            push_if(h, &mut m, &mut p, Ins::AdvancePc(1 + r.below(h.max_ops.max(2) as u64 - 1)));
            push_if(h, &mut m, &mut p, Ins::SetDiscriminator { v: 3, extra: vec![] });
            let sp = r.range(h.opcode_base as u64, 255) as u8;
            push_if(h, &mut m, &mut p, Ins::Special(sp));
            push_if(h, &mut m, &mut p, Ins::Copy);
            push_if(h, &mut m, &mut p, Ins::SetBasicBlock);
            push_if(h, &mut m, &mut p, Ins::SetEpilogueBegin);
            push_if(h, &mut m, &mut p, Ins::SetDiscriminator { v: 1 + r.below(1 << 20), extra: vec![] });
            push_if(h, &mut m, &mut p, Ins::AdvancePc(r.below(h.max_ops as u64)));
        }
        3 => {
            let back = r.below(4) * h.min_inst_len as u64 + r.below(3);
            push_if(h, &mut m, &mut p, Ins::SetAddress { addr: max_ok.saturating_sub(back), extra: vec![] });
            push_if(h, &mut m, &mut p, Ins::AdvanceLine(i64::MAX));
            push_if(h, &mut m, &mut p, Ins::AdvanceLine(i64::MAX - r.below(300) as i64));
            push_if(h, &mut m, &mut p, Ins::SetPrologueEnd);
        }
        4 => {
            push_if(h, &mut m, &mut p, Ins::AdvanceLine(-1));
            push_if(h, &mut m, &mut p, Ins::NegateStmt);
            push_if(h, &mut m, &mut p, Ins::SetFile(u64::MAX));
            push_if(h, &mut m, &mut p, Ins::SetColumn(u64::MAX));
            push_if(h, &mut m, &mut p, Ins::SetIsa(u64::MAX));
            push_if(h, &mut m, &mut p, Ins::SetDiscriminator { v: u64::MAX, extra: vec![] });
            push_if(h, &mut m, &mut p, Ins::SetAddress { addr: 0, extra: vec![] });
        }
        _ => {
            let n = 1 + r.usize(8);
            for _ in 0..n {
                let i = gen_any(r, h, &m);
                if matches!(i, Ins::EndSequence { .. }) {
                    continue;
                }
                push_if(h, &mut m, &mut p, i);
            }
        }
    }
    (p, m)
}

fn probe(ctx: &mut Ctx) {
    let nh = ctx.size(384, 1600, 8);
    for hi in 0..nh {
        for pk in 0..NPRE {
            let idx = hi * NPRE + pk;
            if !ctx.want("probe", idx) {
                continue;
            }
            // the header depends on hi only, so that each header sees all prefixes
            let mut hr = ctx.rng("probe.hdr", hi);
            let enc = Enc::nth(hi);
            let mut tabs = Tabs::default();
            let h = sample_hdr(&mut hr, enc, &mut tabs, HdrOpts { strict_tables: true, small: true });
            let mut r = ctx.rng("probe", idx);
            let (pre_ins, m) = prefix(&mut r, &h, pk);
            let comp = comp_for(&mut hr);
            obs_hdr(ctx, &h);
            let mut nontrivial = 0u64;
            for code in 0..511u32 {
                let (op, sub) = if code < 256 { (0u8, code as u8) } else { ((code - 255) as u8, 0u8) };
                let pi = gen_for_opcode(&mut r, op, sub, &h, &m);
                let class = pi.kind();
                let mut ins = pre_ins.clone();
                ins.push(pi);
                ins.push(Ins::EndSequence { extra: vec![] });
                ins.push(Ins::EndSequence { extra: vec![] });
                let prog = emit_prog(&h, &ins, &[]);
                self_check(ctx, &h, &ins, &prog);
                let c = Case { h: &h, tabs: &tabs, prog, pre: vec![], post: vec![], comp: Comp { dir: comp.dir.clone(), name: comp.name.clone() } };
                let check_tables = code == 0;
                // count only the probed instruction class
                ctx.obs(&format!("ins.{class}"));
                if let Some(run) = run_case(ctx, "probe", class, &c, check_tables, false) {
                    if !run.rows.is_empty() {
                        nontrivial += 1;
                    }
                    if run.rows.iter().any(|r| r.op_index != 0) {
                        ctx.obs("op_index.nonzero");
                    }
                    if code == 300 {
                        let rows = run.rows.clone();
                        let hj = hdr_json(&h);
                        let pr = hex(&c.prog);
                        ctx.sample("probe", || json!({"hdr": hj, "program": pr, "model_rows": format!("{rows:?}")}));
                    }
                }
            }
            // distinct by construction: (header index, prefix, opcode) is a bijection
            ctx.counted_distinct += nontrivial;
        }
    }
}

fn progs(ctx: &mut Ctx) {
    let n = ctx.size(80_000, 500_000, 10);
    for i in 0..n {
        if !ctx.want("prog", i) {
            continue;
        }
        let mut r = ctx.rng("prog", i);
        let enc = Enc::nth(i);
        let mut tabs = Tabs::default();
        let ho = HdrOpts { strict_tables: r.chance(3, 4), small: r.chance(1, 2) };
        let h = sample_hdr(&mut r, enc, &mut tabs, ho);
        let wellformed = r.chance(85, 100);
        let len = match r.below(10) {
            0..=5 => 1 + r.usize(20),
            6..=8 => 20 + r.usize(60),
            _ => 80 + r.usize(120),
        };
        let term = r.chance(9, 10);
        let ins = gen_program(&mut r, &h, len, wellformed, term);
        let pads: Vec<usize> = (0..ins.len()).map(|_| if r.chance(1, 10) { 1 + r.usize(3) } else { 0 }).collect();
        let prog = emit_prog(&h, &ins, &pads);
        self_check(ctx, &h, &ins, &prog);
        let pre = if r.chance(1, 2) { rbytes(&mut r, 1, 24) } else { vec![] };
        // bytes behind the unit that would produce rows if they were executed
        let post = if r.chance(1, 2) { vec![h.opcode_base.max(1), 0xff, 0x00, 0x01, 0x01] } else { vec![] };
        let c = Case { h: &h, tabs: &tabs, prog, pre, post, comp: comp_for(&mut r) };
        obs_hdr(ctx, &h);
        if let Some(run) = run_case(ctx, "prog", "program", &c, true, true) {
            if !run.rows.is_empty() {
                ctx.nontrivial_bytes("prog", &c.prog);
            }
            if i < 64 && run.wellformed && run.rows.len() > 2 {
                let rows: Vec<Row> = run.rows.iter().take(4).copied().collect();
                let hj = hdr_json(&h);
                let pr = hex(&c.prog);
                ctx.sample("prog", || json!({"hdr": hj, "program": pr, "first_model_rows": format!("{rows:?}"), "sequences": run.seqs.len()}));
            }
        }
    }
}

fn hdrs(ctx: &mut Ctx) {
    let n = ctx.size(40_000, 250_000, 10);
    for i in 0..n {
        if !ctx.want("hdr", i) {
            continue;
        }
        let mut r = ctx.rng("hdr", i);
        // versions 5 get 2/3 of the cases (entry formats are the large space)
        let mut enc = Enc::nth(i);
        if enc.version < 5 && r.chance(1, 2) {
            enc.version = 5;
        }
        let mut tabs = Tabs::default();
        // decoy strings so that offsets are not trivially 0
        tabs.line_str.add(b"decoy");
        tabs.str_.add(b"other decoy");
        let ho = HdrOpts { strict_tables: r.chance(4, 5), small: false };
        let h = sample_hdr(&mut r, enc, &mut tabs, ho);
        let n_ins = 1 + r.usize(6);
        let ins = gen_program(&mut r, &h, n_ins, true, true);
        let prog = emit_prog(&h, &ins, &[]);
        let pre = if r.chance(1, 3) { rbytes(&mut r, 1, 9) } else { vec![] };
        let c = Case { h: &h, tabs: &tabs, prog, pre, post: vec![], comp: comp_for(&mut r) };
        obs_hdr(ctx, &h);
        let entries = h.dirs_v4.len() + h.files_v4.len() + h.dirs_v5.len() + h.files_v5.len();
        if run_case(ctx, "hdr", "program", &c, true, true).is_some() && entries > 0 {
            let b = assemble(&h, &c.prog, &c.pre, &c.post);
            ctx.nontrivial_bytes("hdr", &b.line);
            if i < 200 && h.v5() && h.file_fmt.len() >= 4 && !h.files_v5.is_empty() {
                let hj = hdr_json(&h);
                let files = format!("{:?}", h.file_table());
                ctx.sample("hdr", || json!({"hdr": hj, "debug_line": hex(&b.line), "model_files": files}));
            }
        }
    }
}

/// Invariant-only check of arbitrary `.debug_line` bytes.
fn invariant_case(ctx: &mut Ctx, stream: &str, line: &[u8], offset: usize, enc: Enc, what: &str) -> bool {
    ctx.eval();
    let input = || json!({"enc": enc.label(), "debug_line": hex(line), "offset": offset, "how": what});
    let endian = enc.endian();
    let res = ctx.guard(&format!("line.{stream}"), &input, || {
        let dl = gimli::DebugLine::new(line, endian);
        let program = match dl.program(DebugLineOffset(offset), enc.addr, None, None) {
            Ok(p) => p,
            Err(_) => return None,
        };
        let mask = Enc { addr: program.header().address_size(), ..enc }.addr_mask();
        let cap = program.header().raw_program_buf().len() + 64;
        let mut rows = program.clone().rows();
        let mut all: Vec<Row> = vec![];
        let mut errs = 0u32;
        let mut calls = 0;
        loop {
            calls += 1;
            if calls > cap {
                break;
            }
            match rows.next_row() {
                Ok(Some((_, r))) => all.push(row_of(r)),
                Ok(None) => break,
                Err(_) => errs += 1,
            }
        }
        let mut seqs: Vec<(u64, u64, Vec<Row>)> = vec![];
        let mut seq_ok = false;
        if let Ok((complete, ss)) = program.sequences() {
            seq_ok = true;
            for s in &ss {
                let mut rr = complete.resume_from(s);
                let mut v = vec![];
                let mut calls = 0;
                loop {
                    calls += 1;
                    if calls > cap {
                        break;
                    }
                    match rr.next_row() {
                        Ok(Some((_, r))) => v.push(row_of(r)),
                        Ok(None) => break,
                        Err(_) => {}
                    }
                }
                seqs.push((s.start, s.end, v));
            }
        }
        Some((mask, all, errs, seq_ok, seqs, cap > 64))
    });
    let Some(Some((mask, all, errs, seq_ok, seqs, has_prog))) = res else {
        return false;
    };
    ctx.obs("inv.parsed");
    ctx.obs_n("inv.rows", all.len() as u64);
    if errs > 0 {
        ctx.obs("inv.error_seen");
    }
    invariant_rows(ctx, stream, &all, mask, &input);
    if seq_ok {
        ctx.obs_n("inv.sequences", seqs.len() as u64);
        let mut cat: Vec<Row> = vec![];
        for (start, end, rows) in &seqs {
            invariant_rows(ctx, stream, rows, mask, &input);
            cat.extend(rows.iter().copied());
            let has_row = rows.iter().any(|r| !r.end_sequence);
            if has_row && start > end {
                ctx.fail(&format!("{stream}.invariant.sequence_bounds"), &format!("LineSequence start {start:#x} > end {end:#x}"), &input);
            }
            if *end & !mask != 0 || *start & !mask != 0 {
                ctx.fail(&format!("{stream}.invariant.sequence_mask"), &format!("LineSequence {start:#x}..{end:#x} exceeds the address size"), &input);
            }
        }
        // secondary: self-agreement on arbitrary input
        let upto = all.iter().rposition(|r| r.end_sequence).map(|p| p + 1).unwrap_or(0);
        if cat == all[..upto] {
            ctx.obs("secondary.resume.agree");
        } else {
            ctx.obs("secondary.resume.differ");
        }
    }
    has_prog
}

fn inv_bytes(ctx: &mut Ctx) {
    let n = ctx.size(80_000, 500_000, 10);
    for i in 0..n {
        if !ctx.want("inv.bytes", i) {
            continue;
        }
        let mut r = ctx.rng("inv.bytes", i);
        let enc = Enc::nth(i);
        let mut tabs = Tabs::default();
        let h = sample_hdr(&mut r, enc, &mut tabs, HdrOpts { strict_tables: true, small: true });
        // instruction soup biased towards address-changing instructions
        let len = 1 + r.usize(80);
        let mut prog: Vec<u8> = vec![];
        while prog.len() < len {
            match r.below(12) {
                0..=2 => prog.push(r.next() as u8),
                3 | 4 => {
                    // set_address with arbitrary operand
                    prog.push(0);
                    prog.push(1 + enc.addr);
                    prog.push(2);
                    let v = match r.below(4) {
                        0 => r.below(0x100),
                        1 => enc.addr_mask() - r.below(4),
                        _ => r.boundary(),
                    };
                    let mut a = crate::asm::Asm::new(enc.le);
                    a.uint(enc.addr as usize, v);
                    prog.extend(a.buf);
                }
                5 => {
                    prog.push(2);
                    prog.extend(crate::asm::uleb_bytes(r.boundary()));
                }
                6 => {
                    prog.push(9);
                    prog.extend(r.bytes(2));
                }
                7 => prog.extend([0, 1, 1]),
                8 => prog.push(r.range(h.opcode_base as u64, 255) as u8),
                9 => prog.push(1),
                10 => {
                    prog.push(0);
                    prog.extend(crate::asm::uleb_bytes(r.boundary()));
                }
                _ => prog.extend(rbytes(&mut r, 1, 4)),
            }
        }
        let b = assemble(&h, &prog, &[], &[]);
        if invariant_case(ctx, "inv.bytes", &b.line, 0, enc, "valid header + instruction soup") {
            ctx.nontrivial_bytes("inv.bytes", &b.line);
        }
    }
}

fn inv_mut(ctx: &mut Ctx) {
    let n = ctx.size(80_000, 500_000, 10);
    for i in 0..n {
        if !ctx.want("inv.mut", i) {
            continue;
        }
        let mut r = ctx.rng("inv.mut", i);
        let enc = Enc::nth(i);
        let mut tabs = Tabs::default();
        let h = sample_hdr(&mut r, enc, &mut tabs, HdrOpts { strict_tables: false, small: true });
        let n_ins = 2 + r.usize(30);
        let wf = r.chance(1, 2);
        let ins = gen_program(&mut r, &h, n_ins, wf, true);
        let prog = emit_prog(&h, &ins, &[]);
        let b = assemble(&h, &prog, &[], &[]);
        let (bytes, how) = match r.below(4) {
            0 => {
                let fm = mutate::field_mutations(&b.line, &b.fields, enc.le);
                if fm.is_empty() {
                    (b.line.clone(), "identity".to_string())
                } else {
                    fm[r.usize(fm.len())].clone()
                }
            }
            1 => {
                // several byte mutations inside the program
                let mut o = b.line.clone();
                for _ in 0..1 + r.usize(3) {
                    if b.prog_len > 0 {
                        let p = b.prog_off + r.usize(b.prog_len);
                        o[p] = r.next() as u8;
                    }
                }
                (o, "program bytes".to_string())
            }
            _ => {
                let k = r.below(mutate::count(b.line.len()));
                mutate::nth(&b.line, k)
            }
        };
        if invariant_case(ctx, "inv.mut", &bytes, 0, enc, &how) {
            ctx.nontrivial_bytes("inv.mut", &bytes);
        }
    }
    // a few completely random sections
    let n = ctx.size(2_000, 20_000, 10);
    for i in 0..n {
        if !ctx.want("inv.raw", i) {
            continue;
        }
        let mut r = ctx.rng("inv.raw", i);
        let enc = Enc::nth(i);
        let len = r.usize(64);
        let mut bytes = r.bytes(len);
        if bytes.len() > 6 && r.chance(3, 4) {
            // plausible length + version
            let mut a = crate::asm::Asm::new(enc.le);
            a.u32((bytes.len() - 4) as u32).u16(enc.version);
            bytes[..6].copy_from_slice(&a.buf);
        }
        invariant_case(ctx, "inv.raw", &bytes, 0, enc, "random bytes");
    }
}

/// Permanent regression witnesses of defects that were found by this check and fixed.
fn regress(ctx: &mut Ctx) {
    // fix 8b6168a: a sequence tombstoned part-way lost its end_sequence row
    for (k, enc) in Enc::all().into_iter().enumerate() {
        if !ctx.want("regress", k as u64) {
            continue;
        }
        let mut r = ctx.rng("regress", k as u64);
        let mut tabs = Tabs::default();
        let mut h = sample_hdr(&mut r, enc, &mut tabs, HdrOpts { strict_tables: true, small: true });
        h.opcode_base = 13;
        h.std_lengths = vec![0, 1, 1, 1, 1, 0, 0, 0, 1, 0, 0, 1];
        h.min_inst_len = 1;
        let hi = 0x40 & h.mask();
        let ins = vec![
            Ins::SetAddress { addr: hi, extra: vec![] },
            Ins::Copy,
            Ins::SetAddress { addr: 0, extra: vec![] },
            Ins::AdvancePc(2),
            Ins::Copy,
            Ins::EndSequence { extra: vec![] },
            Ins::SetAddress { addr: 0x10, extra: vec![] },
            Ins::Copy,
            Ins::AdvancePc(1),
            Ins::EndSequence { extra: vec![] },
        ];
        let prog = emit_prog(&h, &ins, &[]);
        let b = assemble(&h, &prog, &[], &[]);
        ctx.obs("regress.tombstone");
        invariant_case(ctx, "regress", &b.line, 0, enc, "tombstoned part-way");
        ctx.counted_distinct += 1;
    }
}

pub fn run(ctx: &mut Ctx) {
    corpus::run(ctx);
    regress(ctx);
    probe(ctx);
    progs(ctx);
    hdrs(ctx);
    inv_bytes(ctx);
    inv_mut(ctx);
}

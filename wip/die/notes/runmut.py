#!/usr/bin/env python3
# usage: runmut.py PROP mutants.json  -> applies each mutant to /var/tmp/ag-die/mut, runs check, reverts
import json,sys,subprocess,os,time
prop=sys.argv[1]; muts=json.load(open(sys.argv[2]))
root='/var/tmp/ag-die/mut'
log=open(f'/var/tmp/ag-die/mutwork/{prop}-results.txt','a')
for m in muts:
    f=os.path.join(root,m['file']); s=open(f).read()
    if s.count(m['old'])!=1:
        print(m['id'],'PATTERN-COUNT',s.count(m['old']),file=log,flush=True); continue
    open(f,'w').write(s.replace(m['old'],m['new']))
    t=time.time()
    env=dict(os.environ,GV_REPO=root,GV_JOBS='4')
    r=subprocess.run(['./check',prop,'--no-evidence'],cwd='/var/tmp/ag-die/snap/verif',env=env,capture_output=True,text=True)
    out=r.stdout+r.stderr
    v=[l for l in out.splitlines() if l.startswith('VIOLATION') or 'BUILD-FAILED' in l or l.startswith('HARNESS')]
    print(m['id'],'exit',r.returncode,'violations',len([x for x in v if x.startswith('VIOLATION')]),'%.0fs'%(time.time()-t),file=log)
    for l in v[:4]: print('    ',l[:300],file=log)
    log.flush()
    open(f,'w').write(s)
print('DONE',file=log,flush=True)

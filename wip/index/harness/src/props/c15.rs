//! C15 — not implemented yet.

use crate::props::PropInfo;
use crate::rt::Ctx;

pub fn info() -> PropInfo {
    PropInfo {
        id: "C15",
        level: "exploration",
        rule: "",
        assumptions: &[],
        exhaustive_subspaces: &[],
        must_observe: &[],
        run,
    }
}

pub fn run(_ctx: &mut Ctx) {}

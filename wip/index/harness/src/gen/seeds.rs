//! Valid "seed" sections for C01's mutation families.  The oracle of C01 is crash / step /
//! limit monitoring only, so seeds may be produced by any means: `gimli::write` for units,
//! line programs, lists and frame tables, and hand assembly (crate::asm) for the sections
//! the writer cannot produce.

use crate::asm::{Asm, Enc};
use crate::mon::entries::Secs;
use crate::rt::Rng;
use gimli::write::{self, Address, AttributeValue, EndianVec, LineString, Sections};
use gimli::{Register, SectionId};

fn collect(sections: &Sections<EndianVec<gimli::RunTimeEndian>>, out: &mut Secs) {
    let _ = sections.for_each(|id, w| -> Result<(), ()> {
        if !w.slice().is_empty() {
            out.set(id, w.slice().to_vec());
        }
        Ok(())
    });
}

/// A small but feature-rich `.debug_info` + friends written by `gimli::write`.
pub fn dwarf_seed(enc: Enc, r: &mut Rng) -> Option<Secs> {
    let encoding = enc.encoding();
    let base: u64 = match enc.addr {
        1 => 0x10,
        2 => 0x100,
        _ => 0x1000,
    };
    let mut dwarf = write::Dwarf::new();
    let mut program = write::LineProgram::new(
        encoding,
        gimli::LineEncoding::default(),
        LineString::String(b"/work/dir".to_vec()),
        None,
        LineString::String(b"main.c".to_vec()),
        None,
    );
    let dir = program.add_directory(LineString::String(b"include".to_vec()));
    let file = program.add_file(LineString::String(b"util.h".to_vec()), dir, None);
    program.begin_sequence(Some(Address::Constant(base)));
    for i in 0..(3 + r.below(6)) {
        program.row().file = file;
        program.row().line = 10 + i * 3;
        program.row().column = i;
        program.row().address_offset = i * 4;
        program.row().is_statement = i % 2 == 0;
        program.generate_row();
    }
    program.end_sequence(0x40);
    let mut unit = write::Unit::new(encoding, program);
    let root = unit.root();
    let producer = dwarf.strings.add(&b"gv seed producer"[..]);
    let lstr = dwarf.line_strings.add(&b"line string"[..]);
    {
        let e = unit.get_mut(root);
        e.set(gimli::DW_AT_name, AttributeValue::String(b"main.c".to_vec()));
        e.set(gimli::DW_AT_producer, AttributeValue::StringRef(producer));
        e.set(gimli::DW_AT_comp_dir, AttributeValue::LineStringRef(lstr));
        e.set(gimli::DW_AT_language, AttributeValue::Language(gimli::DW_LANG_C11));
        e.set(gimli::DW_AT_low_pc, AttributeValue::Address(Address::Constant(base)));
        e.set(gimli::DW_AT_high_pc, AttributeValue::Udata(0x40));
        e.set(gimli::DW_AT_stmt_list, AttributeValue::LineProgramRef);
    }
    let base_type = unit.add(root, gimli::DW_TAG_base_type);
    {
        let e = unit.get_mut(base_type);
        e.set(gimli::DW_AT_name, AttributeValue::String(b"int".to_vec()));
        e.set(gimli::DW_AT_byte_size, AttributeValue::Data1(4));
        e.set(gimli::DW_AT_encoding, AttributeValue::Encoding(gimli::DW_ATE_signed));
    }
    let sub = unit.add(root, gimli::DW_TAG_subprogram);
    let mut fb = write::Expression::new();
    fb.op_reg(Register(7));
    let ranges = unit.ranges.add(write::RangeList(vec![
        write::Range::StartLength { begin: Address::Constant(base), length: 8 },
        write::Range::StartEnd { begin: Address::Constant(base + 0x10), end: Address::Constant(base + 0x18) },
    ]));
    let mut loc_expr = write::Expression::new();
    loc_expr.op_fbreg(-8);
    loc_expr.op_deref();
    loc_expr.op_plus_uconst(3);
    let mut loc_expr2 = write::Expression::new();
    loc_expr2.op_breg(Register(6), 16);
    loc_expr2.op_constu(0x1234);
    loc_expr2.op(gimli::DW_OP_plus);
    loc_expr2.op(gimli::DW_OP_stack_value);
    let locs = unit.locations.add(write::LocationList(vec![
        write::Location::StartLength { begin: Address::Constant(base), length: 4, data: loc_expr.clone() },
        write::Location::StartEnd { begin: Address::Constant(base + 4), end: Address::Constant(base + 12), data: loc_expr2 },
    ]));
    {
        let e = unit.get_mut(sub);
        e.set(gimli::DW_AT_name, AttributeValue::String(b"func".to_vec()));
        e.set(gimli::DW_AT_low_pc, AttributeValue::Address(Address::Constant(base)));
        e.set(gimli::DW_AT_high_pc, AttributeValue::Udata(0x20));
        e.set(gimli::DW_AT_frame_base, AttributeValue::Exprloc(fb));
        e.set(gimli::DW_AT_type, AttributeValue::UnitRef(base_type));
        e.set(gimli::DW_AT_external, AttributeValue::Flag(true));
        e.set(gimli::DW_AT_decl_file, AttributeValue::FileIndex(Some(file)));
        e.set(gimli::DW_AT_decl_line, AttributeValue::Udata(12));
        e.set_sibling(r.bool());
    }
    let param = unit.add(sub, gimli::DW_TAG_formal_parameter);
    {
        let e = unit.get_mut(param);
        e.set(gimli::DW_AT_name, AttributeValue::String(b"x".to_vec()));
        e.set(gimli::DW_AT_type, AttributeValue::UnitRef(base_type));
        e.set(gimli::DW_AT_location, AttributeValue::LocationListRef(locs));
    }
    let block = unit.add(sub, gimli::DW_TAG_lexical_block);
    unit.get_mut(block).set(gimli::DW_AT_ranges, AttributeValue::RangeListRef(ranges));
    let var = unit.add(block, gimli::DW_TAG_variable);
    {
        let mut e2 = write::Expression::new();
        e2.op_addr(Address::Constant(base + 0x30));
        if enc.version >= 4 {
            e2.op_regval_type(Register(1), base_type);
            e2.op_convert(None);
            e2.op(gimli::DW_OP_plus);
        }
        let e = unit.get_mut(var);
        e.set(gimli::DW_AT_name, AttributeValue::String(b"v".to_vec()));
        e.set(gimli::DW_AT_location, AttributeValue::Exprloc(e2));
        e.set(gimli::DW_AT_const_value, AttributeValue::Sdata(-5));
        e.set(gimli::DW_AT_data_bit_offset, AttributeValue::Data2(0x1234));
        e.set(gimli::DW_AT_artificial, AttributeValue::FlagPresent);
        e.set(gimli::DW_AT_byte_size, AttributeValue::Data8(0x0102_0304_0506_0708));
        e.set(gimli::DW_AT_description, AttributeValue::Block(vec![1, 2, 3]));
        e.set(gimli::DW_AT_specification, AttributeValue::UnitRef(param));
    }
    let unit_id = dwarf.units.add(unit);
    // a second, tiny unit referencing the first
    let program2 = write::LineProgram::none();
    let mut unit2 = write::Unit::new(encoding, program2);
    let r2 = unit2.root();
    unit2.get_mut(r2).set(gimli::DW_AT_name, AttributeValue::String(b"second.c".to_vec()));
    let t = unit2.add(r2, gimli::DW_TAG_typedef);
    unit2
        .get_mut(t)
        .set(gimli::DW_AT_type, AttributeValue::DebugInfoRef(write::DebugInfoRef::Entry(unit_id, base_type)));
    dwarf.units.add(unit2);
    let mut sections = Sections::new(EndianVec::new(enc.endian()));
    if dwarf.write(&mut sections).is_err() {
        return None;
    }
    let mut out = Secs::default();
    collect(&sections, &mut out);
    Some(out)
}

/// `.debug_frame` and `.eh_frame` written by `gimli::write`, plus a matching `.eh_frame_hdr`.
pub fn frame_seed(enc: Enc, r: &mut Rng) -> Secs {
    let mut out = Secs::default();
    let base: u64 = match enc.addr {
        1 => 0x10,
        2 => 0x100,
        _ => 0x1000,
    };
    for eh in [false, true] {
        let mut encoding = enc.encoding();
        encoding.version = if eh { 1 } else { *r.pick(&[1u16, 3, 4]) };
        let mut table = write::FrameTable::default();
        let code = 1 + r.below(4) as u32;
        let data = -(1 + r.below(8) as i32);
        let mut cie = write::CommonInformationEntry::new(encoding, code as u8, data as i8, Register(16));
        cie.add_instruction(write::CallFrameInstruction::Cfa(Register(7), 8));
        cie.add_instruction(write::CallFrameInstruction::Offset(Register(16), -8));
        let mut with_lsda = false;
        if eh && r.bool() {
            cie.fde_address_encoding = gimli::DW_EH_PE_udata4;
            cie.lsda_encoding = Some(gimli::DW_EH_PE_udata4);
            with_lsda = true;
        }
        let id = table.add_cie(cie);
        for k in 0..(1 + r.below(3)) {
            let mut fde = write::FrameDescriptionEntry::new(Address::Constant(base + k * 0x20), 0x20);
            if with_lsda {
                fde.lsda = Some(Address::Constant(base + 0x80 + k));
            }
            fde.add_instruction(code, write::CallFrameInstruction::CfaOffset(16));
            fde.add_instruction(2 * code, write::CallFrameInstruction::Offset(Register(6), 2 * data));
            fde.add_instruction(3 * code, write::CallFrameInstruction::RememberState);
            fde.add_instruction(4 * code, write::CallFrameInstruction::CfaRegister(Register(6)));
            fde.add_instruction(5 * code, write::CallFrameInstruction::Restore(Register(16)));
            fde.add_instruction(6 * code, write::CallFrameInstruction::RestoreState);
            fde.add_instruction(7 * code, write::CallFrameInstruction::ArgsSize(8));
            table.add_fde(id, fde);
        }
        if eh {
            let mut w = write::EhFrame::from(EndianVec::new(enc.endian()));
            if table.write_eh_frame(&mut w).is_ok() {
                out.set(SectionId::EhFrame, w.0.slice().to_vec());
            }
        } else {
            let mut w = write::DebugFrame::from(EndianVec::new(enc.endian()));
            if table.write_debug_frame(&mut w).is_ok() {
                out.set(SectionId::DebugFrame, w.0.slice().to_vec());
            }
        }
    }
    // .eh_frame_hdr: version 1, eh_frame_ptr udata4 abs, count udata4, table udata4 datarel
    let mut a = Asm::new(enc.le);
    a.u8(1).u8(0x03).u8(0x03).u8(0x03 | 0x30);
    a.u32(0x1000); // eh_frame_ptr (eh_frame base in entries::bases when set)
    a.u32(2);
    a.u32(0x800).u32(0x1000);
    a.u32(0x900).u32(0x1000 + 0x18);
    out.set(SectionId::EhFrameHdr, a.buf);
    out
}

/// Hand-assembled aranges / pub* / addr / str_offsets / v5 lists / legacy lists / macros /
/// names / cu index.
pub fn misc_seed(enc: Enc, r: &mut Rng) -> Secs {
    let mut out = Secs::default();
    let w = enc.fmt64;
    let asz = enc.addr as usize;
    // aranges
    {
        let mut a = Asm::new(enc.le);
        let m = a.begin_length(w);
        a.u16(2).word(w, 0).u8(enc.addr).u8(0);
        a.pad_to(2 * asz, 0);
        a.uint(asz, 0x10).uint(asz, 0x8);
        a.uint(asz, 0).uint(asz, 0);
        a.uint(asz, 0x40).uint(asz, 0x1);
        a.uint(asz, 0).uint(asz, 0);
        a.end_length(m);
        out.set(SectionId::DebugAranges, a.buf);
    }
    // pubnames / pubtypes
    for id in [SectionId::DebugPubNames, SectionId::DebugPubTypes] {
        let mut a = Asm::new(enc.le);
        for _ in 0..2 {
            let m = a.begin_length(w);
            a.u16(2).word(w, 0).word(w, 0x40);
            a.word(w, 0x0b).cstr(b"main");
            a.word(w, 0x20).cstr(b"x");
            a.word(w, 0);
            a.end_length(m);
        }
        out.set(id, a.buf);
    }
    // addr (v5 header) and str_offsets (v5 header) + str
    {
        let mut a = Asm::new(enc.le);
        let m = a.begin_length(w);
        a.u16(5).u8(enc.addr).u8(0);
        for k in 0..4u64 {
            a.uint(asz, 0x10 + k * 4);
        }
        a.end_length(m);
        out.set(SectionId::DebugAddr, a.buf);
        let mut a = Asm::new(enc.le);
        let m = a.begin_length(w);
        a.u16(5).u16(0);
        a.word(w, 0).word(w, 2).word(w, 5);
        a.end_length(m);
        out.set(SectionId::DebugStrOffsets, a.buf);
        out.set(SectionId::DebugStr, b"a\0bc\0main\0".to_vec());
        out.set(SectionId::DebugLineStr, b"dir\0file.c\0".to_vec());
    }
    // rnglists / loclists v5 with an offset table
    {
        let mut a = Asm::new(enc.le);
        let m = a.begin_length(w);
        a.u16(5).u8(enc.addr).u8(0).u32(2);
        let wsz = if w { 8 } else { 4 };
        let tbl = a.len();
        a.word(w, 2 * wsz as u64).word(w, 2 * wsz as u64 + 8);
        // list 0
        a.u8(gimli::DW_RLE_base_address.0).uint(asz, 0x10);
        a.u8(gimli::DW_RLE_offset_pair.0).uleb(1).uleb(5);
        a.u8(gimli::DW_RLE_end_of_list.0);
        a.pad_to(1, 0);
        // list 1
        a.u8(gimli::DW_RLE_startx_length.0).uleb(1).uleb(4);
        a.u8(gimli::DW_RLE_start_end.0).uint(asz, 0x20).uint(asz, 0x28);
        a.u8(gimli::DW_RLE_start_length.0).uint(asz, 0x30).uleb(2);
        a.u8(gimli::DW_RLE_base_addressx.0).uleb(0);
        a.u8(gimli::DW_RLE_startx_endx.0).uleb(0).uleb(2);
        a.u8(gimli::DW_RLE_end_of_list.0);
        a.end_length(m);
        let _ = tbl;
        out.set(SectionId::DebugRngLists, a.buf);
        let mut a = Asm::new(enc.le);
        let m = a.begin_length(w);
        a.u16(5).u8(enc.addr).u8(0).u32(1);
        a.word(w, wsz as u64);
        a.u8(gimli::DW_LLE_base_address.0).uint(asz, 0x10);
        a.u8(gimli::DW_LLE_offset_pair.0).uleb(1).uleb(5).uleb(2).u8(0x50).u8(0x9f);
        a.u8(gimli::DW_LLE_default_location.0).uleb(1).u8(0x51);
        a.u8(gimli::DW_LLE_startx_length.0).uleb(1).uleb(4).uleb(1).u8(0x52);
        a.u8(gimli::DW_LLE_start_end.0).uint(asz, 0x20).uint(asz, 0x28).uleb(0);
        a.u8(gimli::DW_LLE_end_of_list.0);
        a.end_length(m);
        out.set(SectionId::DebugLocLists, a.buf);
    }
    // legacy ranges / loc
    {
        let mut a = Asm::new(enc.le);
        let ones = enc.addr_mask();
        a.uint(asz, 1).uint(asz, 5);
        a.uint(asz, ones).uint(asz, 0x20);
        a.uint(asz, 2).uint(asz, 9);
        a.uint(asz, 0).uint(asz, 0);
        out.set(SectionId::DebugRanges, a.buf);
        let mut a = Asm::new(enc.le);
        a.uint(asz, 1).uint(asz, 5).u16(2).u8(0x50).u8(0x9f);
        a.uint(asz, ones).uint(asz, 0x20);
        a.uint(asz, 2).uint(asz, 9).u16(1).u8(0x51);
        a.uint(asz, 0).uint(asz, 0);
        out.set(SectionId::DebugLoc, a.buf);
    }
    // macinfo / macro
    {
        let mut a = Asm::new(enc.le);
        a.u8(3).uleb(0).uleb(1);
        a.u8(1).uleb(1).cstr(b"A 1");
        a.u8(2).uleb(2).cstr(b"A");
        a.u8(255).uleb(7).cstr(b"vendor");
        a.u8(4);
        a.u8(0);
        out.set(SectionId::DebugMacinfo, a.buf);
        let mut a = Asm::new(enc.le);
        a.u16(5).u8(if w { 1 } else { 0 } | 2);
        a.word(w, 0);
        a.u8(3).uleb(0).uleb(1);
        a.u8(1).uleb(1).cstr(b"B 2");
        a.u8(5).uleb(2).word(w, 2);
        a.u8(6).uleb(3).word(w, 0);
        a.u8(0x0b).uleb(4).uleb(1);
        a.u8(7).word(w, 0);
        a.u8(4);
        a.u8(0);
        out.set(SectionId::DebugMacro, a.buf);
    }
    // names: 1 CU, 1 local TU, 1 foreign TU, 2 buckets, 3 names
    {
        let mut a = Asm::new(enc.le);
        let m = a.begin_length(w);
        a.u16(5).u16(0);
        a.u32(1).u32(1).u32(1).u32(2).u32(3);
        let abbrev_size_at = a.len();
        a.u32(0);
        a.u32(4).bytes(b"LLVM");
        a.word(w, 0); // CU
        a.word(w, 0x40); // local TU
        a.u64(0x1122_3344_5566_7788); // foreign TU
        a.u32(1).u32(3); // buckets
        a.u32(0x10).u32(0x12).u32(0x11); // hashes (bucket = hash % 2)
        a.word(w, 0).word(w, 2).word(w, 5); // string offsets
        a.word(w, 0).word(w, 4).word(w, 8); // entry offsets
        let ab = a.len();
        a.uleb(1).uleb(gimli::DW_TAG_subprogram.0 as u64);
        a.uleb(gimli::DW_IDX_compile_unit.0 as u64).uleb(gimli::DW_FORM_udata.0 as u64);
        a.uleb(gimli::DW_IDX_die_offset.0 as u64).uleb(gimli::DW_FORM_ref4.0 as u64);
        a.uleb(0).uleb(0);
        a.uleb(0);
        let absz = (a.len() - ab) as u64;
        a.patch_uint(abbrev_size_at, 4, absz);
        // entry pool: three series, each one entry + terminator (6 bytes -> pad offsets 0,4,8 approx)
        a.uleb(1).uleb(0).u32(0x0b).u8(0);
        a.uleb(1).uleb(0).u32(0x20).u8(0);
        a.uleb(1).uleb(0).u32(0x30).u8(0);
        a.end_length(m);
        out.set(SectionId::DebugNames, a.buf);
    }
    // cu index v5 / tu index v2
    {
        let mut a = Asm::new(enc.le);
        a.u16(5).u16(0).u32(2).u32(1).u32(2);
        a.u64(0).u64(0x1234_5678_9abc_def1);
        a.u32(0).u32(1);
        a.u32(1).u32(3); // DW_SECT_INFO, DW_SECT_ABBREV
        a.u32(0).u32(0);
        a.u32(0x20).u32(0x10);
        out.set(SectionId::DebugCuIndex, a.buf);
        let mut a = Asm::new(enc.le);
        a.u32(2).u32(2).u32(1).u32(2);
        a.u64(0x42).u64(0);
        a.u32(1).u32(0);
        a.u32(2).u32(3); // DW_SECT_V2_TYPES, ABBREV
        a.u32(0).u32(0);
        a.u32(0x20).u32(0x10);
        out.set(SectionId::DebugTuIndex, a.buf);
    }
    let _ = r.next();
    out
}

/// Hand-written expression programs covering most operand layouts.
pub fn expr_seeds(enc: Enc) -> Vec<Vec<u8>> {
    let mut v = vec![];
    let asz = enc.addr as usize;
    let wsz = enc.word() as usize;
    {
        let mut a = Asm::new(enc.le);
        a.u8(0x03).uint(asz, 0x10); // addr
        a.u8(0x08).u8(0x80).u8(0x0a).u16(0x8000).u8(0x0c).u32(0x8000_0000).u8(0x0e).u64(1 << 63);
        a.u8(0x10).uleb(300).u8(0x11).sleb(-300);
        a.u8(0x12).u8(0x13).u8(0x14).u8(0x15).u8(2).u8(0x16).u8(0x17);
        a.u8(0x1a).u8(0x1b).u8(0x1c).u8(0x1d).u8(0x1e).u8(0x1f).u8(0x20).u8(0x21).u8(0x22);
        a.u8(0x23).uleb(7).u8(0x24).u8(0x25).u8(0x26).u8(0x27);
        a.u8(0x29).u8(0x2a).u8(0x2b).u8(0x2c).u8(0x2d).u8(0x2e);
        a.u8(0x9f);
        v.push(a.buf);
    }
    {
        let mut a = Asm::new(enc.le);
        a.u8(0x31).u8(0x28).u16(3).u8(0x30).u8(0x2f).u16(1).u8(0x96).u8(0x32); // lit1 bra+3 lit0 skip+1 nop lit2
        a.u8(0x2f).u16(0xfffd_u16); // skip -3 : loops
        v.push(a.buf);
    }
    {
        let mut a = Asm::new(enc.le);
        a.u8(0x50).u8(0x93).uleb(4); // reg0 piece 4
        a.u8(0x90).uleb(33).u8(0x9d).uleb(8).uleb(2); // regx bit_piece
        a.u8(0x9e).uleb(2).u8(1).u8(2).u8(0x93).uleb(2); // implicit_value piece
        a.u8(0x93).uleb(1); // empty piece
        v.push(a.buf);
    }
    {
        let mut a = Asm::new(enc.le);
        a.u8(0x70).sleb(-16).u8(0x06); // breg0 deref
        a.u8(0x91).sleb(8).u8(0x94).u8(2); // fbreg deref_size
        a.u8(0x92).uleb(40).sleb(-1); // bregx
        a.u8(0x9c).u8(0x97).u8(0x9b); // call_frame_cfa push_object_address form_tls_address
        a.u8(0x18).u8(0x95).u8(1); // xderef xderef_size
        a.u8(0xa1).uleb(1).u8(0xa2).uleb(2); // addrx constx
        a.u8(0x98).u16(0x20).u8(0x99).u32(0x30).u8(0x9a).uint(wsz, 0x40); // call2 call4 call_ref
        v.push(a.buf);
    }
    {
        let mut a = Asm::new(enc.le);
        a.u8(0xa4).uleb(0x20).u8(4).u32(7); // const_type
        a.u8(0xa5).uleb(1).uleb(0x20); // regval_type
        a.u8(0xa6).u8(4).uleb(0x20); // deref_type
        a.u8(0xa8).uleb(0x20).u8(0xa9).uleb(0); // convert reinterpret
        a.u8(0xa3).uleb(1).u8(0x50); // entry_value { reg0 }
        a.u8(0xa0).uint(if enc.version == 2 { asz } else { wsz }, 0x20).sleb(4); // implicit_pointer
        a.u8(0xf3).uleb(1).u8(0x51).u8(0xfa).u32(0x20).u8(0xfd).uint(wsz, 0x20); // GNU entry_value, parameter_ref, variable_value
        a.u8(0xed).u8(0).uleb(3).u8(0xed).u8(3).u32(9); // wasm local / global u32
        a.u8(0xe0).u8(0xf0).u8(0xff); // GNU push_tls, uninit, unknown
        v.push(a.buf);
    }
    v
}

/// Pathological shapes (large or deep inputs).  `which` selects one; `None` beyond the end.
pub fn pathological(which: usize, enc: Enc) -> Option<(&'static str, Secs)> {
    let mut s = Secs::default();
    let big = 100 * 1024;
    let name: &'static str;
    match which {
        0 | 1 | 2 => {
            let fill = [0x00u8, 0x80, 0xff][which];
            name = ["zeros", "x80", "xff"][which];
            for id in [
                SectionId::DebugInfo,
                SectionId::DebugAbbrev,
                SectionId::DebugLine,
                SectionId::DebugAranges,
                SectionId::DebugFrame,
                SectionId::EhFrame,
                SectionId::EhFrameHdr,
                SectionId::DebugRanges,
                SectionId::DebugRngLists,
                SectionId::DebugLoc,
                SectionId::DebugLocLists,
                SectionId::DebugNames,
                SectionId::DebugPubNames,
                SectionId::DebugPubTypes,
                SectionId::DebugAddr,
                SectionId::DebugStrOffsets,
                SectionId::DebugMacinfo,
                SectionId::DebugMacro,
                SectionId::DebugCuIndex,
                SectionId::DebugTuIndex,
                SectionId::DebugTypes,
                SectionId::DebugStr,
            ] {
                s.set(id, vec![fill; big]);
            }
            s.expr = vec![fill; big];
        }
        3 => {
            // DIE chain 50 000 deep
            name = "deep_die_chain";
            let n = 50_000;
            let mut ab = Asm::new(enc.le);
            ab.uleb(1).uleb(gimli::DW_TAG_lexical_block.0 as u64).u8(1).uleb(0).uleb(0).uleb(0);
            s.set(SectionId::DebugAbbrev, ab.buf);
            let mut a = Asm::new(enc.le);
            let m = a.begin_length(enc.fmt64);
            a.u16(enc.version);
            if enc.version >= 5 {
                a.u8(1).u8(enc.addr).word(enc.fmt64, 0);
            } else {
                a.word(enc.fmt64, 0).u8(enc.addr);
            }
            for _ in 0..n {
                a.u8(1);
            }
            for _ in 0..n {
                a.u8(0);
            }
            a.end_length(m);
            s.set(SectionId::DebugInfo, a.buf);
        }
        4 => {
            // deeply nested DW_OP_entry_value inside an exprloc attribute, and as a raw expression
            name = "nested_entry_value";
            let n = 20_000usize;
            let mut inner: Vec<u8> = vec![0x50];
            for _ in 0..n {
                let mut a = Asm::new(enc.le);
                a.u8(0xa3).uleb(inner.len() as u64).bytes(&inner);
                inner = a.buf;
                if inner.len() > 120_000 {
                    break;
                }
            }
            s.expr = inner.clone();
            let mut ab = Asm::new(enc.le);
            ab.uleb(1).uleb(gimli::DW_TAG_compile_unit.0 as u64).u8(0);
            ab.uleb(gimli::DW_AT_location.0 as u64).uleb(gimli::DW_FORM_exprloc.0 as u64).uleb(0).uleb(0).uleb(0);
            s.set(SectionId::DebugAbbrev, ab.buf);
            let mut a = Asm::new(enc.le);
            let m = a.begin_length(enc.fmt64);
            let v = enc.version.max(4);
            a.u16(v);
            if v >= 5 {
                a.u8(1).u8(enc.addr).word(enc.fmt64, 0);
            } else {
                a.word(enc.fmt64, 0).u8(enc.addr);
            }
            a.u8(1).uleb(inner.len() as u64).bytes(&inner);
            a.end_length(m);
            s.set(SectionId::DebugInfo, a.buf);
        }
        5 => {
            // 10^5 zero aranges tuples
            name = "aranges_zero_tuples";
            let asz = enc.addr as usize;
            let mut a = Asm::new(enc.le);
            let m = a.begin_length(enc.fmt64);
            a.u16(2).word(enc.fmt64, 0).u8(enc.addr).u8(0);
            a.pad_to(2 * asz, 0);
            for _ in 0..100_000 {
                a.uint(asz, 0).uint(asz, 0);
            }
            a.uint(asz, 0x10).uint(asz, 4);
            a.end_length(m);
            s.set(SectionId::DebugAranges, a.buf);
        }
        6 => {
            // 10^5 zero-length .debug_frame entries, and an .eh_frame_hdr with an absurd count
            name = "frame_zero_entries";
            s.set(SectionId::DebugFrame, vec![0u8; 400_000]);
            let mut a = Asm::new(enc.le);
            a.u8(1).u8(0x03).u8(0x04).u8(0x03);
            a.u32(0x1000).u64(1 << 63);
            a.u32(0x800).u32(0x1000).u32(0x900).u32(0x1018);
            s.set(SectionId::EhFrameHdr, a.buf);
            s.set(SectionId::EhFrame, vec![0u8; 64]);
        }
        7 => {
            // wide sibling list: 60 000 leaf entries
            name = "wide_die_list";
            let mut ab = Asm::new(enc.le);
            ab.uleb(1).uleb(gimli::DW_TAG_compile_unit.0 as u64).u8(1).uleb(0).uleb(0);
            ab.uleb(2).uleb(gimli::DW_TAG_variable.0 as u64).u8(0).uleb(0).uleb(0).uleb(0);
            s.set(SectionId::DebugAbbrev, ab.buf);
            let mut a = Asm::new(enc.le);
            let m = a.begin_length(enc.fmt64);
            a.u16(enc.version);
            if enc.version >= 5 {
                a.u8(1).u8(enc.addr).word(enc.fmt64, 0);
            } else {
                a.word(enc.fmt64, 0).u8(enc.addr);
            }
            a.u8(1);
            for _ in 0..60_000 {
                a.u8(2);
            }
            a.u8(0);
            a.end_length(m);
            s.set(SectionId::DebugInfo, a.buf);
        }
        8 => {
            // macro list without terminator; huge line program of special opcodes
            name = "macro_unterminated_and_long_line";
            let mut a = Asm::new(enc.le);
            for k in 0..2000u64 {
                a.u8(1).uleb(k).cstr(b"M 1");
            }
            s.set(SectionId::DebugMacinfo, a.buf);
            let mut a = Asm::new(enc.le);
            let m = a.begin_length(enc.fmt64);
            a.u16(4);
            let hl = a.len();
            a.word(enc.fmt64, 0);
            let hstart = a.len();
            a.u8(1).u8(1).u8(1).u8(0xfb).u8(14).u8(13);
            for l in [0u8, 1, 1, 1, 1, 0, 0, 0, 1, 0, 0, 1] {
                a.u8(l);
            }
            a.u8(0);
            a.cstr(b"f.c").uleb(0).uleb(0).uleb(0);
            a.u8(0);
            let hlen = (a.len() - hstart) as u64;
            a.patch_uint(hl, if enc.fmt64 { 8 } else { 4 }, hlen);
            for k in 0..60_000u32 {
                a.u8(13 + (k % 200) as u8);
            }
            a.u8(0).uleb(1).u8(1);
            a.end_length(m);
            s.set(SectionId::DebugLine, a.buf);
        }
        _ => return None,
    }
    Some((name, s))
}

//! Structure-agnostic and field-map-driven mutations of valid sections.
//!
//! Mutation index space for a byte string of length L (all deterministic):
//!   [0, L]                      truncation to k bytes (k = L is the identity)
//!   then 5 * L                  single byte substitution over {0, 1, 0x7f, 0x80, 0xff}
//!   then PATTERNS * L           in-place injection of an extreme integer / LEB128 at an offset

use crate::asm::{sleb_bytes, uleb_bytes, Field, FieldKind};
use crate::rt::Rng;

pub const SUBST: [u8; 5] = [0, 1, 0x7f, 0x80, 0xff];

pub fn patterns() -> Vec<Vec<u8>> {
    let mut v: Vec<Vec<u8>> = vec![];
    for x in [0xffffu16, 0x8000, 0xfff0] {
        v.push(x.to_le_bytes().to_vec());
        v.push(x.to_be_bytes().to_vec());
    }
    for x in [0xffff_ffffu32, 0x8000_0000, 0xffff_fff0, 0x7fff_ffff] {
        v.push(x.to_le_bytes().to_vec());
        v.push(x.to_be_bytes().to_vec());
    }
    for x in [1u64 << 61, 1 << 63, u64::MAX, 0x7fff_ffff_ffff_ffff, u64::MAX - 1] {
        v.push(x.to_le_bytes().to_vec());
        v.push(x.to_be_bytes().to_vec());
    }
    for x in [1u64 << 61, 1 << 63, u64::MAX, 0xffff_ffff, 1 << 32] {
        v.push(uleb_bytes(x));
    }
    v.push(sleb_bytes(i64::MIN));
    v.push(sleb_bytes(i64::MAX));
    v.push(sleb_bytes(-1));
    v.push(vec![0x80, 0x80, 0x80, 0x80, 0x80, 0x80, 0x80, 0x80, 0x80, 0x01]);
    v.push(vec![0xff; 12]);
    v
}

pub fn count(len: usize) -> u64 {
    let l = len as u64;
    (l + 1) + 5 * l + patterns().len() as u64 * l
}

/// The k-th mutation of `b` (k < count(b.len())).
pub fn nth(b: &[u8], k: u64) -> (Vec<u8>, String) {
    let l = b.len() as u64;
    if k <= l {
        return (b[..k as usize].to_vec(), format!("truncate@{k}"));
    }
    let k = k - (l + 1);
    if k < 5 * l {
        let off = (k / 5) as usize;
        let v = SUBST[(k % 5) as usize];
        let mut o = b.to_vec();
        o[off] = v;
        return (o, format!("byte@{off}={v:#x}"));
    }
    let k = k - 5 * l;
    let pats = patterns();
    let off = (k / pats.len() as u64) as usize;
    let p = &pats[(k % pats.len() as u64) as usize];
    let mut o = b.to_vec();
    for (i, x) in p.iter().enumerate() {
        if off + i < o.len() {
            o[off + i] = *x;
        }
    }
    (o, format!("inject@{off}:{}", crate::rt::hex(p)))
}

/// Splice: prefix of `a` up to a random point followed by a suffix of `b`.
pub fn splice(a: &[u8], b: &[u8], r: &mut Rng) -> Vec<u8> {
    let i = r.usize(a.len() + 1);
    let j = r.usize(b.len() + 1);
    let mut o = a[..i].to_vec();
    o.extend_from_slice(&b[j..]);
    o
}

/// Field-map-driven mutations: every field replaced by each hostile value of its kind,
/// and truncation at every field boundary +-1.
pub fn field_mutations(b: &[u8], fields: &[Field], le: bool) -> Vec<(Vec<u8>, String)> {
    let mut out = vec![];
    for f in fields {
        if f.off + f.len > b.len() {
            continue;
        }
        match f.kind {
            FieldKind::Uleb | FieldKind::Sleb => {
                for leb in crate::asm::hostile_lebs() {
                    let mut o = b[..f.off].to_vec();
                    o.extend_from_slice(&leb);
                    o.extend_from_slice(&b[f.off + f.len..]);
                    out.push((o, format!("field {}@{} := leb {}", f.name, f.off, crate::rt::hex(&leb))));
                }
            }
            FieldKind::Str | FieldKind::Data => {}
            _ => {
                if f.len <= 8 && f.len > 0 {
                    for v in crate::asm::hostile_values(f.kind, f.len) {
                        let mut o = b.to_vec();
                        let bytes = v.to_le_bytes();
                        for i in 0..f.len {
                            o[f.off + i] = if le { bytes[i] } else { bytes[f.len - 1 - i] };
                        }
                        out.push((o, format!("field {}@{} := {v:#x}", f.name, f.off)));
                    }
                }
            }
        }
        for cut in [f.off.saturating_sub(1), f.off, f.off + 1, f.off + f.len] {
            if cut <= b.len() {
                out.push((b[..cut].to_vec(), format!("truncate at field {}@{}", f.name, cut)));
            }
        }
    }
    out
}

fn looks_like_leb(b: &[u8]) -> bool {
    !b.is_empty() && b.len() <= 10 && b[..b.len() - 1].iter().all(|x| x & 0x80 != 0) && b[b.len() - 1] & 0x80 == 0
}

/// Superset of `field_mutations` used by C01's structure-aware family:
/// * `Data` fields of at most 8 bytes also receive the fixed-width hostile values;
/// * fields of kind Length / Count / Index / Form / Other / Offset whose bytes form exactly one
///   LEB128 number additionally receive the hostile LEB128 strings (the field map does not say
///   whether such a field is fixed-width or LEB128-encoded);
/// * `Str` fields: emptied, cut to one byte, NUL in the middle, and terminator removed
///   (first following 0x00 replaced by 'A');
/// * any field of 2..=64 bytes: deleted, duplicated.
pub fn field_mutations_ext(b: &[u8], fields: &[Field], le: bool) -> Vec<(Vec<u8>, String)> {
    let mut out = field_mutations(b, fields, le);
    let splice3 = |pre: usize, mid: &[u8], post: usize| -> Vec<u8> {
        let mut o = b[..pre].to_vec();
        o.extend_from_slice(mid);
        o.extend_from_slice(&b[post..]);
        o
    };
    for f in fields {
        let end = f.off + f.len;
        if end > b.len() || f.len == 0 {
            continue;
        }
        let cur = &b[f.off..end];
        match f.kind {
            FieldKind::Data if f.len <= 8 => {
                for v in crate::asm::hostile_values(f.kind, f.len) {
                    let mut o = b.to_vec();
                    let bytes = v.to_le_bytes();
                    for i in 0..f.len {
                        o[f.off + i] = if le { bytes[i] } else { bytes[f.len - 1 - i] };
                    }
                    out.push((o, format!("field {}@{} := {v:#x}", f.name, f.off)));
                }
            }
            FieldKind::Length | FieldKind::Count | FieldKind::Index | FieldKind::Form | FieldKind::Other | FieldKind::Offset if looks_like_leb(cur) => {
                for leb in crate::asm::hostile_lebs() {
                    out.push((splice3(f.off, &leb, end), format!("field {}@{} := leb {}", f.name, f.off, crate::rt::hex(&leb))));
                }
            }
            FieldKind::Str => {
                out.push((splice3(f.off, &[], end), format!("string {}@{} emptied", f.name, f.off)));
                if f.len > 1 {
                    out.push((splice3(f.off, &cur[..1], end), format!("string {}@{} cut to 1 byte", f.name, f.off)));
                    let mut o = b.to_vec();
                    o[f.off + f.len / 2] = 0;
                    out.push((o, format!("string {}@{} NUL in the middle", f.name, f.off)));
                }
                if let Some(p) = b[f.off..].iter().position(|x| *x == 0) {
                    let mut o = b.to_vec();
                    o[f.off + p] = b'A';
                    out.push((o, format!("string {}@{} terminator removed", f.name, f.off)));
                }
            }
            _ => {}
        }
        if (2..=64).contains(&f.len) {
            out.push((splice3(f.off, &[], end), format!("field {}@{} deleted", f.name, f.off)));
            let mut twice = cur.to_vec();
            twice.extend_from_slice(cur);
            out.push((splice3(f.off, &twice, end), format!("field {}@{} duplicated", f.name, f.off)));
        }
    }
    out
}

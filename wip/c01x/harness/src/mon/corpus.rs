//! (stub)

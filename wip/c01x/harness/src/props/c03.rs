//! C03 — every attribute form decodes to its DWARF value; skipping equals reading.
//!
//! Oracle: `model::forms` (form table written from DWARF 2-5 section 7.5 + GNU forms) and the
//! assembler's record of what `gen::info` encoded (offset and length of every attribute).
//!
//! For every attribute of every generated DIE the check compares
//! * `EntriesRaw::read_attribute`: start offset, bytes consumed, `raw_value()` class + payload;
//! * `AttributeSpecification::size()`: when `Some(n)`, n == bytes consumed;
//! * `value()`: payload equal to the raw payload (variant only as a secondary observation);
//! * `udata_value / sdata_value / u8_value / u16_value / offset_value / exprloc_value` on both
//!   `Attribute` and `AttributeValue` against the model's reading of the constant;
//! * `skip_attributes` over the whole list and over every sub-range [i, j) of the list:
//!   lands exactly where reading lands;
//! * `UnitHeader::entry` / `read_entry` report the same attributes.
//! The line-table variant (`read/line.rs parse_attribute`) is driven through version 5
//! directory / file entry formats.

use crate::asm::{Asm, Enc};
use crate::gen::info::{
    boundary_vals, random_val, simple_unit, AbbrevDecl, AbbrevTable, AttrDecl, AttrModel, AttrVal, Built, InfoCfg, Item, ItemModel, Sec,
    UnitCfg, UnitKind, UnitModel, Val,
};
use crate::model::forms::{self, Class, Expect, MVal, OVal, Pay, Reject};
use crate::props::PropInfo;
use crate::rt::{hex, Ctx, Rng};
use gimli::{EndianSlice, RunTimeEndian, UnitOffset};
use serde_json::{json, Value};

type Rd<'a> = EndianSlice<'a, RunTimeEndian>;

pub fn info() -> PropInfo {
    PropInfo {
        id: "C03",
        level: "exploration",
        rule: "Units are assembled by gen::info (independent byte assembler + model). Exhaustive catalogues: (single) every form x all 64 encodings {le,be}x{32,64}x{v2..5}x{addr 1,2,4,8} x the form's boundary payload set (0,1,max,sign boundaries, byte-order pattern, canonical and padded 1/2/3/9/10-byte LEB128, blocks/strings of 0,1,127,128,255,256,65535,65536,70000 bytes), alone and between two fixed-size neighbours; (indirect) every final form (incl. implicit_const, which must be rejected, and undefined codes) behind 1..3 nested DW_FORM_indirect x 64 encodings, canonical and padded form codes; (pair) every ordered pair of forms as one abbreviation's attribute list x 64 encodings; (names) every attribute name with a normalisation rule + 55 without x one form per value class (29) x 4 payloads x 16 encodings {le,be}x{32,64}x{v2..5}; (linefmt) every form as a v5 directory/file entry format per content type. Seeded random: triples and attribute lists of length 0..12 over several DIEs and units. A case is non-trivial when at least one attribute with at least one encoded byte (or an implicit constant) is decoded; distinct = digest of (.debug_abbrev, .debug_info/.debug_types) bytes. The dbg profile runs a seed-rotated 1/8 slice of pair/names and 1/4 of single/indirect.",
        assumptions: &[
            "every form is decoded by its own definition in every unit version (a DWARF 5 form inside a version 2 unit is not an error); the version only matters for DW_FORM_ref_addr and the legacy data4/data8 section-offset rule",
            "legacy section-offset names are those of DESIGN.md Appendix A.2 (location, stmt_list, string_length, return_addr, start_scope, frame_base, macro_info, macros, segment, static_link, use_location, vtable_elem_location, ranges; data_member_location for versions 2-3)",
            "udata_value of a negative Sdata and sdata_value of a Udata above i64::MAX must be None (a number that does not fit cannot be converted without changing it)",
            "the variant chosen by value() (e.g. Udata vs FileIndex) and the error variant for rejected input are secondary observations; only the payload / the fact of rejection is judged",
            "undefined form codes are only required not to panic (rejection is a secondary observation)",
            "usize is 64 bits on this host",
        ],
        exhaustive_subspaces: &[
            "form x 64 encodings x boundary payload set (single)",
            "final form x indirect depth 1..3 x 64 encodings (indirect)",
            "ordered pairs of forms x 64 encodings (pair; rel profile)",
            "attribute name x value class x 16 encodings (names; rel profile)",
            "line-table content type x form x 16 encodings (linefmt)",
        ],
        must_observe: MUST,
        run,
    }
}

const MUST: &[&str] = &[
    "form.DW_FORM_addr", "form.DW_FORM_block2", "form.DW_FORM_block4", "form.DW_FORM_data2", "form.DW_FORM_data4", "form.DW_FORM_data8",
    "form.DW_FORM_string", "form.DW_FORM_block", "form.DW_FORM_block1", "form.DW_FORM_data1", "form.DW_FORM_flag", "form.DW_FORM_sdata",
    "form.DW_FORM_strp", "form.DW_FORM_udata", "form.DW_FORM_ref_addr", "form.DW_FORM_ref1", "form.DW_FORM_ref2", "form.DW_FORM_ref4",
    "form.DW_FORM_ref8", "form.DW_FORM_ref_udata", "form.DW_FORM_sec_offset", "form.DW_FORM_exprloc",
    "form.DW_FORM_flag_present", "form.DW_FORM_strx", "form.DW_FORM_addrx", "form.DW_FORM_ref_sup4", "form.DW_FORM_strp_sup",
    "form.DW_FORM_data16", "form.DW_FORM_line_strp", "form.DW_FORM_ref_sig8", "form.DW_FORM_implicit_const", "form.DW_FORM_loclistx",
    "form.DW_FORM_rnglistx", "form.DW_FORM_ref_sup8", "form.DW_FORM_strx1", "form.DW_FORM_strx2", "form.DW_FORM_strx3", "form.DW_FORM_strx4",
    "form.DW_FORM_addrx1", "form.DW_FORM_addrx2", "form.DW_FORM_addrx3", "form.DW_FORM_addrx4", "form.DW_FORM_GNU_addr_index",
    "form.DW_FORM_GNU_str_index", "form.DW_FORM_GNU_ref_alt", "form.DW_FORM_GNU_strp_alt",
    "indirect.depth1", "indirect.depth2", "indirect.depth3", "indirect.implicit_const.rejected", "indirect.padded_form_code",
    "legacy.data4.secoffset", "legacy.data8.secoffset", "legacy.data4.plain", "legacy.data8.plain", "legacy.data_member_location.v3.secoffset",
    "legacy.data_member_location.v4.data", "ref_addr.v2.address_sized", "ref_addr.v3plus.word_sized",
    "size.some", "size.none", "skip.all", "skip.subrange", "skip.crosses_fixed_variable", "value.normalised", "value.unchanged",
    "accessor.sdata.negative", "accessor.udata.none_for_negative", "leb.padded", "block.70000", "string.70000",
    "enc.le/32/v2/a1", "enc.be/64/v5/a8", "enc.le/64/v2/a2", "enc.be/32/v3/a4",
    "linefmt.path", "linefmt.directory_index", "linefmt.timestamp", "linefmt.size", "linefmt.md5", "linefmt.source", "linefmt.unsupported_form",
];

// ------------------------------------------------------------------ observation (gimli side)

#[derive(Debug, Clone)]
pub struct AttrOk {
    pub name: u16,
    pub form: u16,
    pub raw: OVal,
    pub val: OVal,
    pub udata: Option<u64>,
    pub sdata: Option<i64>,
    pub u8v: Option<u8>,
    pub u16v: Option<u16>,
    pub offset: Option<u64>,
    pub exprloc: Option<Vec<u8>>,
    /// the same accessors through `AttributeValue` agree with those through `Attribute`
    pub av_accessors_agree: bool,
}

#[derive(Debug, Clone)]
pub struct AttrObs {
    pub before: u64,
    pub after: u64,
    pub res: Result<AttrOk, String>,
    pub size: Option<usize>,
    pub spec_name: u16,
    pub spec_form: u16,
    pub spec_implicit: Option<i64>,
}

#[derive(Debug, Clone)]
pub struct DieObs {
    pub abbrev: Result<Option<u64>, String>,
    pub attrs: Vec<AttrObs>,
    pub skip_all: Result<u64, String>,
    /// (i, j, end offset after skipping specs[i..j] from the model offset of attribute i)
    pub subskips: Vec<(usize, usize, Result<u64, String>)>,
    /// attributes as reported by `UnitHeader::entry` (raw values) or the error
    pub entry: Result<Vec<(u16, u16, OVal)>, String>,
    /// `attr_value_raw(name)` / `attr_value(name)` equal the first attribute of that name
    pub lookup_ok: bool,
}

impl Default for AttrObs {
    fn default() -> Self {
        AttrObs { before: 0, after: 0, res: Err(String::new()), size: None, spec_name: 0, spec_form: 0, spec_implicit: None }
    }
}

#[derive(Debug, Clone)]
pub struct UnitObs {
    pub header: Result<(), String>,
    pub dies: Vec<Option<DieObs>>,
}

fn e2s<T>(r: gimli::Result<T>) -> Result<T, String> {
    r.map_err(|e| format!("{e:?}"))
}

/// Parse the headers of a built case in model order.
pub fn headers<'a>(b: &'a Built) -> Result<Vec<gimli::UnitHeader<Rd<'a>>>, String> {
    let endian = if b.le { RunTimeEndian::Little } else { RunTimeEndian::Big };
    let di = gimli::DebugInfo::new(&b.debug_info, endian);
    let dt = gimli::DebugTypes::new(&b.debug_types, endian);
    let mut hi = vec![];
    let mut it = di.units();
    while let Some(h) = e2s(it.next())? {
        hi.push(h);
    }
    let mut ht = vec![];
    let mut it = dt.units();
    while let Some(h) = e2s(it.next())? {
        ht.push(h);
    }
    let (mut i, mut t) = (0, 0);
    let mut out = vec![];
    for u in &b.units {
        let h = match u.sec {
            Sec::Info => {
                i += 1;
                hi.get(i - 1)
            }
            Sec::Types => {
                t += 1;
                ht.get(t - 1)
            }
        };
        match h {
            Some(h) => out.push(*h),
            None => return Err("fewer unit headers than encoded".into()),
        }
    }
    if i != hi.len() || t != ht.len() {
        return Err("more unit headers than encoded".into());
    }
    Ok(out)
}

fn observe_attr(attr: &gimli::Attribute<Rd<'_>>) -> AttrOk {
    let raw_av = attr.raw_value();
    let val_av = attr.value();
    let udata = attr.udata_value();
    let sdata = attr.sdata_value();
    let u8v = attr.u8_value();
    let u16v = attr.u16_value();
    let offset = attr.offset_value().map(|o| o as u64);
    let exprloc = attr.exprloc_value().map(|e| e.0.slice().to_vec());
    let agree = raw_av.udata_value() == udata
        && raw_av.sdata_value() == sdata
        && raw_av.u8_value() == u8v
        && raw_av.u16_value() == u16v
        && raw_av.offset_value().map(|o| o as u64) == offset
        && raw_av.exprloc_value().map(|e| e.0.slice().to_vec()) == exprloc;
    AttrOk {
        name: attr.name().0,
        form: attr.form().0,
        raw: forms::observe(&raw_av),
        val: forms::observe(&val_av),
        udata,
        sdata,
        u8v,
        u16v,
        offset,
        exprloc,
        av_accessors_agree: agree,
    }
}

/// Run gimli over every DIE of every unit of `b` (all calls happen here; owned results).
pub fn observe_case(b: &Built, subskips: bool) -> Vec<UnitObs> {
    let endian = if b.le { RunTimeEndian::Little } else { RunTimeEndian::Big };
    let da = gimli::DebugAbbrev::new(&b.debug_abbrev, endian);
    let hs = match headers(b) {
        Ok(h) => h,
        Err(e) => return vec![UnitObs { header: Err(e), dies: vec![] }],
    };
    let mut out = vec![];
    for (um, h) in b.units.iter().zip(hs.iter()) {
        let mut uo = UnitObs { header: Ok(()), dies: vec![] };
        let abbrevs = match e2s(h.abbreviations(&da)) {
            Ok(a) => a,
            Err(e) => {
                uo.header = Err(format!("abbreviations: {e}"));
                out.push(uo);
                continue;
            }
        };
        for im in &um.items {
            if im.null {
                uo.dies.push(None);
                continue;
            }
            let mut d = DieObs { abbrev: Ok(None), attrs: vec![], skip_all: Err("not run".into()), subskips: vec![], entry: Err("not run".into()), lookup_ok: false };
            let off = UnitOffset(im.offset as usize);
            // ---- read attribute by attribute
            let mut specs: Vec<gimli::AttributeSpecification> = vec![];
            match e2s(h.entries_raw(&abbrevs, Some(off))) {
                Err(e) => d.abbrev = Err(e),
                Ok(mut raw) => match e2s(raw.read_abbreviation()) {
                    Err(e) => d.abbrev = Err(e),
                    Ok(None) => d.abbrev = Ok(None),
                    Ok(Some(ab)) => {
                        d.abbrev = Ok(Some(ab.code()));
                        specs = ab.attributes().to_vec();
                        for spec in &specs {
                            let before = raw.next_offset().0 as u64;
                            let r = raw.read_attribute(*spec);
                            let after = raw.next_offset().0 as u64;
                            let failed = r.is_err();
                            d.attrs.push(AttrObs {
                                before,
                                after,
                                res: e2s(r).map(|a| observe_attr(&a)),
                                size: spec.size(h),
                                spec_name: spec.name().0,
                                spec_form: spec.form().0,
                                spec_implicit: spec.implicit_const_value(),
                            });
                            if failed {
                                break;
                            }
                        }
                    }
                },
            }
            // ---- skip the whole list
            if let Ok(mut raw) = h.entries_raw(&abbrevs, Some(off)) {
                d.skip_all = match e2s(raw.read_abbreviation()) {
                    Ok(Some(ab)) => e2s(raw.skip_attributes(ab.attributes())).map(|_| raw.next_offset().0 as u64),
                    Ok(None) => Err("null".into()),
                    Err(e) => Err(e),
                };
            }
            // ---- skip every sub-range [i, j) starting at the encoded offset of attribute i
            if subskips && !specs.is_empty() && specs.len() == im.attrs.len() {
                let n = specs.len();
                for i in 0..n {
                    // attributes after a rejected one have no defined position
                    if im.attrs[..i].iter().any(|a| matches!(a.expect, Expect::Reject(_))) {
                        break;
                    }
                    let start = UnitOffset(im.attrs[i].offset as usize);
                    for j in (i + 1)..=n {
                        if i == 0 && j == n {
                            continue;
                        }
                        if im.attrs[i..j].iter().any(|a| matches!(a.expect, Expect::Reject(_))) {
                            break;
                        }
                        let r = match h.range_from(start..) {
                            Ok(input) => {
                                let mut raw = gimli::EntriesRaw::new(input, h.encoding(), &abbrevs, start);
                                e2s(raw.skip_attributes(&specs[i..j])).map(|_| raw.next_offset().0 as u64)
                            }
                            // an attribute list that ends exactly at the end of the unit with
                            // zero-sized forms starts "out of bounds": nothing to skip
                            Err(e) => Err(format!("range_from: {e:?}")),
                        };
                        d.subskips.push((i, j, r));
                    }
                }
            }
            // ---- whole-entry read
            match e2s(h.entry(&abbrevs, off)) {
                Err(e) => d.entry = Err(e),
                Ok(entry) => {
                    let mut ok = true;
                    for a in entry.attrs() {
                        let first = entry.attrs().iter().find(|x| x.name() == a.name()).unwrap();
                        ok &= entry.attr_value_raw(a.name()).map(|v| forms::observe(&v)) == Some(forms::observe(&first.raw_value()));
                        ok &= entry.attr_value(a.name()).map(|v| forms::observe(&v)) == Some(forms::observe(&first.value()));
                        ok &= entry.attr(a.name()).map(|x| x == first).unwrap_or(false);
                        ok &= entry.has_attr(a.name());
                    }
                    ok &= entry.attr(gimli::DwAt(0x3ffe)).is_none() && !entry.has_attr(gimli::DwAt(0x3ffe));
                    d.lookup_ok = ok;
                    d.entry = Ok(entry.attrs().iter().map(|a| (a.name().0, a.form().0, forms::observe(&a.raw_value()))).collect());
                }
            }
            uo.dies.push(Some(d));
        }
        out.push(uo);
    }
    out
}

// ------------------------------------------------------------------ oracle

/// Equality of payloads across classes (an unsigned and a signed rendering of the same
/// mathematical integer are equal).
fn pay_eq(a: &Pay, b: &Pay) -> bool {
    a == b
}

fn input_json(b: &Built, tag: &str) -> Value {
    json!({
        "what": tag,
        "le": b.le,
        "units": b.units.iter().map(|u| json!({"enc": u.enc.label(), "kind": format!("{:?}", u.kind), "sec": format!("{:?}", u.sec), "offset": u.offset})).collect::<Vec<_>>(),
        "debug_abbrev": hex(&b.debug_abbrev),
        "debug_info": hex(&b.debug_info),
        "debug_types": hex(&b.debug_types),
    })
}

fn attr_desc(um: &UnitModel, am: &AttrModel) -> String {
    format!(
        "{} name=0x{:x} declared={} final={} at unit+0x{:x} len {}",
        um.enc.label(),
        am.name,
        forms::form_name(am.form),
        forms::form_name(am.final_form),
        am.offset,
        am.len
    )
}

/// Judge one case.  Returns the number of attributes decoded non-trivially.
pub fn judge(ctx: &mut Ctx, b: &Built, obs: &[UnitObs], tag: &str) -> u64 {
    let input = || input_json(b, tag);
    let mut nontrivial = 0u64;
    if obs.len() != b.units.len() {
        let e = obs.first().and_then(|u| u.header.clone().err()).unwrap_or_default();
        ctx.fail("units.parse", &format!("unit headers could not be parsed: {e}"), &input);
        return 0;
    }
    for (um, uo) in b.units.iter().zip(obs.iter()) {
        if let Err(e) = &uo.header {
            ctx.fail("unit.abbreviations", &format!("well-formed abbreviations rejected: {e}"), &input);
            continue;
        }
        ctx.obs(&format!("enc.{}", um.enc.label()));
        for (im, d) in um.items.iter().zip(uo.dies.iter()) {
            let Some(d) = d else { continue };
            if im.null {
                continue;
            }
            match &d.abbrev {
                Ok(Some(code)) => {
                    ctx.check_eq("read_abbreviation.code", &im.code, code, &input);
                }
                other => {
                    ctx.fail("read_abbreviation", &format!("entry at unit+0x{:x} not readable: {:?}", im.offset, other), &input);
                    continue;
                }
            }
            let rejected_at = im.attrs.iter().position(|a| matches!(a.expect, Expect::Reject(_)));
            for (k, am) in im.attrs.iter().enumerate() {
                if let Some(r) = rejected_at {
                    if k > r {
                        break;
                    }
                }
                let Some(ao) = d.attrs.get(k) else {
                    ctx.fail("read_attribute.missing", &format!("attribute {k} not read: {}", attr_desc(um, am)), &input);
                    break;
                };
                let fname = forms::form_name(am.final_form);
                ctx.check_eq("spec.name", &am.name, &ao.spec_name, &input);
                ctx.check_eq("spec.form", &am.form, &ao.spec_form, &input);
                if am.form == forms::F_IMPLICIT_CONST {
                    ctx.check_eq("spec.implicit_const_value", &Some(am.implicit_const), &ao.spec_implicit, &input);
                }
                ctx.check_eq(&format!("read_attribute.start.{fname}"), &am.offset, &ao.before, &input);
                match &am.expect {
                    Expect::Reject(Reject::IndirectImplicitConst) => {
                        ctx.obs("indirect.implicit_const.rejected");
                        match &ao.res {
                            Err(e) => {
                                if !e.contains("InvalidImplicitConst") {
                                    ctx.obs("secondary.mismatch.implicit_const_error_variant");
                                }
                            }
                            Ok(v) => ctx.fail(
                                "read_attribute.indirect_implicit_const.accepted",
                                &format!("DW_FORM_implicit_const reached through DW_FORM_indirect decoded to {:?}: {}", v.raw, attr_desc(um, am)),
                                &input,
                            ),
                        }
                        continue;
                    }
                    Expect::Reject(Reject::UnknownForm) => {
                        ctx.obs("unknown_form");
                        if ao.res.is_ok() {
                            ctx.obs("secondary.mismatch.unknown_form_accepted");
                        }
                        continue;
                    }
                    Expect::Val(mv) => {
                        let ok = match &ao.res {
                            Ok(v) => v,
                            Err(e) => {
                                ctx.fail(&format!("read_attribute.err.{fname}"), &format!("well-formed attribute rejected with {e}: {}", attr_desc(um, am)), &input);
                                break;
                            }
                        };
                        ctx.obs(&format!("form.{fname}"));
                        if am.form == forms::F_INDIRECT {
                            ctx.obs("form.DW_FORM_indirect");
                        }
                        if am.len > 0 || am.final_form == forms::F_IMPLICIT_CONST {
                            nontrivial += 1;
                        }
                        // consumed
                        ctx.check_eq(&format!("read_attribute.consumed.{fname}"), &am.len, &ao.after.wrapping_sub(ao.before), &input);
                        // raw value: class and payload
                        let exp_raw = OVal { variant: forms::raw_variant(mv.class), class: Some(mv.class), pay: mv.pay.clone() };
                        ctx.check_eq(&format!("raw_value.{fname}"), &exp_raw, &ok.raw, &input);
                        ctx.check_eq("attr.name", &am.name, &ok.name, &input);
                        if ok.form != am.form {
                            ctx.obs("secondary.mismatch.attr_form");
                        }
                        // advertised size
                        match ao.size {
                            Some(n) => {
                                ctx.obs("size.some");
                                ctx.check_eq(&format!("spec.size.{}", forms::form_name(am.form)), &(am.len as usize), &n, &input);
                            }
                            None => ctx.obs("size.none"),
                        }
                        if forms::fixed_size(am.form, um.enc) != ao.size {
                            ctx.obs("secondary.mismatch.fixed_size_table");
                        }
                        // value(): payload preserved
                        if !pay_eq(&ok.val.pay, &mv.pay) {
                            ctx.check_eq(&format!("value.payload.{}", forms::raw_variant(mv.class)), &mv.pay, &ok.val.pay, &input);
                        }
                        if ok.val.variant != ok.raw.variant {
                            ctx.obs("value.normalised");
                        } else {
                            ctx.obs("value.unchanged");
                        }
                        if forms::norm_variant(am.name, mv) != ok.val.variant {
                            ctx.obs("secondary.mismatch.value_variant");
                        }
                        // accessors
                        ctx.check_eq(&format!("udata_value.{}", forms::raw_variant(mv.class)), &forms::model_udata(mv), &ok.udata, &input);
                        ctx.check_eq(&format!("sdata_value.{}", forms::raw_variant(mv.class)), &forms::model_sdata(mv), &ok.sdata, &input);
                        ctx.check_eq(&format!("u8_value.{}", forms::raw_variant(mv.class)), &forms::model_u8(mv), &ok.u8v, &input);
                        ctx.check_eq(&format!("u16_value.{}", forms::raw_variant(mv.class)), &forms::model_u16(mv), &ok.u16v, &input);
                        ctx.check_eq(&format!("offset_value.{}", forms::raw_variant(mv.class)), &forms::model_offset(mv), &ok.offset, &input);
                        ctx.check_eq(&format!("exprloc_value.{}", forms::raw_variant(mv.class)), &forms::model_exprloc(mv), &ok.exprloc, &input);
                        ctx.check_eq("AttributeValue.accessors.agree", &true, &ok.av_accessors_agree, &input);
                        if let Some(s) = forms::model_sdata(mv) {
                            if s < 0 && mv.class != Class::Sdata {
                                ctx.obs("accessor.sdata.negative");
                            }
                        }
                        if mv.class == Class::Sdata && forms::model_udata(mv).is_none() {
                            ctx.obs("accessor.udata.none_for_negative");
                        }
                        coverage(ctx, um, am, mv);
                    }
                }
            }
            if rejected_at.is_none() {
                // skipping the whole list
                ctx.obs("skip.all");
                ctx.check_eq("skip_attributes.end", &Ok(im.offset + im.len), &d.skip_all, &input);
                let mut fixed = false;
                let mut var = false;
                for a in &im.attrs {
                    if forms::fixed_size(a.form, um.enc).is_some() {
                        fixed = true;
                    } else {
                        var = true;
                    }
                }
                if fixed && var {
                    ctx.obs("skip.crosses_fixed_variable");
                }
                // whole-entry read
                match &d.entry {
                    Ok(list) => {
                        let exp: Vec<(u16, u16, OVal)> = im
                            .attrs
                            .iter()
                            .map(|a| match &a.expect {
                                Expect::Val(mv) => (a.name, a.form, OVal { variant: forms::raw_variant(mv.class), class: Some(mv.class), pay: mv.pay.clone() }),
                                _ => (a.name, a.form, OVal { variant: "?", class: None, pay: Pay::Flag(false) }),
                            })
                            .collect();
                        let got: Vec<(u16, u16, OVal)> = list.iter().zip(exp.iter()).map(|(g, e)| (g.0, e.1, g.2.clone())).collect();
                        if exp.len() != list.len() || exp != got {
                            ctx.check_eq("entry.attrs", &exp, &got, &input);
                        }
                        ctx.check_eq("entry.attr_lookup", &true, &d.lookup_ok, &input);
                    }
                    Err(e) => ctx.fail("entry.err", &format!("UnitHeader::entry failed on a well-formed entry: {e}"), &input),
                }
            }
            for (i, j, r) in &d.subskips {
                ctx.obs("skip.subrange");
                let end = if *j < im.attrs.len() { im.attrs[*j].offset } else { im.offset + im.len };
                if im.attrs[*i].offset >= um.end {
                    // the sub-range starts at the very end of the unit (only zero-sized forms
                    // remain): no position to start from
                    continue;
                }
                ctx.check_eq("skip_attributes.subrange.end", &Ok(end), r, &input);
            }
        }
    }
    nontrivial
}

fn coverage(ctx: &mut Ctx, um: &UnitModel, am: &AttrModel, mv: &MVal) {
    let enc = um.enc;
    match am.final_form {
        forms::F_DATA4 => {
            if mv.class == Class::SecOffset {
                ctx.obs("legacy.data4.secoffset");
            } else {
                ctx.obs("legacy.data4.plain");
            }
        }
        forms::F_DATA8 => {
            if mv.class == Class::SecOffset {
                ctx.obs("legacy.data8.secoffset");
            } else {
                ctx.obs("legacy.data8.plain");
            }
        }
        forms::F_REF_ADDR => {
            if enc.version == 2 {
                ctx.obs("ref_addr.v2.address_sized");
            } else {
                ctx.obs("ref_addr.v3plus.word_sized");
            }
        }
        _ => {}
    }
    if am.name == forms::AT_DATA_MEMBER_LOCATION && matches!(am.final_form, forms::F_DATA4 | forms::F_DATA8) {
        if enc.version == 3 && mv.class == Class::SecOffset {
            ctx.obs("legacy.data_member_location.v3.secoffset");
        }
        if enc.version == 4 && mv.class != Class::SecOffset {
            ctx.obs("legacy.data_member_location.v4.data");
        }
    }
    if am.form == forms::F_INDIRECT {
        // depth = number of form codes = len of chain; estimate from the model: declared
        // indirect and final form known; depth is recorded by the workload instead
    }
    if let Pay::Bytes(b) = &mv.pay {
        if b.len() == 70_000 {
            if mv.class == Class::String {
                ctx.obs("string.70000");
            } else {
                ctx.obs("block.70000");
            }
        }
    }
}

/// Build, observe under panic capture, judge, and book-keep one case.
fn run_built(ctx: &mut Ctx, cfg: &InfoCfg, tag: &str, subskips: bool) {
    let b = cfg.build();
    ctx.eval();
    let input = || input_json(&b, tag);
    let Some(obs) = ctx.guard(tag, &input, || observe_case(&b, subskips)) else {
        return;
    };
    let nt = judge(ctx, &b, &obs, tag);
    if nt > 0 {
        let mut bytes = b.debug_abbrev.clone();
        bytes.extend_from_slice(&b.debug_info);
        bytes.extend_from_slice(&b.debug_types);
        ctx.nontrivial_bytes("c03", &bytes);
    }
}

// ------------------------------------------------------------------ workloads

const NEUTRAL: u16 = forms::AT_CONST_VALUE;

fn slice_ok(ctx: &Ctx, idx: u64, div: u64) -> bool {
    // the unoptimised profile runs a seed-rotated 1/div slice of the big catalogues
    if !(ctx.dbg() || ctx.slow()) {
        return true;
    }
    (idx.wrapping_add(ctx.seed)) % div == 0
}

fn single(ctx: &mut Ctx) {
    let mut idx = 0u64;
    for enc in Enc::all() {
        for &(form, fname) in forms::FORMS {
            if form == forms::F_INDIRECT {
                continue;
            }
            let vals: Vec<(AttrVal, i64)> = if form == forms::F_IMPLICIT_CONST {
                boundary_vals(forms::F_SDATA, enc)
                    .into_iter()
                    .map(|v| (AttrVal::new(Val::Nothing), if let Val::S(x) = v.val { x } else { 0 }))
                    .collect()
            } else {
                boundary_vals(form, enc).into_iter().map(|v| (v, 0)).collect()
            };
            for (vi, (v, implicit)) in vals.into_iter().enumerate() {
                idx += 1;
                if !ctx.want("single", idx) || !slice_ok(ctx, idx, 4) {
                    continue;
                }
                if v.leb_len != 0 {
                    ctx.obs("leb.padded");
                }
                let x = AttrDecl { name: NEUTRAL, form, implicit_const: implicit };
                let (decls, vals) = if idx % 3 == 0 {
                    (vec![x], vec![v])
                } else {
                    (
                        vec![AttrDecl::new(0x3b, forms::F_DATA1), x, AttrDecl::new(0x39, forms::F_DATA2)],
                        vec![AttrVal::u(0xa5), v, AttrVal::u(0xbeef)],
                    )
                };
                let kind = if enc.version >= 5 { UnitKind::ALL[(idx % 6) as usize] } else if idx % 5 == 0 { UnitKind::Type } else { UnitKind::Compile };
                let cfg = simple_unit(enc, kind, decls, vals);
                run_built(ctx, &cfg, "single", true);
                if vi == 1 && enc.label() == "be/64/v2/a2" {
                    let b = cfg.build();
                    ctx.sample("single", || json!({"enc": enc.label(), "form": fname, "debug_info": hex(&b.debug_info), "debug_types": hex(&b.debug_types), "debug_abbrev": hex(&b.debug_abbrev), "model": format!("{:?}", b.units[0].items[0].attrs.iter().map(|a| (a.offset, a.len, &a.expect)).collect::<Vec<_>>())}));
                }
            }
        }
    }
}

fn indirect(ctx: &mut Ctx) {
    let mut idx = 0u64;
    let mut finals: Vec<u16> = forms::FORMS.iter().map(|f| f.0).filter(|&f| f != forms::F_INDIRECT).collect();
    finals.extend_from_slice(forms::UNKNOWN_FORMS);
    for enc in Enc::all() {
        for depth in 1..=3usize {
            for &fin in &finals {
                idx += 1;
                if !ctx.want("indirect", idx) || !slice_ok(ctx, idx, 4) {
                    continue;
                }
                let mut r = ctx.rng("indirect", idx);
                let mut chain = vec![forms::F_INDIRECT; depth - 1];
                chain.push(fin);
                let padded = idx % 4 == 0;
                // undefined codes above 0x3fff need 3 bytes anyway
                let form_leb_len = if padded { 3 } else { 0 };
                let rejecting = fin == forms::F_IMPLICIT_CONST || forms::layout(fin, enc).is_none();
                let bvals = boundary_vals(fin, enc);
                let mut items = vec![];
                let ndies = if rejecting { 1 } else { 3 };
                for k in 0..ndies {
                    let base = if k == 0 { bvals[r.usize(bvals.len())].clone() } else { random_val(&mut r, fin, enc) };
                    let v = AttrVal { indirect: chain.clone(), form_leb_len, ..base };
                    // followed by a fixed and a variable neighbour so that skipping must
                    // resume accumulation after the indirect attribute
                    items.push(Item::Die { abbrev: 0, vals: vec![AttrVal::u(0x11), v, AttrVal::u(0x2233), AttrVal::u(r.boundary())], code_len: 0 });
                }
                let decl = AbbrevDecl {
                    code: 1,
                    tag: 0x24,
                    children: false,
                    attrs: vec![
                        AttrDecl::new(0x3b, forms::F_DATA1),
                        AttrDecl::new(NEUTRAL, forms::F_INDIRECT),
                        AttrDecl::new(0x39, forms::F_DATA2),
                        AttrDecl::new(0x0b, forms::F_UDATA),
                    ],
                };
                let cfg = InfoCfg {
                    le: enc.le,
                    tables: vec![AbbrevTable { decls: vec![decl], terminated: idx % 2 == 0 }],
                    units: vec![UnitCfg::new(enc, UnitKind::Compile, 0, items)],
                    abbrev_lead: (idx % 3) as usize,
                };
                if !rejecting {
                    ctx.obs(&format!("indirect.depth{depth}"));
                    if padded {
                        ctx.obs("indirect.padded_form_code");
                    }
                }
                run_built(ctx, &cfg, "indirect", true);
            }
        }
    }
}

fn pair(ctx: &mut Ctx) {
    let mut idx = 0u64;
    let all: Vec<u16> = forms::FORMS.iter().map(|f| f.0).collect();
    for enc in Enc::all() {
        for &fa in &all {
            idx += 1;
            if !ctx.want("pair", idx) || !slice_ok(ctx, idx, 8) {
                continue;
            }
            let mut r = ctx.rng("pair", idx);
            // one abbreviation per second form; every DIE is (A, B) with a trailing data1 guard
            let mut decls = vec![];
            let mut items = vec![];
            for (k, &fb) in all.iter().enumerate() {
                let mut da = AttrDecl::new(NEUTRAL, fa);
                let mut db = AttrDecl::new(0x3e02, fb);
                da.implicit_const = r.boundary() as i64;
                db.implicit_const = r.boundary() as i64;
                decls.push(AbbrevDecl { code: (k + 1) as u64, tag: 0x34, children: false, attrs: vec![da, db, AttrDecl::new(0x3b, forms::F_DATA1)] });
                items.push(Item::Die { abbrev: k, vals: vec![random_val(&mut r, fa, enc), random_val(&mut r, fb, enc), AttrVal::u(0xc3)], code_len: 0 });
            }
            let cfg = InfoCfg { le: enc.le, tables: vec![AbbrevTable { decls, terminated: true }], units: vec![UnitCfg::new(enc, UnitKind::Compile, 0, items)], abbrev_lead: 0 };
            run_built(ctx, &cfg, "pair", true);
        }
    }
}

/// One representative form per raw value class (plus every constant form).
const CLASS_FORMS: &[u16] = &[
    forms::F_ADDR, forms::F_BLOCK1, forms::F_BLOCK, forms::F_DATA1, forms::F_DATA2, forms::F_DATA4, forms::F_DATA8, forms::F_DATA16,
    forms::F_SDATA, forms::F_UDATA, forms::F_EXPRLOC, forms::F_FLAG, forms::F_FLAG_PRESENT, forms::F_SEC_OFFSET, forms::F_REF4,
    forms::F_REF_UDATA, forms::F_REF_ADDR, forms::F_REF_SUP4, forms::F_REF_SIG8, forms::F_STRP, forms::F_STRP_SUP, forms::F_LINE_STRP,
    forms::F_STRING, forms::F_STRX1, forms::F_ADDRX, forms::F_LOCLISTX, forms::F_RNGLISTX, forms::F_IMPLICIT_CONST, forms::F_GNU_REF_ALT,
];

fn names(ctx: &mut Ctx) {
    let mut all_names: Vec<u16> = forms::NORMALISED_NAMES.iter().map(|n| n.0).collect();
    all_names.extend_from_slice(forms::PLAIN_NAMES);
    let mut idx = 0u64;
    for le in [true, false] {
        for fmt64 in [false, true] {
            for version in 2..=5u16 {
                for (ni, &name) in all_names.iter().enumerate() {
                    idx += 1;
                    if !ctx.want("names", idx) || !slice_ok(ctx, idx, 8) {
                        continue;
                    }
                    let addr = [4u8, 8, 2, 1][(idx % 4) as usize];
                    let enc = Enc::new(le, fmt64, version, addr);
                    let mut decls = vec![];
                    let mut items = vec![];
                    // payloads: small, u8 boundary, beyond u16, all-ones (negative when signed)
                    let nums: [u64; 4] = [1, 0x80, 0x1_0001, u64::MAX];
                    for &form in CLASS_FORMS {
                        for (pi, &x) in nums.iter().enumerate() {
                            let k = decls.len();
                            let mut d = AttrDecl::new(name, form);
                            d.implicit_const = x as i64;
                            decls.push(AbbrevDecl { code: (k + 1) as u64, tag: 0x2e, children: false, attrs: vec![d] });
                            let v = match forms::layout(form, enc) {
                                Some(forms::Layout::BlockN(_)) | Some(forms::Layout::BlockUleb) | Some(forms::Layout::CStr) => {
                                    AttrVal::new(Val::Bytes(crate::gen::info::filler(pi * 3, x)))
                                }
                                Some(forms::Layout::Sleb) => AttrVal::new(Val::S(x as i64)),
                                Some(forms::Layout::Fixed(16)) => AttrVal::new(Val::U128(((x as u128) << 64) | 0x55)),
                                _ => AttrVal::u(x),
                            };
                            items.push(Item::Die { abbrev: k, vals: vec![v], code_len: 0 });
                        }
                    }
                    let cfg = InfoCfg { le, tables: vec![AbbrevTable { decls, terminated: true }], units: vec![UnitCfg::new(enc, UnitKind::Compile, 0, items)], abbrev_lead: 0 };
                    run_built(ctx, &cfg, "names", false);
                    let _ = ni;
                }
            }
        }
    }
}

fn random_name(r: &mut Rng) -> u16 {
    match r.below(4) {
        0 => forms::NORMALISED_NAMES[r.usize(forms::NORMALISED_NAMES.len())].0,
        1 => forms::PLAIN_NAMES[r.usize(forms::PLAIN_NAMES.len())],
        2 => NEUTRAL,
        _ => 1 + r.below(0x8c) as u16,
    }
}

fn random_form(r: &mut Rng) -> u16 {
    forms::FORMS[r.usize(forms::FORMS.len())].0
}

fn random_lists(ctx: &mut Ctx) {
    let n = ctx.size(24_000, 300_000, 8);
    for i in 0..n {
        if !ctx.want("lists", i) {
            continue;
        }
        let mut r = ctx.rng("lists", i);
        let le = r.bool();
        let nunits = 1 + r.usize(3);
        let ntables = 1 + r.usize(2);
        let mut tables = vec![];
        for _ in 0..ntables {
            let ndecl = 1 + r.usize(5);
            let mut decls = vec![];
            for k in 0..ndecl {
                // triples are the most common length; 0..=12 overall
                let len = match r.below(4) {
                    0 => 3,
                    1 => r.usize(4),
                    _ => r.usize(13),
                };
                let mut attrs = vec![];
                for _ in 0..len {
                    let mut d = AttrDecl::new(random_name(&mut r), random_form(&mut r));
                    d.implicit_const = r.boundary() as i64;
                    attrs.push(d);
                }
                decls.push(AbbrevDecl { code: (k + 1) as u64, tag: 1 + r.below(0x4b) as u16, children: false, attrs });
            }
            tables.push(AbbrevTable { decls, terminated: true });
        }
        let mut units = vec![];
        for _ in 0..nunits {
            let mut enc = Enc::random(&mut r);
            enc.le = le;
            let table = r.usize(ntables);
            let ndies = 1 + r.usize(6);
            let mut items = vec![];
            for _ in 0..ndies {
                let ab = r.usize(tables[table].decls.len());
                let vals: Vec<AttrVal> = tables[table].decls[ab].attrs.iter().map(|d| random_val(&mut r, d.form, enc)).collect();
                items.push(Item::Die { abbrev: ab, vals, code_len: if r.chance(1, 10) { 2 } else { 0 } });
            }
            let kind = if enc.version >= 5 { UnitKind::ALL[r.usize(6)] } else if r.chance(1, 4) { UnitKind::Type } else { UnitKind::Compile };
            units.push(UnitCfg::new(enc, kind, table, items));
        }
        let cfg = InfoCfg { le, tables, units, abbrev_lead: r.usize(4) };
        run_built(ctx, &cfg, "lists", true);
        if i == 7 {
            let b = cfg.build();
            ctx.sample("lists", || json!({"debug_info": hex(&b.debug_info), "debug_abbrev": hex(&b.debug_abbrev), "units": b.units.len(), "first_die_attrs": format!("{:?}", b.units[0].items[0].attrs.iter().map(|a| (forms::form_name(a.form), a.offset, a.len)).collect::<Vec<_>>())}));
        }
    }
}

// ------------------------------------------------------------------ line-table variant

/// Forms the line-table attribute parser supports (Appendix A.2).
fn line_supported(form: u16) -> bool {
    matches!(
        form,
        forms::F_BLOCK | forms::F_BLOCK1 | forms::F_BLOCK2 | forms::F_BLOCK4 | forms::F_DATA1 | forms::F_DATA2 | forms::F_DATA4 | forms::F_DATA8
            | forms::F_DATA16 | forms::F_UDATA | forms::F_SDATA | forms::F_FLAG | forms::F_SEC_OFFSET | forms::F_STRING | forms::F_STRP
            | forms::F_STRP_SUP | forms::F_GNU_STRP_ALT | forms::F_LINE_STRP | forms::F_STRX | forms::F_STRX1 | forms::F_STRX2 | forms::F_STRX3
            | forms::F_STRX4 | forms::F_GNU_STR_INDEX
    )
}

const LNCT: &[(u64, &str)] = &[(1, "path"), (2, "directory_index"), (3, "timestamp"), (4, "size"), (5, "md5"), (0x2001, "source")];

/// Encode `val` as `form` inside a line-table entry; returns the model value.
fn line_encode(a: &mut Asm, enc: Enc, form: u16, r: &mut Rng, want16: bool) -> MVal {
    let lay = forms::layout(form, enc).unwrap();
    let cls = match form {
        // the line-table variant reports a 16-byte constant as a block of 16 bytes
        forms::F_DATA16 => Class::Block,
        _ => forms::class(form, 0, enc).unwrap(),
    };
    let pay = match lay {
        forms::Layout::Fixed(16) => {
            let b = r.bytes(16);
            a.bytes(&b);
            Pay::Bytes(b)
        }
        forms::Layout::Fixed(n) => {
            let x = r.boundary() & if n >= 8 { u64::MAX } else { (1u64 << (8 * n)) - 1 };
            a.uint(n, x);
            if cls == Class::Flag {
                Pay::Flag(x != 0)
            } else {
                Pay::Int(x as i128)
            }
        }
        forms::Layout::Uleb => {
            let x = r.boundary();
            a.uleb(x);
            Pay::Int(x as i128)
        }
        forms::Layout::Sleb => {
            let x = r.boundary() as i64;
            a.sleb(x);
            Pay::Int(x as i128)
        }
        forms::Layout::BlockN(n) => {
            let len = if want16 { 16 } else { r.usize(20) };
            let b = r.bytes(len);
            a.uint(n, len as u64);
            a.bytes(&b);
            Pay::Bytes(b)
        }
        forms::Layout::BlockUleb => {
            let len = if want16 { 16 } else { r.usize(20) };
            let b = r.bytes(len);
            a.uleb(len as u64);
            a.bytes(&b);
            Pay::Bytes(b)
        }
        forms::Layout::CStr => {
            let len = r.usize(12);
            let b: Vec<u8> = r.bytes(len).into_iter().map(|c| if c == 0 { b'x' } else { c }).collect();
            a.cstr(&b);
            Pay::Bytes(b)
        }
        _ => Pay::Flag(false),
    };
    MVal { class: cls, pay }
}

#[derive(Debug, PartialEq, Clone)]
struct LineFileObs {
    path: OVal,
    directory_index: u64,
    timestamp: u64,
    size: u64,
    md5: Vec<u8>,
    source: Option<OVal>,
}

fn linefmt(ctx: &mut Ctx) {
    let mut idx = 0u64;
    let mut fs: Vec<u16> = forms::FORMS.iter().map(|f| f.0).collect();
    fs.push(0x2d);
    for le in [true, false] {
        for fmt64 in [false, true] {
            for addr in [1u8, 2, 4, 8] {
                let enc = Enc::new(le, fmt64, 5, addr);
                for &(lnct, lname) in LNCT {
                    for &form in &fs {
                        idx += 1;
                        if !ctx.want("linefmt", idx) {
                            continue;
                        }
                        let mut r = ctx.rng("linefmt", idx);
                        let supported = line_supported(form);
                        // directory format: path as string; file format: path (line_strp unless path is
                        // the content type under test) + the content type under test in `form`
                        let mut a = Asm::new(le);
                        let mark = a.begin_length(fmt64);
                        a.u16(5).u8(addr).u8(0);
                        let hl_at = a.len();
                        a.word(fmt64, 0);
                        let hl_body = a.len();
                        a.u8(1).u8(1).u8(1).u8((-5i8) as u8).u8(14).u8(13);
                        a.bytes(&[0, 1, 1, 1, 1, 0, 0, 0, 1, 0, 0, 1]);
                        // directories
                        let dir_form = if lnct == 1 { form } else { forms::F_STRING };
                        a.u8(1).uleb(1).uleb(dir_form as u64);
                        let ndirs = 2usize;
                        a.uleb(ndirs as u64);
                        let mut dirs = vec![];
                        for _ in 0..ndirs {
                            if forms::layout(dir_form, enc).is_some() && line_supported(dir_form) {
                                dirs.push(line_encode(&mut a, enc, dir_form, &mut r, false));
                            } else {
                                a.u8(0);
                            }
                        }
                        // files
                        let nfiles = 2usize;
                        let mut files: Vec<(MVal, Option<MVal>)> = vec![];
                        if lnct == 1 {
                            a.u8(1).uleb(1).uleb(form as u64);
                        } else {
                            a.u8(2).uleb(lnct).uleb(form as u64).uleb(1).uleb(forms::F_LINE_STRP as u64);
                        }
                        a.uleb(nfiles as u64);
                        for _ in 0..nfiles {
                            if !(supported && forms::layout(form, enc).is_some()) {
                                a.u8(0);
                                continue;
                            }
                            if lnct == 1 {
                                let p = line_encode(&mut a, enc, form, &mut r, false);
                                files.push((p, None));
                            } else {
                                let want16 = lnct == 5 && r.chance(2, 3);
                                let x = line_encode(&mut a, enc, form, &mut r, want16);
                                let p = line_encode(&mut a, enc, forms::F_LINE_STRP, &mut r, false);
                                files.push((p, Some(x)));
                            }
                        }
                        let hl = a.len() - hl_body;
                        a.patch_uint(hl_at, if fmt64 { 8 } else { 4 }, hl as u64);
                        a.u8(0).u8(1).u8(1);
                        a.end_length(mark);
                        let bytes = a.buf.clone();
                        ctx.eval();
                        let input = || json!({"enc": enc.label(), "content_type": lname, "form": forms::form_name(form), "debug_line": hex(&bytes)});
                        let got = ctx.guard("linefmt", &input, || {
                            let dl = gimli::DebugLine::new(&bytes, enc.endian());
                            let p = dl.program(gimli::DebugLineOffset(0), addr, None, None).map_err(|e| format!("{e:?}"))?;
                            let h = p.header();
                            let d: Vec<OVal> = h.include_directories().iter().map(forms::observe).collect();
                            let f: Vec<LineFileObs> = h
                                .file_names()
                                .iter()
                                .map(|f| LineFileObs {
                                    path: forms::observe(&f.path_name()),
                                    directory_index: f.directory_index(),
                                    timestamp: f.timestamp(),
                                    size: f.size(),
                                    md5: f.md5().to_vec(),
                                    source: f.source().map(|s| forms::observe(&s)),
                                })
                                .collect();
                            Ok::<_, String>((d, f, h.raw_program_buf().len()))
                        });
                        let Some(got) = got else { continue };
                        if !supported {
                            ctx.obs("linefmt.unsupported_form");
                            if got.is_ok() {
                                ctx.obs("secondary.mismatch.linefmt_unsupported_accepted");
                            }
                            continue;
                        }
                        let (gd, gf, prog_len) = match got {
                            Ok(x) => x,
                            Err(e) => {
                                ctx.fail(&format!("linefmt.err.{}", forms::form_name(form)), &format!("well-formed v5 line header rejected: {e}"), &input);
                                continue;
                            }
                        };
                        ctx.obs(&format!("linefmt.{lname}"));
                        ctx.obs(&format!("form.{}", forms::form_name(form)));
                        let ov = |m: &MVal| OVal { variant: forms::raw_variant(m.class), class: Some(m.class), pay: m.pay.clone() };
                        // every entry was consumed exactly: the program is the 3 bytes we appended
                        ctx.check_eq(&format!("linefmt.consumed.{}", forms::form_name(form)), &3usize, &prog_len, &input);
                        let ed: Vec<OVal> = dirs.iter().map(ov).collect();
                        ctx.check_eq(&format!("linefmt.directories.{}", forms::form_name(form)), &ed, &gd, &input);
                        let ef: Vec<LineFileObs> = files
                            .iter()
                            .map(|(p, x)| {
                                let mut o = LineFileObs { path: ov(p), directory_index: 0, timestamp: 0, size: 0, md5: vec![0; 16], source: None };
                                if let Some(x) = x {
                                    let ud = forms::model_udata(x);
                                    match lnct {
                                        2 => o.directory_index = ud.unwrap_or(0),
                                        3 => o.timestamp = ud.unwrap_or(0),
                                        4 => o.size = ud.unwrap_or(0),
                                        5 => {
                                            if let (Class::Block, Pay::Bytes(b)) = (x.class, &x.pay) {
                                                if b.len() == 16 {
                                                    o.md5 = b.clone();
                                                }
                                            }
                                        }
                                        _ => o.source = Some(ov(x)),
                                    }
                                }
                                o
                            })
                            .collect();
                        ctx.check_eq(&format!("linefmt.files.{lname}.{}", forms::form_name(form)), &ef, &gf, &input);
                        ctx.nontrivial_bytes("c03.line", &bytes);
                        if idx == 40 {
                            ctx.sample("linefmt", || json!({"enc": enc.label(), "content_type": lname, "form": forms::form_name(form), "debug_line": hex(&bytes), "files": format!("{gf:?}")}));
                        }
                    }
                }
            }
        }
    }
}

/// The numeric constants of `model::forms` name the same forms / attributes as gimli's
/// constants (a mismatch would be a harness defect, not a violation).
fn self_check(ctx: &mut Ctx) {
    for &(code, name) in forms::FORMS {
        if gimli::DwForm(code).static_string() != Some(name) {
            ctx.harness_error(&format!("model::forms: form code 0x{code:x} is {:?}, not {name}", gimli::DwForm(code).static_string()));
        }
    }
    for &(code, name) in forms::NORMALISED_NAMES {
        if gimli::DwAt(code).static_string() != Some(name) {
            ctx.harness_error(&format!("model::forms: attribute code 0x{code:x} is {:?}, not {name}", gimli::DwAt(code).static_string()));
        }
    }
    for &code in forms::UNKNOWN_FORMS {
        if gimli::DwForm(code).static_string().is_some() {
            ctx.harness_error(&format!("model::forms: form code 0x{code:x} is defined"));
        }
    }
}

pub fn run(ctx: &mut Ctx) {
    if ctx.shard == 0 || ctx.only.is_some() {
        self_check(ctx);
    }
    single(ctx);
    indirect(ctx);
    pair(ctx);
    names(ctx);
    random_lists(ctx);
    linefmt(ctx);
}

//! C08 — range and location lists resolve to the standard's address ranges.
//!
//! Oracle: `model::lists` (decoder + resolver written from the standard and DESIGN.md A.7)
//! and the assembler's own record of what it encoded (`gen::lists`).  Every gimli call runs
//! under panic capture.  Streams:
//!  * `table`   exhaustive single-entry lists (direct `RangeLists` / `LocationLists` API);
//!  * `rand`    seeded multi-entry lists, several lists per section, offset tables;
//!  * `offsets` enumerated index -> offset and index -> address lookups;
//!  * `die`     exhaustive DW_AT_low_pc x DW_AT_high_pc x DW_AT_ranges form combinations;
//!  * `unit`    seeded units (main / dwo / split) through the `Dwarf` and `UnitRef` helpers;
//!  * `hostile` random bytes and mutated valid sections: invariant + differential decode.

use crate::asm::{Asm, Enc};
use crate::gen::lists as g;
use crate::gen::mutate;
use crate::model::lists::{self as m, End, Flavor, Item, ResEnd};
use crate::props::PropInfo;
use crate::rt::{hex, Ctx, Rng};
use serde_json::{json, Value};

#[path = "c08_world.rs"]
mod world;

pub type Slice<'a> = gimli::EndianSlice<'a, gimli::RunTimeEndian>;

pub fn info() -> PropInfo {
    PropInfo {
        id: "C08",
        level: "exploration",
        rule: "Seven streams. `enum`: every byte string of length <= 4 over a 14-symbol alphabet read as a list of every flavour (invariant + differential decode, see `hostile`). `table`: for every encoding (2 byte orders x Dwarf32/64 x versions 2-5 x address sizes 1/2/4/8) and every entry kind of its list flavours (legacy .debug_ranges/.debug_loc pairs alone and after a base-selection entry; every DW_RLE_* / DW_LLE_* kind, index kinds through a .debug_addr with a non-zero addr_base, offset pairs also after base_address / base_addressx; the GNU .debug_loc.dwo flavour for versions 2-4) x 8 unit base addresses (0, 1, 0x10, mid, max-0x10, max-2, max-1, max) x all 49 operand pairs over {0,1,2,mid,max-2,max-1,max} (lengths additionally max+1 and 2^64-1): one single-entry list per case, read raw and cooked. `rand`: seeded sections with 1-4 lists of 0-30 entries (boundary addresses, wrap-around sums, empty/inverted/tombstone ranges, out-of-table indices, padded ULEB128 operands, expressions of 0-330 bytes, junk / foreign tables in front, unterminated last list), read through raw_ranges/ranges, raw_locations/locations(+_dwo), Iterator impls and next_raw+convert_raw, plus get_offset for every table slot. `offsets`: get_offset and DebugAddr::get_address over enumerated (base, index) pairs incl. the last slot, one past it and overflowing products. `die`: every combination of DW_AT_low_pc form (absent/addr/addrx) x DW_AT_high_pc form (absent/addr/addrx/data1/2/4/8/udata/sdata/negative sdata) x DW_AT_ranges form (absent/sec_offset/rnglistx/other) x 3 attribute orders x 64 encodings through die_ranges and unit_ranges. `unit`: seeded hand-assembled units (one in five with one of .debug_ranges/.debug_rnglists, .debug_loc/.debug_loclists, .debug_addr damaged by a single mutation after generation; the model reads the same bytes) in main files, .dwo files (file_type set directly) and skeleton+split pairs (make_dwo, copy_relocated_attributes), with DW_AT_addr_base/GNU_addr_base, rnglists_base/GNU_ranges_base, loclists_base present or defaulted, list attributes in sec_offset (data4/data8 for versions 2-3), rnglistx and loclistx forms on the root and on children; Unit fields, attr_ranges_offset, attr_ranges, ranges, raw_ranges, die_ranges, unit_ranges, attr_locations_offset, attr_locations, locations, raw_locations and the UnitRef twins are compared with the model. `hostile`: random bytes and single mutations (truncation, byte substitution, integer injection, field-map driven) of valid sections through all list iterators at several offsets: every yielded range must be non-empty and start below 2^(8*size)-2, and the entries must equal the model's decode of the same bytes up to the first undecodable entry. A case is non-trivial when it holds at least one list entry (table/rand/unit/hostile), one in-range lookup (offsets) or one range-bearing attribute (die); table/die/offsets cases are distinct by construction, the others by a digest of their sections.",
        assumptions: &[
            "sums base+offset and begin+length wrap to the unit's address size (DESIGN A.7)",
            "documented filtering is part of the model: entries with begin >= 2^(8*size)-2, begin >= end, or (offset pairs) a running base >= 2^(8*size)-2 are not yielded",
            "DW_LLE_default_location is reported with the range [0, 2^64-1)",
            "a list that reaches the end of its section exactly at an entry boundary ends without error",
            "an entry that cannot be decoded (truncated, unknown kind, ULEB128 > 64 bits) or whose .debug_addr slot is outside the section must produce Err, not an entry and not a silent end; which Error variant is not judged",
            "ULEB128 operands longer than 10 bytes: only the entries before them are judged",
            "DW_LLE kinds 5-8 (default_location, base_address, start_end, start_length) inside a version <= 4 .debug_loc.dwo list are not part of the GNU extension: mismatches there are recorded as secondary.*, not judged",
            "die_ranges: DW_AT_ranges wins over low_pc/high_pc; a constant-class high_pc is an offset from the DIE's own low_pc; low_pc+offset beyond the address size but below 2^64 is not judged, beyond 2^64 must be Err; negative DW_FORM_sdata high_pc is not judged; the single [low_pc, high_pc) range is not filtered",
            "copy_relocated_attributes copies low_pc, addr_base and (version < 5) rnglists_base from the skeleton unit, as documented",
            "corpus comparison with llvm-dwarfdump is not part of this check",
        ],
        exhaustive_subspaces: &[
            "single-entry lists: 64 encodings x every entry kind of each flavour (incl. base+pair, basex+pair) x 8 unit bases x 49 (56 for lengths) operand pairs (stream `table`)",
            "die_ranges: 3 low_pc forms x 10 high_pc forms x 4 ranges forms x 3 attribute orders x 64 encodings (stream `die`)",
            "get_offset / get_address: 2 byte orders x Dwarf32/64 x address sizes x enumerated (base, index) grid around the section end (stream `offsets`)",
            "every byte string of length <= 4 (dbg profile: <= 3) over {0..9, 0x7f, 0x80, 0xfe, 0xff} read as a list of each of the five flavours with address sizes 1 and 2 and unit base 0 / max-1 (stream `enum`)",
        ],
        must_observe: &[
            "flavor.ranges", "flavor.loc", "flavor.rle", "flavor.lle", "flavor.gnulle",
            "kind.ranges.pair", "kind.ranges.base_address", "kind.loc.pair", "kind.loc.base_address",
            "kind.rle.base_addressx", "kind.rle.startx_endx", "kind.rle.startx_length", "kind.rle.offset_pair", "kind.rle.base_address", "kind.rle.start_end", "kind.rle.start_length",
            "kind.lle.base_addressx", "kind.lle.startx_endx", "kind.lle.startx_length", "kind.lle.offset_pair", "kind.lle.default_location", "kind.lle.base_address", "kind.lle.start_end", "kind.lle.start_length",
            "kind.gnulle.base_addressx", "kind.gnulle.startx_endx", "kind.gnulle.startx_length", "kind.gnulle.offset_pair",
            "ver.2", "ver.3", "ver.4", "ver.5", "addr.1", "addr.2", "addr.4", "addr.8", "fmt.32", "fmt.64", "endian.le", "endian.be",
            "model.yielded", "model.drop_tomb_begin", "model.drop_empty", "model.drop_inverted", "model.drop_tomb_base", "model.wrapped", "model.base_changes", "model.addr_lookups", "model.addr_lookup_failed",
            "raw.compared", "cooked.compared", "cooked.expr_compared",
            "get_offset.ok", "get_offset.err", "get_address.ok", "get_address.err",
            "unit.mode.main", "unit.mode.dwo", "unit.mode.split", "unit.mode.split_nocopy", "unit.fields",
            "unit.lowpc.zero", "unit.lowpc.small", "unit.lowpc.nearmax", "unit.lowpc.absent", "unit.lowpc.indexed",
            "unit.ranges.sec_offset", "unit.ranges.rnglistx", "unit.ranges.gnu_ranges_base", "unit.ranges.dwo_v5_sec_offset",
            "unit.loc.sec_offset", "unit.loc.loclistx", "unit.loc.exprloc", "unit.base.default_dwo_v5", "unit.base.explicit",
            "unit.unit_ranges", "unit.unitref", "unit.mutated_section",
            "die.list", "die.single.some", "die.single.none", "die.error", "die.unjudged",
            "die.high.addr", "die.high.addrx", "die.high.data1", "die.high.data2", "die.high.data4", "die.high.data8", "die.high.udata", "die.high.sdata", "die.high.sdata_neg", "die.high.absent",
            "die.low.addr", "die.low.addrx", "die.low.absent", "die.ranges.sec_offset", "die.ranges.rnglistx", "die.ranges.other", "die.ranges.absent",
            "hostile.random", "hostile.mutated", "hostile.field", "hostile.c01seed", "hostile.ranges_checked", "hostile.end.truncated", "hostile.end.unknown", "hostile.end.clean", "hostile.differential",
        ],
        run,
    }
}

// ================================================================ observation of iterators

#[derive(Clone, Debug, PartialEq)]
pub enum Tail {
    /// `Ok(None)`
    End,
    /// `Err(..)` from `next`
    Err(String),
    /// the constructor (`ranges()`, `raw_locations()`, ...) failed
    OpenErr(String),
    /// more items than the input can hold
    Runaway,
}

#[derive(Clone, Debug, PartialEq)]
pub struct Seq<T> {
    pub items: Vec<T>,
    pub tail: Tail,
    /// entries or errors produced by two further `next` calls after `Ok(None)`
    pub after: Vec<String>,
}

impl<T> Seq<T> {
    pub fn open_err(e: gimli::Error) -> Seq<T> {
        Seq { items: vec![], tail: Tail::OpenErr(format!("{e:?}")), after: vec![] }
    }
}

pub fn drain<T: std::fmt::Debug>(limit: usize, mut next: impl FnMut() -> gimli::Result<Option<T>>) -> Seq<T> {
    let mut items = vec![];
    loop {
        match next() {
            Ok(Some(x)) => {
                items.push(x);
                if items.len() > limit {
                    return Seq { items, tail: Tail::Runaway, after: vec![] };
                }
            }
            Ok(None) => {
                let mut after = vec![];
                for _ in 0..2 {
                    match next() {
                        Ok(None) => {}
                        Ok(Some(x)) => after.push(format!("{x:?}")),
                        Err(e) => after.push(format!("Err({e:?})")),
                    }
                }
                return Seq { items, tail: Tail::End, after };
            }
            Err(e) => return Seq { items, tail: Tail::Err(format!("{e:?}")), after: vec![] },
        }
    }
}

pub fn raw_rng_item(e: gimli::RawRngListEntry<usize>) -> Item {
    use gimli::RawRngListEntry as R;
    match e {
        R::AddressOrOffsetPair { begin, end } => Item::Pair(begin, end, None),
        R::BaseAddress { addr } => Item::Base(addr),
        R::BaseAddressx { addr } => Item::Basex(addr.0 as u64),
        R::StartxEndx { begin, end } => Item::StartxEndx(begin.0 as u64, end.0 as u64, None),
        R::StartxLength { begin, length } => Item::StartxLength(begin.0 as u64, length, None),
        R::OffsetPair { begin, end } => Item::OffsetPair(begin, end, None),
        R::StartEnd { begin, end } => Item::StartEnd(begin, end, None),
        R::StartLength { begin, length } => Item::StartLength(begin, length, None),
    }
}

fn xb(d: &gimli::Expression<Slice<'_>>) -> Option<Vec<u8>> {
    Some(d.0.slice().to_vec())
}

pub fn raw_loc_item(e: gimli::RawLocListEntry<Slice<'_>>) -> Item {
    use gimli::RawLocListEntry as R;
    match e {
        R::AddressOrOffsetPair { begin, end, data } => Item::Pair(begin, end, xb(&data)),
        R::BaseAddress { addr } => Item::Base(addr),
        R::BaseAddressx { addr } => Item::Basex(addr.0 as u64),
        R::StartxEndx { begin, end, data } => Item::StartxEndx(begin.0 as u64, end.0 as u64, xb(&data)),
        R::StartxLength { begin, length, data } => Item::StartxLength(begin.0 as u64, length, xb(&data)),
        R::OffsetPair { begin, end, data } => Item::OffsetPair(begin, end, xb(&data)),
        R::DefaultLocation { data } => Item::Default(d_or_empty(xb(&data))),
        R::StartEnd { begin, end, data } => Item::StartEnd(begin, end, xb(&data)),
        R::StartLength { begin, length, data } => Item::StartLength(begin, length, xb(&data)),
    }
}

fn d_or_empty(d: Option<Vec<u8>>) -> Vec<u8> {
    d.unwrap_or_default()
}

pub fn res_of_range(r: gimli::Range) -> m::Res {
    m::Res { begin: r.begin, end: r.end, data: None }
}

pub fn res_of_loc(l: gimli::LocationListEntry<Slice<'_>>) -> m::Res {
    m::Res { begin: l.range.begin, end: l.range.end, data: Some(l.data.0.slice().to_vec()) }
}

// ================================================================ expectations

#[derive(Clone, Copy, Debug, PartialEq)]
pub enum ExpTail {
    End,
    MustErr,
    /// the constructor must fail (offset beyond the section)
    OpenErr,
    /// not judged beyond the expected prefix
    Free,
}

pub fn tail_of_end(e: End) -> ExpTail {
    match e {
        End::EndOfList | End::Exhausted => ExpTail::End,
        End::Truncated | End::UnknownKind(_) | End::BadLeb => ExpTail::MustErr,
        End::Ambiguous => ExpTail::Free,
    }
}

/// Compare an observed sequence with the expected one.  Returns false on a violation.
pub fn judge<T: PartialEq + std::fmt::Debug>(
    ctx: &mut Ctx,
    sig: &str,
    exp_items: &[T],
    exp_tail: ExpTail,
    got: &Seq<T>,
    input: &dyn Fn() -> Value,
) -> bool {
    let mut ok = true;
    match exp_tail {
        ExpTail::OpenErr => {
            if !matches!(got.tail, Tail::OpenErr(_)) {
                ctx.fail(&format!("{sig}.open"), &format!("{sig}: offset is outside the section but the iterator was created: {:?}", short(got)), input);
                ok = false;
            }
            return ok;
        }
        ExpTail::Free => {
            let n = exp_items.len().min(got.items.len());
            if got.items[..n] != exp_items[..n] || got.items.len() < exp_items.len() && matches!(got.tail, Tail::End) {
                ok &= ctx.check_eq(&format!("{sig}.items"), &format!("{:?}", exp_items), &format!("{:?}", short(got)), input);
            }
            return ok;
        }
        _ => {}
    }
    if got.items != exp_items {
        ctx.check_eq(&format!("{sig}.items"), &format!("{:?}", exp_items), &format!("{:?}", short(got)), input);
        return false;
    }
    match (exp_tail, &got.tail) {
        (ExpTail::End, Tail::End) => {
            if !got.after.is_empty() {
                ctx.fail(&format!("{sig}.after_end"), &format!("{sig}: entries after the end of the list: {:?}", got.after), input);
                ok = false;
            }
        }
        (ExpTail::MustErr, Tail::Err(_)) => {}
        (e, t) => {
            ctx.check_eq(&format!("{sig}.tail"), &format!("{e:?}"), &format!("{t:?}"), input);
            ok = false;
        }
    }
    ok
}

fn short<T: std::fmt::Debug>(s: &Seq<T>) -> String {
    let mut t = format!("{:?} then {:?}", s.items, s.tail);
    if t.len() > 600 {
        t.truncate(600);
        t.push_str("...");
    }
    t
}

/// Invariant of the property's last clause on one observed cooked sequence.
pub fn invariant(ctx: &mut Ctx, sig: &str, addr: u8, got: &Seq<m::Res>, input: &dyn Fn() -> Value) {
    let tomb = m::tombstone(addr);
    for r in &got.items {
        ctx.obs("hostile.ranges_checked");
        if r.begin >= r.end {
            ctx.fail(&format!("{sig}.invariant.nonempty"), &format!("{sig}: yielded range {:#x}..{:#x} is empty or inverted", r.begin, r.end), input);
        }
        if r.begin >= tomb {
            ctx.fail(&format!("{sig}.invariant.tombstone"), &format!("{sig}: yielded range {:#x}..{:#x} begins at or above the tombstone {:#x}", r.begin, r.end, tomb), input);
        }
    }
    if got.tail == Tail::Runaway {
        ctx.fail(&format!("{sig}.runaway"), &format!("{sig}: iterator yields more entries than the section has bytes"), input);
    }
}

pub fn obs_stats(ctx: &mut Ctx, st: &m::Stats) {
    for (k, v) in [
        ("model.yielded", st.yielded),
        ("model.drop_tomb_begin", st.drop_tomb_begin),
        ("model.drop_empty", st.drop_empty),
        ("model.drop_inverted", st.drop_inverted),
        ("model.drop_tomb_base", st.drop_tomb_base),
        ("model.wrapped", st.wrapped),
        ("model.base_changes", st.base_changes),
        ("model.addr_lookups", st.addr_lookups),
    ] {
        if v > 0 {
            ctx.obs_n(k, v);
        }
    }
}

pub fn obs_enc(ctx: &mut Ctx, enc: Enc) {
    ctx.obs(&format!("ver.{}", enc.version));
    ctx.obs(&format!("addr.{}", enc.addr));
    ctx.obs(if enc.fmt64 { "fmt.64" } else { "fmt.32" });
    ctx.obs(if enc.le { "endian.le" } else { "endian.be" });
}

pub fn obs_items(ctx: &mut Ctx, flavor: Flavor, items: &[Item]) {
    if !items.is_empty() {
        ctx.obs(&format!("flavor.{}", flavor.name()));
    }
    for it in items {
        ctx.obs(&format!("kind.{}.{}", flavor.name(), it.kind()));
    }
}

// ================================================================ direct API driver

/// One list read through `RangeLists` / `LocationLists` directly.
pub struct Direct<'a> {
    pub enc: Enc,
    pub flavor: Flavor,
    pub sec: &'a [u8],
    pub off: u64,
    pub addr_sec: &'a [u8],
    pub addr_base: u64,
    pub base: u64,
}

pub struct DirectObs {
    pub raw: Seq<Item>,
    pub cooked: Seq<m::Res>,
    /// the same through `Iterator::next`
    pub raw_iter: Seq<Item>,
    pub cooked_iter: Seq<m::Res>,
    /// `next_raw` + `convert_raw`
    pub stepwise: Seq<m::Res>,
    /// for DW_LLE in version 5: the `_dwo` twins
    pub raw_dwo: Option<Seq<Item>>,
    pub cooked_dwo: Option<Seq<m::Res>>,
}

fn iter_seq<T: std::fmt::Debug, I: Iterator<Item = gimli::Result<T>>>(limit: usize, mut it: I) -> Seq<T> {
    drain(limit, || it.next().transpose())
}

fn none_seq<T>() -> Seq<T> {
    Seq { items: vec![], tail: Tail::End, after: vec![] }
}

pub fn run_direct(d: &Direct, full: bool) -> DirectObs {
    let e = d.enc.endian();
    let encoding = d.enc.encoding();
    let limit = d.sec.len() + 8;
    let debug_addr = gimli::DebugAddr::from(gimli::EndianSlice::new(d.addr_sec, e));
    let ab = gimli::DebugAddrBase(d.addr_base as usize);
    let empty: &[u8] = &[];
    if !d.flavor.is_loc() {
        let (legacy, v5) = if d.flavor == Flavor::Ranges { (d.sec, empty) } else { (empty, d.sec) };
        let rl = gimli::RangeLists::new(gimli::DebugRanges::new(legacy, e), gimli::DebugRngLists::new(v5, e));
        let off = gimli::RangeListsOffset(d.off as usize);
        let raw = match rl.raw_ranges(off, encoding) {
            Ok(mut it) => drain(limit, || it.next().map(|o| o.map(raw_rng_item))),
            Err(e) => Seq::open_err(e),
        };
        let cooked = match rl.ranges(off, encoding, d.base, &debug_addr, ab) {
            Ok(mut it) => drain(limit, || it.next().map(|o| o.map(res_of_range))),
            Err(e) => Seq::open_err(e),
        };
        let (raw_iter, cooked_iter, stepwise) = if full {
            let a = match rl.raw_ranges(off, encoding) {
                Ok(it) => iter_seq(limit, it.map(|r| r.map(raw_rng_item))),
                Err(e) => Seq::open_err(e),
            };
            let b = match rl.ranges(off, encoding, d.base, &debug_addr, ab) {
                Ok(it) => iter_seq(limit, it.map(|r| r.map(res_of_range))),
                Err(e) => Seq::open_err(e),
            };
            let c = match rl.ranges(off, encoding, d.base, &debug_addr, ab) {
                Ok(mut it) => drain(limit, || loop {
                    match it.next_raw()? {
                        None => return Ok(None),
                        Some(raw) => {
                            if let Some(r) = it.convert_raw(raw)? {
                                return Ok(Some(res_of_range(r)));
                            }
                        }
                    }
                }),
                Err(e) => Seq::open_err(e),
            };
            (a, b, c)
        } else {
            (none_seq(), none_seq(), none_seq())
        };
        DirectObs { raw, cooked, raw_iter, cooked_iter, stepwise, raw_dwo: None, cooked_dwo: None }
    } else {
        let (legacy, v5) = if d.flavor == Flavor::Lle { (empty, d.sec) } else { (d.sec, empty) };
        let ll = gimli::LocationLists::new(gimli::DebugLoc::new(legacy, e), gimli::DebugLocLists::new(v5, e));
        let off = gimli::LocationListsOffset(d.off as usize);
        let gnu = d.flavor == Flavor::GnuLle;
        let open_raw = |dwo: bool| if dwo { ll.raw_locations_dwo(off, encoding) } else { ll.raw_locations(off, encoding) };
        let open = |dwo: bool| {
            if dwo {
                ll.locations_dwo(off, encoding, d.base, &debug_addr, ab)
            } else {
                ll.locations(off, encoding, d.base, &debug_addr, ab)
            }
        };
        let raw = match open_raw(gnu) {
            Ok(mut it) => drain(limit, || it.next().map(|o| o.map(raw_loc_item))),
            Err(e) => Seq::open_err(e),
        };
        let cooked = match open(gnu) {
            Ok(mut it) => drain(limit, || it.next().map(|o| o.map(res_of_loc))),
            Err(e) => Seq::open_err(e),
        };
        let (raw_iter, cooked_iter, stepwise) = if full {
            let a = match open_raw(gnu) {
                Ok(it) => iter_seq(limit, it.map(|r| r.map(raw_loc_item))),
                Err(e) => Seq::open_err(e),
            };
            let b = match open(gnu) {
                Ok(it) => iter_seq(limit, it.map(|r| r.map(res_of_loc))),
                Err(e) => Seq::open_err(e),
            };
            let c = match open(gnu) {
                Ok(mut it) => drain(limit, || loop {
                    match it.next_raw()? {
                        None => return Ok(None),
                        Some(raw) => {
                            if let Some(r) = it.convert_raw(raw)? {
                                return Ok(Some(res_of_loc(r)));
                            }
                        }
                    }
                }),
                Err(e) => Seq::open_err(e),
            };
            (a, b, c)
        } else {
            (none_seq(), none_seq(), none_seq())
        };
        let (raw_dwo, cooked_dwo) = if full && d.flavor == Flavor::Lle {
            let a = match open_raw(true) {
                Ok(mut it) => drain(limit, || it.next().map(|o| o.map(raw_loc_item))),
                Err(e) => Seq::open_err(e),
            };
            let b = match open(true) {
                Ok(mut it) => drain(limit, || it.next().map(|o| o.map(res_of_loc))),
                Err(e) => Seq::open_err(e),
            };
            (Some(a), Some(b))
        } else {
            (None, None)
        };
        DirectObs { raw, cooked, raw_iter, cooked_iter, stepwise, raw_dwo, cooked_dwo }
    }
}

/// What the model expects for a list.
pub struct Expect {
    pub raw_items: Vec<Item>,
    pub raw_tail: ExpTail,
    pub cooked: Vec<m::Res>,
    pub cooked_tail: ExpTail,
    pub stats: m::Stats,
    pub lookup_failed: bool,
}

pub fn expect_for(items: &[Item], end: End, cx: &m::ResolveCtx) -> Expect {
    let res = m::resolve(items, cx);
    let (cooked_tail, lookup_failed) = match res.end {
        ResEnd::AddrLookup(_) => (ExpTail::MustErr, true),
        ResEnd::Items => (tail_of_end(end), false),
    };
    Expect { raw_items: items.to_vec(), raw_tail: tail_of_end(end), cooked: res.out, cooked_tail, stats: res.stats, lookup_failed }
}

/// Does this list use kinds whose meaning in the GNU flavour is not defined by the extension?
fn gnu_undefined_kinds(flavor: Flavor, items: &[Item]) -> bool {
    flavor == Flavor::GnuLle && items.iter().any(|i| matches!(i, Item::Default(_) | Item::Base(_) | Item::StartEnd(..) | Item::StartLength(..)))
}

/// Judge one direct observation against the expectation.  `tag` names the stream.
pub fn judge_direct(ctx: &mut Ctx, tag: &str, d: &Direct, exp: &Expect, obs: &DirectObs, full: bool, secondary: bool, input: &dyn Fn() -> Value) {
    let f = d.flavor.name();
    if secondary {
        // not judged: only recorded
        let same = obs.raw.items == exp.raw_items && obs.cooked.items == exp.cooked;
        ctx.obs(if same { "secondary.gnu_v5_kinds.agree" } else { "secondary.mismatch.gnu_v5_kinds" });
        return;
    }
    ctx.obs("raw.compared");
    judge(ctx, &format!("{tag}.{f}.raw"), &exp.raw_items, exp.raw_tail, &obs.raw, input);
    ctx.obs("cooked.compared");
    if d.flavor.is_loc() && !exp.cooked.is_empty() {
        ctx.obs("cooked.expr_compared");
    }
    judge(ctx, &format!("{tag}.{f}.cooked"), &exp.cooked, exp.cooked_tail, &obs.cooked, input);
    if exp.lookup_failed {
        ctx.obs("model.addr_lookup_failed");
    }
    if full {
        // the other access paths must agree with the primary ones
        ctx.check_eq(&format!("{tag}.{f}.raw.Iterator"), &obs.raw.items, &obs.raw_iter.items, input);
        ctx.check_eq(&format!("{tag}.{f}.cooked.Iterator"), &obs.cooked.items, &obs.cooked_iter.items, input);
        ctx.check_eq(&format!("{tag}.{f}.cooked.next_raw+convert_raw"), &obs.cooked.items, &obs.stepwise.items, input);
        ctx.check_eq(&format!("{tag}.{f}.cooked.next_raw+convert_raw.tail"), &tail_class(&obs.cooked.tail), &tail_class(&obs.stepwise.tail), input);
        if let (Some(a), Some(b)) = (&obs.raw_dwo, &obs.cooked_dwo) {
            ctx.check_eq(&format!("{tag}.{f}.raw_locations_dwo"), &obs.raw.items, &a.items, input);
            ctx.check_eq(&format!("{tag}.{f}.locations_dwo"), &obs.cooked.items, &b.items, input);
        }
    }
}

fn tail_class(t: &Tail) -> &'static str {
    match t {
        Tail::End => "End",
        Tail::Err(_) => "Err",
        Tail::OpenErr(_) => "OpenErr",
        Tail::Runaway => "Runaway",
    }
}

// ================================================================ stream: table

const VALS: usize = 7;
fn val(k: usize, mask: u64) -> u64 {
    (match k {
        0 => 0,
        1 => 1,
        2 => 2,
        3 => mask >> 1,
        4 => mask.wrapping_sub(2),
        5 => mask.wrapping_sub(1),
        _ => mask,
    }) & mask
}

/// Lengths: the seven values plus mask+1 (when representable) and 2^64-1.
fn len_val(k: usize, mask: u64) -> u64 {
    match k {
        0..=6 => val(k, mask),
        7 => mask.wrapping_add(1),
        _ => u64::MAX,
    }
}

#[derive(Clone, Copy, Debug, PartialEq)]
enum TKind {
    Pair,
    BasePair,
    BasexPair,
    StartxEndx,
    StartxLength,
    OffsetPair,
    BaseOffsetPair,
    StartEnd,
    StartLength,
    Default,
}

fn table_kinds(flavor: Flavor) -> &'static [TKind] {
    use TKind::*;
    match flavor {
        Flavor::Ranges | Flavor::Loc => &[Pair, BasePair],
        Flavor::Rle => &[BasexPair, StartxEndx, StartxLength, OffsetPair, BaseOffsetPair, StartEnd, StartLength],
        Flavor::Lle | Flavor::GnuLle => &[BasexPair, StartxEndx, StartxLength, OffsetPair, BaseOffsetPair, StartEnd, StartLength, Default],
    }
}

fn table_flavors(version: u16) -> &'static [Flavor] {
    if version >= 5 {
        &[Flavor::Rle, Flavor::Lle]
    } else {
        &[Flavor::Ranges, Flavor::Loc, Flavor::GnuLle]
    }
}

fn stream_table(ctx: &mut Ctx) {
    // index = ((enc * 32 + flavour/kind slot) * 8 + base)
    let mut idx = 0u64;
    for (ei, enc) in Enc::all().into_iter().enumerate() {
        let mask = enc.addr_mask();
        // address table: junk (so that addr_base != 0), then the seven values
        let mut at = Asm::new(enc.le);
        at.bytes(&[0xa5; 3]);
        let addr_base = at.len() as u64;
        for k in 0..VALS {
            at.uint(enc.addr as usize, val(k, mask));
        }
        let addr_sec = at.buf;
        for &flavor in table_flavors(enc.version) {
            for &kind in table_kinds(flavor) {
                for bk in 0..g::UNIT_BASES {
                    idx += 1;
                    if !ctx.want("table", idx) {
                        continue;
                    }
                    obs_enc(ctx, enc);
                    let is_loc = flavor.is_loc();
                    let data = |k: usize| if is_loc { Some(vec![0x90u8.wrapping_add(k as u8); k % 3]) } else { None };
                    let second = if matches!(kind, TKind::StartxLength | TKind::StartLength) { 9 } else { VALS };
                    for x in 0..VALS {
                        for y in 0..second {
                            let bv = g::unit_base(bk, mask);
                            // for base+pair kinds the list's own base entry takes the enumerated
                            // value and the unit base is a fixed decoy
                            let (unit_base, items): (u64, Vec<Item>) = match kind {
                                TKind::Pair => {
                                    let (b, e) = (val(x, mask), val(y, mask));
                                    if b == mask || (b == 0 && e == 0) {
                                        continue;
                                    }
                                    (bv, vec![Item::Pair(b, e, data(x + y))])
                                }
                                TKind::BasePair => {
                                    let (b, e) = (val(x, mask), val(y, mask));
                                    if b == mask || (b == 0 && e == 0) {
                                        continue;
                                    }
                                    (0x10 & mask, vec![Item::Base(bv), Item::Pair(b, e, data(x + y))])
                                }
                                TKind::BasexPair => {
                                    // base from the table slot chosen by the base index (mod 7)
                                    (0x10 & mask, vec![Item::Basex((bk % VALS) as u64), Item::OffsetPair(val(x, mask), val(y, mask), data(x + y))])
                                }
                                TKind::StartxEndx => (bv, vec![Item::StartxEndx(x as u64, y as u64, data(x + y))]),
                                TKind::StartxLength => {
                                    let mut l = len_val(y, mask);
                                    if flavor == Flavor::GnuLle {
                                        l &= 0xffff_ffff;
                                    }
                                    (bv, vec![Item::StartxLength(x as u64, l, data(x + y))])
                                }
                                TKind::OffsetPair => (bv, vec![Item::OffsetPair(val(x, mask), val(y, mask), data(x + y))]),
                                TKind::BaseOffsetPair => (0x10 & mask, vec![Item::Base(bv), Item::OffsetPair(val(x, mask), val(y, mask), data(x + y))]),
                                TKind::StartEnd => (bv, vec![Item::StartEnd(val(x, mask), val(y, mask), data(x + y))]),
                                TKind::StartLength => (bv, vec![Item::StartLength(val(x, mask), len_val(y, mask), data(x + y))]),
                                TKind::Default => {
                                    if y != 0 {
                                        continue;
                                    }
                                    (bv, vec![Item::Default(vec![0x50 + x as u8; x])])
                                }
                            };
                            let mut a = Asm::new(enc.le);
                            a.map = false;
                            a.u8(0xee); // list offset 1, unaligned
                            g::encode_list(&mut a, &items, flavor, enc.addr, true, 0);
                            a.u8(0x77); // a byte after the terminator must not be looked at
                            let sec = a.buf;
                            ctx.eval();
                            let d = Direct { enc, flavor, sec: &sec, off: 1, addr_sec: &addr_sec, addr_base, base: unit_base };
                            let input = || json!({"enc": enc.label(), "flavor": flavor.name(), "kind": format!("{kind:?}"), "unit_base": unit_base, "section": hex(&sec), "offset": 1, "debug_addr": hex(&addr_sec), "addr_base": addr_base, "items": format!("{items:?}")});
                            // self-check of the assembler against the model decoder
                            match m::decode(&sec, 1, flavor, enc.le, enc.addr) {
                                Some(dec) if dec.items == items && dec.end == End::EndOfList => {}
                                other => {
                                    ctx.harness_error(&format!("table: model decode disagrees with the assembler: {other:?} vs {items:?}"));
                                    continue;
                                }
                            }
                            let cx = m::ResolveCtx { addr_size: enc.addr, le: enc.le, base: unit_base, debug_addr: &addr_sec, addr_base };
                            let exp = expect_for(&items, End::EndOfList, &cx);
                            obs_stats(ctx, &exp.stats);
                            obs_items(ctx, flavor, &items);
                            let Some(obs) = ctx.guard("table", &input, || run_direct(&d, false)) else { continue };
                            let secondary = gnu_undefined_kinds(flavor, &items);
                            judge_direct(ctx, "table", &d, &exp, &obs, false, secondary, &input);
                            ctx.counted_distinct += 1;
                            if x == 4 && y == 6 && bk == 2 && ei % 16 == 5 {
                                ctx.sample(&format!("table.{}", flavor.name()), || json!({"input": input(), "raw": format!("{:?}", obs.raw.items), "cooked": format!("{:?}", obs.cooked.items), "model": format!("{:?}", exp.cooked)}));
                            }
                        }
                    }
                }
            }
        }
    }
}

// ================================================================ stream: rand

pub struct RandSec {
    pub enc: Enc,
    pub flavor: Flavor,
    pub sec: g::ListSec,
    pub addr: g::AddrTable,
    pub base: u64,
    pub gnu_v5_kinds: bool,
}

pub fn flavor_for(r: &mut Rng, version: u16) -> Flavor {
    if version >= 5 {
        *r.pick(&[Flavor::Rle, Flavor::Lle])
    } else {
        *r.pick(&[Flavor::Ranges, Flavor::Loc, Flavor::GnuLle])
    }
}

pub fn gen_rand_sec(r: &mut Rng, enc: Enc, flavor: Flavor) -> RandSec {
    let mask = enc.addr_mask();
    let n_addr = match r.below(8) {
        0 => 0,
        1 => 1,
        _ => 2 + r.usize(10),
    };
    let entries = g::gen_addr_entries(r, mask, n_addr);
    let layout = r.below(4);
    let addr = g::build_addr_table(r, enc, layout, &entries);
    let base = g::unit_base(r.usize(g::UNIT_BASES), mask);
    let gnu_v5_kinds = flavor == Flavor::GnuLle && r.chance(1, 6);
    let cx = g::ItemCtx { flavor, addr: enc.addr, addrs: &entries, base, gnu_v5_kinds };
    let n_lists = 1 + r.usize(4);
    let mut lists = vec![];
    for _ in 0..n_lists {
        let n = match r.below(10) {
            0 => 0,
            1 => 1,
            2 => 9 + r.usize(22),
            _ => 1 + r.usize(8),
        };
        lists.push((g::gen_items(r, &cx, n), true));
    }
    if r.chance(1, 8) {
        lists.last_mut().unwrap().1 = false;
    }
    let pad = if r.chance(1, 6) { 1 + r.usize(2) } else { 0 };
    let pre = r.usize(3);
    let with_table = r.chance(7, 8);
    let sec = g::build_list_section(r, enc, flavor, &lists, pre, with_table, pad);
    RandSec { enc, flavor, sec, addr, base, gnu_v5_kinds }
}

fn stream_rand(ctx: &mut Ctx) {
    let n = ctx.size(60_000, 800_000, 8);
    for i in 0..n {
        if !ctx.want("rand", i) {
            continue;
        }
        let mut r = ctx.rng("rand", i);
        let enc = Enc::nth(i);
        let flavor = flavor_for(&mut r, enc.version);
        let rs = gen_rand_sec(&mut r, enc, flavor);
        obs_enc(ctx, enc);
        let sec = &rs.sec.bytes;
        let mut nontrivial = false;
        for (li, pl) in rs.sec.lists.iter().enumerate() {
            ctx.eval();
            let input = || json!({"enc": enc.label(), "flavor": flavor.name(), "unit_base": rs.base, "section": hex(sec), "offset": pl.off, "debug_addr": hex(&rs.addr.bytes), "addr_base": rs.addr.base, "items": format!("{:?}", pl.items)});
            let want_end = if pl.terminated { End::EndOfList } else { End::Exhausted };
            match m::decode(sec, pl.off, flavor, enc.le, enc.addr) {
                Some(dec) if dec.items == pl.items && dec.end == want_end => {}
                other => {
                    ctx.harness_error(&format!("rand {i}: model decode disagrees with the assembler: {other:?} vs {:?}", pl.items));
                    continue;
                }
            }
            let cx = m::ResolveCtx { addr_size: enc.addr, le: enc.le, base: rs.base, debug_addr: &rs.addr.bytes, addr_base: rs.addr.base };
            let exp = expect_for(&pl.items, want_end, &cx);
            obs_stats(ctx, &exp.stats);
            obs_items(ctx, flavor, &pl.items);
            nontrivial |= !pl.items.is_empty();
            let d = Direct { enc, flavor, sec, off: pl.off, addr_sec: &rs.addr.bytes, addr_base: rs.addr.base, base: rs.base };
            let Some(obs) = ctx.guard("rand", &input, || run_direct(&d, true)) else { continue };
            let secondary = gnu_undefined_kinds(flavor, &pl.items);
            judge_direct(ctx, "rand", &d, &exp, &obs, true, secondary, &input);
            // index -> offset through the table
            if rs.sec.table_len > 0 {
                let got = ctx.guard("rand.get_offset", &input, || get_offset(enc, flavor, sec, rs.sec.table_base, li as u64));
                if let Some(got) = got {
                    ctx.obs("get_offset.ok");
                    ctx.check_eq(&format!("rand.{}.get_offset", flavor.name()), &Ok(pl.off), &got, &input);
                }
            }
            if i < 64 && li == 0 {
                ctx.sample(&format!("rand.{}", flavor.name()), || json!({"input": input(), "raw": format!("{:?}", obs.raw.items), "cooked": format!("{:?}", obs.cooked.items), "tail": format!("{:?}", obs.cooked.tail)}));
            }
        }
        if nontrivial {
            let mut h = sec.clone();
            h.extend_from_slice(&rs.addr.bytes);
            h.extend_from_slice(&rs.base.to_le_bytes());
            h.push(flavor as u8);
            h.extend_from_slice(enc.label().as_bytes());
            ctx.nontrivial_bytes("rand", &h);
        }
    }
}

/// `get_offset` of the section that belongs to `flavor` (Rle -> RangeLists, Lle -> LocationLists).
pub fn get_offset(enc: Enc, flavor: Flavor, sec: &[u8], base: u64, index: u64) -> Result<u64, String> {
    let e = enc.endian();
    let empty: &[u8] = &[];
    if flavor.is_loc() {
        let ll = gimli::LocationLists::new(gimli::DebugLoc::new(empty, e), gimli::DebugLocLists::new(sec, e));
        ll.get_offset(enc.encoding(), gimli::DebugLocListsBase(base as usize), gimli::DebugLocListsIndex(index as usize)).map(|o| o.0 as u64).map_err(|e| format!("{e:?}"))
    } else {
        let rl = gimli::RangeLists::new(gimli::DebugRanges::new(empty, e), gimli::DebugRngLists::new(sec, e));
        rl.get_offset(enc.encoding(), gimli::DebugRngListsBase(base as usize), gimli::DebugRngListsIndex(index as usize)).map(|o| o.0 as u64).map_err(|e| format!("{e:?}"))
    }
}

// ================================================================ stream: offsets

fn stream_offsets(ctx: &mut Ctx) {
    // a section of 40 bytes with recognisable words; (base, index) over a grid
    let mut idx = 0u64;
    for le in [true, false] {
        for fmt64 in [false, true] {
            for addr in [1u8, 2, 4, 8] {
                let enc = Enc::new(le, fmt64, 5, addr);
                for variant in 0..3u64 {
                    idx += 1;
                    if !ctx.want("offsets", idx) {
                        continue;
                    }
                    obs_enc(ctx, enc);
                    let mut r = ctx.rng("offsets", idx);
                    let len = 40 + r.usize(9);
                    let mut sec = r.bytes(len);
                    if variant == 1 {
                        // small plausible offsets
                        for b in sec.iter_mut() {
                            *b &= 0x03;
                        }
                    } else if variant == 2 {
                        for b in sec.iter_mut() {
                            *b = 0xff;
                        }
                    }
                    let w = enc.word() as u64;
                    let l = len as u64;
                    let mut bases: Vec<u64> = vec![0, 1, 4, 12, 20, l - w, l - w + 1, l - 1, l, l + 1, u64::MAX / 2, u64::MAX - 3, u64::MAX];
                    bases.sort();
                    bases.dedup();
                    let mut indices: Vec<u64> = (0..=(l / w + 1)).collect();
                    indices.extend_from_slice(&[u64::MAX, u64::MAX / w, u64::MAX / w + 1, 1 << 61, 1 << 62, 1 << 63, (1 << 62) + 1, u64::MAX / 8, 0x2000_0000_0000_0001, 0x4000_0000_0000_0001]);
                    for &base in &bases {
                        for &index in &indices {
                            ctx.eval();
                            let input = || json!({"enc": enc.label(), "section": hex(&sec), "base": base, "index": index});
                            // offsets table
                            let exp = m::table_offset(&sec, le, fmt64, base, index);
                            for flavor in [Flavor::Rle, Flavor::Lle] {
                                let Some(got) = ctx.guard("offsets.get_offset", &input, || get_offset(enc, flavor, &sec, base, index)) else { continue };
                                match (exp, &got) {
                                    (Some(e), Ok(g)) if e == *g => ctx.obs("get_offset.ok"),
                                    (None, Err(_)) => ctx.obs("get_offset.err"),
                                    _ => {
                                        ctx.check_eq(&format!("offsets.{}.get_offset", flavor.name()), &format!("{exp:?}"), &format!("{got:?}"), &input);
                                    }
                                }
                            }
                            // address table
                            let exp = m::lookup_addr(&sec, le, addr, base, index);
                            let got = ctx.guard("offsets.get_address", &input, || {
                                let da = gimli::DebugAddr::from(gimli::EndianSlice::new(&sec[..], enc.endian()));
                                da.get_address(addr, gimli::DebugAddrBase(base as usize), gimli::DebugAddrIndex(index as usize)).map_err(|e| format!("{e:?}"))
                            });
                            let Some(got) = got else { continue };
                            match (exp, &got) {
                                (Some(e), Ok(g)) if e == *g => ctx.obs("get_address.ok"),
                                (None, Err(_)) => ctx.obs("get_address.err"),
                                _ => {
                                    ctx.check_eq("offsets.get_address", &format!("{exp:?}"), &format!("{got:?}"), &input);
                                }
                            }
                            ctx.counted_distinct += 1;
                        }
                    }
                }
            }
        }
    }
}

// ================================================================ stream: hostile

/// Read `sec` as `flavor` at `off` and check the invariant plus the differential decode.
fn hostile_one(ctx: &mut Ctx, tag: &str, enc: Enc, flavor: Flavor, sec: &[u8], off: u64, addr_sec: &[u8], addr_base: u64, base: u64, how: &str) {
    ctx.eval();
    let input = || json!({"enc": enc.label(), "flavor": flavor.name(), "unit_base": base, "section": hex(sec), "offset": off, "debug_addr": hex(addr_sec), "addr_base": addr_base, "how": how});
    let d = Direct { enc, flavor, sec, off, addr_sec, addr_base, base };
    let Some(obs) = ctx.guard(tag, &input, || run_direct(&d, true)) else { return };
    let f = flavor.name();
    for (name, s) in [("cooked", Some(&obs.cooked)), ("cooked.Iterator", Some(&obs.cooked_iter)), ("cooked.stepwise", Some(&obs.stepwise)), ("cooked.dwo", obs.cooked_dwo.as_ref())] {
        if let Some(s) = s {
            invariant(ctx, &format!("{tag}.{f}.{name}"), enc.addr, s, &input);
        }
    }
    if obs.raw.tail == Tail::Runaway {
        ctx.fail(&format!("{tag}.{f}.raw.runaway"), "raw iterator yields more entries than the section has bytes", &input);
    }
    // differential: the model's decode of the same bytes
    match m::decode(sec, off, flavor, enc.le, enc.addr) {
        None => {
            judge::<Item>(ctx, &format!("{tag}.{f}.raw"), &[], ExpTail::OpenErr, &obs.raw, &input);
            judge::<m::Res>(ctx, &format!("{tag}.{f}.cooked"), &[], ExpTail::OpenErr, &obs.cooked, &input);
        }
        Some(dec) => {
            ctx.obs("hostile.differential");
            ctx.obs(match dec.end {
                End::Truncated => "hostile.end.truncated",
                End::UnknownKind(_) => "hostile.end.unknown",
                End::BadLeb => "hostile.end.badleb",
                End::Ambiguous => "hostile.end.ambiguous",
                _ => "hostile.end.clean",
            });
            let cx = m::ResolveCtx { addr_size: enc.addr, le: enc.le, base, debug_addr: addr_sec, addr_base };
            let exp = expect_for(&dec.items, dec.end, &cx);
            obs_stats(ctx, &exp.stats);
            obs_items(ctx, flavor, &dec.items);
            let secondary = gnu_undefined_kinds(flavor, &dec.items);
            judge_direct(ctx, tag, &d, &exp, &obs, true, secondary, &input);
            if !dec.items.is_empty() {
                let mut h = sec.to_vec();
                h.extend_from_slice(addr_sec);
                h.extend_from_slice(&off.to_le_bytes());
                h.extend_from_slice(&base.to_le_bytes());
                h.push(flavor as u8);
                h.extend_from_slice(enc.label().as_bytes());
                ctx.nontrivial_bytes("hostile", &h);
            }
        }
    }
}

fn stream_hostile(ctx: &mut Ctx) {
    let n = ctx.size(40_000, 600_000, 8);
    for i in 0..n {
        if !ctx.want("hostile", i) {
            continue;
        }
        let mut r = ctx.rng("hostile", i);
        let enc = Enc::nth(i);
        let flavor = flavor_for(&mut r, enc.version);
        obs_enc(ctx, enc);
        let mask = enc.addr_mask();
        match r.below(5) {
            4 => {
                // the C01 seed sections (written by gimli::write / hand-assembled), mutated
                ctx.obs("hostile.c01seed");
                let secs = if r.chance(1, 2) { crate::gen::seeds::dwarf_seed(enc, &mut r) } else { None };
                let secs = secs.unwrap_or_else(|| crate::gen::seeds::misc_seed(enc, &mut r));
                let id = match flavor {
                    Flavor::Ranges => gimli::SectionId::DebugRanges,
                    Flavor::Rle => gimli::SectionId::DebugRngLists,
                    Flavor::Lle => gimli::SectionId::DebugLocLists,
                    _ => gimli::SectionId::DebugLoc,
                };
                let sec = secs.get(id).to_vec();
                let addr_sec = secs.get(gimli::SectionId::DebugAddr).to_vec();
                let c = mutate::count(sec.len());
                let (mutated, how) = mutate::nth(&sec, r.below(c));
                let base = g::unit_base(r.usize(g::UNIT_BASES), mask);
                let hdr = if flavor == Flavor::Rle || flavor == Flavor::Lle { m::lists_header_size(enc.fmt64) } else { 0 };
                let mut offs = vec![0u64, hdr, r.below(mutated.len() as u64 + 2)];
                // table slots of the v5 seed sections
                for ix in 0..2 {
                    if let Some(o) = m::table_offset(&mutated, enc.le, enc.fmt64, hdr, ix) {
                        offs.push(o);
                    }
                }
                for off in offs {
                    hostile_one(ctx, "hostile", enc, flavor, &mutated, off, &addr_sec, if enc.fmt64 { 16 } else { 8 }, base, &format!("c01 seed: {how}"));
                }
            }
            0 => {
                // random bytes, biased to small kind codes and 0x00/0xff runs
                ctx.obs("hostile.random");
                let len = r.usize(64);
                let mut sec = r.bytes(len);
                for b in sec.iter_mut() {
                    match r.below(6) {
                        0 => *b %= 10,
                        1 => *b = 0xff,
                        2 => *b = 0,
                        3 => *b = 0xfe,
                        _ => {}
                    }
                }
                let alen = r.usize(40);
                let addr_sec = r.bytes(alen);
                let addr_base = r.below(12);
                let base = g::unit_base(r.usize(g::UNIT_BASES), mask);
                for off in [0u64, 1, r.below(len as u64 + 2)] {
                    hostile_one(ctx, "hostile", enc, flavor, &sec, off, &addr_sec, addr_base, base, "random bytes");
                }
            }
            k => {
                let rs = gen_rand_sec(&mut r, enc, flavor);
                let sec = &rs.sec.bytes;
                let (mutated, how) = if k == 1 {
                    ctx.obs("hostile.field");
                    let ms = mutate::field_mutations(sec, &rs.sec.fields, enc.le);
                    if ms.is_empty() {
                        (sec.clone(), "identity".to_string())
                    } else {
                        ms[r.usize(ms.len())].clone()
                    }
                } else {
                    ctx.obs("hostile.mutated");
                    let c = mutate::count(sec.len());
                    mutate::nth(sec, r.below(c))
                };
                // also damage the address table now and then
                let mut addr_sec = rs.addr.bytes.clone();
                if r.chance(1, 4) && !addr_sec.is_empty() {
                    let cut = r.usize(addr_sec.len());
                    addr_sec.truncate(cut);
                }
                for pl in &rs.sec.lists {
                    hostile_one(ctx, "hostile", enc, flavor, &mutated, pl.off, &addr_sec, rs.addr.base, rs.base, &how);
                }
                let off = r.below(mutated.len() as u64 + 2);
                hostile_one(ctx, "hostile", enc, flavor, &mutated, off, &addr_sec, rs.addr.base, rs.base, &how);
            }
        }
    }
}

// ================================================================ stream: enum (short byte strings)

const ALPHABET: [u8; 14] = [0, 1, 2, 3, 4, 5, 6, 7, 8, 9, 0x7f, 0x80, 0xfe, 0xff];

fn stream_enum(ctx: &mut Ctx) {
    // every string of length <= 4 (dbg: <= 3) over ALPHABET, as a list of every flavour with
    // address size 1 and 2, unit base 0 and max-1; .debug_addr = the ALPHABET bytes
    let maxlen = if ctx.dbg() || ctx.slow() { 3 } else { 4 };
    let k = ALPHABET.len() as u64;
    let mut first = 0u64; // index of the first string of the current length
    let mut count = 1u64;
    for len in 0..=maxlen {
        for j in 0..count {
            let idx = first + j;
            if !ctx.want("enum", idx) {
                continue;
            }
            let mut s = Vec::with_capacity(len);
            let mut x = j;
            for _ in 0..len {
                s.push(ALPHABET[(x % k) as usize]);
                x /= k;
            }
            for (version, flavors) in [(4u16, &[Flavor::Ranges, Flavor::Loc, Flavor::GnuLle][..]), (5u16, &[Flavor::Rle, Flavor::Lle][..])] {
                for addr in [1u8, 2] {
                    let enc = Enc::new(idx % 2 == 0, idx % 3 == 0, version, addr);
                    for &flavor in flavors {
                        for base in [0u64, enc.addr_mask() - 1] {
                            hostile_one(ctx, "enum", enc, flavor, &s, 0, &ALPHABET, 1, base, "enumerated");
                        }
                    }
                }
            }
            ctx.counted_distinct += 1;
        }
        first += count;
        count *= k;
    }
}

pub fn run(ctx: &mut Ctx) {
    stream_enum(ctx);
    stream_table(ctx);
    stream_rand(ctx);
    stream_offsets(ctx);
    world::stream_die(ctx);
    world::stream_unit(ctx);
    stream_hostile(ctx);
}

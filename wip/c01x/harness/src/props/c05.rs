//! C05 — CIE/FDE decoding and the three address lookups agree with the section contents.
//!
//! Oracle: the hand assembler's record of what it encoded (`gen::cfi`), the pointer-encoding
//! model over all 256 encoding bytes and the exhaustive-scan lookup (`model::cfi`), and the
//! row interpreter for the rows returned by `unwind_info_for_address`.

use crate::gen::cfi::{aug_strings, build, build_hdr, Built, CieModel, CieParseError, CieSpec, Entry, FdeModel, FdeSpec, HdrSpec, Ins, Item, Kind, SectionSpec};
use crate::model::cfi::{self as m, error_matches, insn_from_gimli, interpret, pe_error_matches, ptr_from_gimli, Bases, CfiError, Insn, Limits, PeErr, Ptr};
use crate::props::c06::obs_row_pub;
use crate::props::PropInfo;
use crate::rt::{hex, Ctx, Rng};
use gimli::{
    BaseAddresses, CieOrFde, CommonInformationEntry, DebugFrame, DwEhPe, EhFrame, EhFrameHdr, EndianSlice, FrameDescriptionEntry, RunTimeEndian, SectionBaseAddresses,
    UnwindContext, UnwindOffset, UnwindSection,
};
use serde_json::{json, Value};

pub fn info() -> PropInfo {
    PropInfo {
        id: "C05",
        level: "exploration",
        rule: "Sections are assembled by gen/cfi.rs (independent of gimli::write) together with a model of every entry. Streams: `enc` = each of the 256 pointer-encoding bytes x 5 roles (CIE personality 'P', FDE address encoding 'R', LSDA encoding 'L', .eh_frame_hdr eh_frame_ptr, .eh_frame_hdr table/count encodings) x the 8 subsets of {section, text, data} bases x address sizes 1/2/4/8 x sign-boundary raw values, both byte orders: accept/reject, the decoded pointer or the specific error; DwEhPe::is_valid_encoding/format/application/is_indirect on all 256 bytes. `aug` = the 65 strings 'z' + permutation of a subset of LPRS and 16 malformed strings x CIE version 1/3/4 (and unknown versions) x .debug_frame/.eh_frame x 32/64-bit entries with boundary factors, return registers, v4 address/segment sizes: every accessor of the CIE and of an FDE bound to it, instruction streams decoded back. `sec` = random well-formed sections with 1-8 CIEs and 0-40 FDEs in any order (shared and interleaved CIEs, forward CIE references in .debug_frame), disjoint ranges, zero-length entries, terminators followed by unreachable junk; iteration, FDE->CIE binding (get_cie callback offset), *_from_offset at every entry, and at start-1/start/start+1/end-1/end/end+1 of every FDE, 0 and the address mask: fde_for_address (linear), unwind_info_for_address (rows from model::cfi), FrameDescriptionEntry::contains and, for .eh_frame, EhHdrTable::{iter,nth,lookup,pointer_to_offset,fde_for_address,unwind_info_for_address} with table encodings {u,s}data{2,4,8} x {abs,pcrel,datarel,textrel} against an exhaustive scan. A case is non-trivial when the section has at least one CIE; enumerated cases are distinct by construction, random ones are de-duplicated by section digest.",
        assumptions: &[
            "generated FDE ranges never overlap and never wrap past the top of the address space; the .eh_frame_hdr table is sorted by decoded initial location as the format requires",
            "DW_EH_PE_omit where a pointer is required (personality, FDE addresses under 'R', LSDA under 'L', eh_frame_ptr) is an error (CannotParseOmitPointerEncoding), DW_EH_PE_aligned is UnsupportedPointerEncoding (pinned tree, Appendix A.5)",
            "an augmentation string 'S' without 'z' is accepted (signal frame); an FDE of a CIE with a non-empty augmentation string carries an augmentation-data length",
            "under an 'R' encoding the FDE's address range is the raw value of the encoding's format (no base, sign-extended for signed formats)",
            "the address size for .eh_frame and pre-v4 .debug_frame is the one given to the section",
            "indirect .eh_frame_hdr table encodings are only required not to produce a successful lookup",
        ],
        exhaustive_subspaces: &[
            "all 256 DW_EH_PE bytes x 5 roles x 8 base subsets x 4 address sizes",
            "all 65 augmentation strings 'z'+permutation of subset of LPRS x 3 versions x 2 section kinds x 2 entry formats",
        ],
        must_observe: &[
            "enc.role.P", "enc.role.R", "enc.role.L", "enc.role.hdr_ptr", "enc.role.hdr_table",
            "enc.accept", "enc.reject.unknown", "enc.reject.omit", "enc.reject.nobase", "enc.reject.aligned", "enc.indirect",
            "enc.is_valid_encoding",
            "aug.ok", "aug.reject", "aug.v1", "aug.v3", "aug.v4", "aug.v4.addr_size", "aug.fmt64", "aug.all65",
            "sec.debug_frame", "sec.eh_frame", "sec.zero_length", "sec.terminator", "sec.junk_after_terminator", "sec.fmt64_entry", "sec.forward_cie", "sec.shared_cie",
            "iter.cie", "iter.fde", "bind.callback", "from_offset.cie", "from_offset.fde", "from_offset.wrong_kind",
            "lookup.linear.hit", "lookup.linear.miss", "lookup.unwind.hit", "lookup.unwind.miss",
            "hdr.lookup", "hdr.fde_for_address.hit", "hdr.fde_for_address.miss", "hdr.unwind.hit", "hdr.pointer_to_offset", "hdr.iter", "hdr.nth",
            "hdr.enc.udata2", "hdr.enc.sdata2", "hdr.enc.udata4", "hdr.enc.sdata4", "hdr.enc.udata8", "hdr.enc.sdata8", "hdr.app.abs", "hdr.app.pcrel", "hdr.app.datarel",
            "hdr.entries.1", "hdr.entries.40", "hdr.version.unknown",
            "addr.1", "addr.2", "addr.4", "addr.8",
        ],
        run,
    }
}

type Rd<'a> = EndianSlice<'a, RunTimeEndian>;

fn endian(le: bool) -> RunTimeEndian {
    if le {
        RunTimeEndian::Little
    } else {
        RunTimeEndian::Big
    }
}

fn gimli_bases(eh: &Bases, hdr: &Bases) -> BaseAddresses {
    BaseAddresses {
        eh_frame_hdr: SectionBaseAddresses { section: hdr.section, text: hdr.text, data: hdr.data },
        eh_frame: SectionBaseAddresses { section: eh.section, text: eh.text, data: eh.data },
    }
}

fn spec_json(spec: &SectionSpec, built: &Built) -> Value {
    json!({
        "kind": format!("{:?}", spec.kind), "le": spec.le, "addr_size": spec.addr_size, "bases": format!("{:?}", spec.bases),
        "items": spec.items.iter().map(|i| format!("{:?}", i)).collect::<Vec<_>>(),
        "section": hex(&built.bytes),
    })
}

macro_rules! eq {
    ($ctx:expr, $sig:expr, $want:expr, $got:expr, $input:expr) => {
        $ctx.check_eq($sig, &$want, &$got, $input)
    };
}

fn cie_parse_error_matches(m: &CieParseError, g: &gimli::Error) -> bool {
    use gimli::Error as E;
    match (m, g) {
        (CieParseError::UnknownVersion(v), E::UnknownVersion(w)) => *v as u64 == *w,
        (CieParseError::UnknownAugmentation, E::UnknownAugmentation) => true,
        (CieParseError::Pe(p), g) => pe_error_matches(p, g),
        (CieParseError::UnsupportedRegister(r), E::UnsupportedRegister(s)) => r == s,
        (CieParseError::UnsupportedSegmentSize(a), E::UnsupportedSegmentSize(b)) => a == b,
        (CieParseError::UnsupportedAddressSize(a), E::UnsupportedAddressSize(b)) => a == b,
        _ => false,
    }
}

/// Decode an instruction stream with gimli; `Err` terminates the list.
fn decode_insns<'a, Sec: UnwindSection<Rd<'a>>>(mut it: gimli::CallFrameInstructionIter<'_, Rd<'a>>, _sec: &Sec, cap: usize) -> (Vec<Insn>, Option<gimli::Error>) {
    let mut v = vec![];
    loop {
        match it.next() {
            Ok(Some(i)) => {
                v.push(insn_from_gimli(&i));
                if v.len() > cap {
                    return (v, None);
                }
            }
            Ok(None) => return (v, None),
            Err(e) => return (v, Some(e)),
        }
    }
}

/// Compare every accessor of a parsed CIE with the model.
fn check_cie<'a, Sec: UnwindSection<Rd<'a>>>(ctx: &mut Ctx, tag: &str, cie: &CommonInformationEntry<Rd<'a>>, mc: &CieModel, sec: &Sec, bases: &BaseAddresses, input: &dyn Fn() -> Value) {
    eq!(ctx, &format!("{tag}.cie.offset"), mc.offset as usize, cie.offset(), input);
    eq!(ctx, &format!("{tag}.cie.entry_len"), mc.length as usize, cie.entry_len(), input);
    eq!(ctx, &format!("{tag}.cie.version"), mc.version, cie.version(), input);
    let enc = cie.encoding();
    eq!(ctx, &format!("{tag}.cie.encoding.format"), mc.fmt64, enc.format == gimli::Format::Dwarf64, input);
    eq!(ctx, &format!("{tag}.cie.encoding.version"), mc.version as u16, enc.version, input);
    eq!(ctx, &format!("{tag}.cie.encoding.address_size"), mc.addr_size, enc.address_size, input);
    eq!(ctx, &format!("{tag}.cie.address_size"), mc.addr_size, cie.address_size(), input);
    eq!(ctx, &format!("{tag}.cie.augmentation.is_some"), !mc.aug.is_empty(), cie.augmentation().is_some(), input);
    eq!(ctx, &format!("{tag}.cie.has_lsda"), mc.lsda_enc.is_some(), cie.has_lsda(), input);
    eq!(ctx, &format!("{tag}.cie.lsda_encoding"), mc.lsda_enc, cie.lsda_encoding().map(|e| e.0), input);
    let pers: Option<(u8, Ptr)> = mc.personality.clone().and_then(|(e, p)| p.ok().map(|p| (e, p)));
    eq!(ctx, &format!("{tag}.cie.personality_with_encoding"), pers, cie.personality_with_encoding().map(|(e, p)| (e.0, ptr_from_gimli(p))), input);
    eq!(ctx, &format!("{tag}.cie.personality"), pers.map(|(_, p)| p), cie.personality().map(ptr_from_gimli), input);
    eq!(ctx, &format!("{tag}.cie.fde_address_encoding"), mc.fde_enc, cie.fde_address_encoding().map(|e| e.0), input);
    eq!(ctx, &format!("{tag}.cie.is_signal_trampoline"), mc.signal, cie.is_signal_trampoline(), input);
    eq!(ctx, &format!("{tag}.cie.code_alignment_factor"), mc.code_align, cie.code_alignment_factor(), input);
    eq!(ctx, &format!("{tag}.cie.data_alignment_factor"), mc.data_align, cie.data_alignment_factor(), input);
    eq!(ctx, &format!("{tag}.cie.return_address_register"), mc.ra, cie.return_address_register().0 as u64, input);
    let (ins, err) = decode_insns(cie.instructions(sec, bases), sec, mc.insns.len() + 4);
    check_insns(ctx, &format!("{tag}.cie.instructions"), &mc.insns, &ins, &err, input);
}

fn check_insns(ctx: &mut Ctx, sig: &str, want: &[Insn], got: &[Insn], err: &Option<gimli::Error>, input: &dyn Fn() -> Value) {
    // the model list may end in an Invalid instruction: then decoding must stop with that error
    let mut want_ok: Vec<Insn> = vec![];
    let mut want_err: Option<CfiError> = None;
    for i in want {
        match i {
            Insn::Invalid(e) => {
                want_err = Some(e.clone());
                break;
            }
            Insn::SetLoc(Err(e)) => {
                want_err = Some(CfiError::Pe(e.clone()));
                break;
            }
            other => want_ok.push(other.clone()),
        }
    }
    eq!(ctx, sig, want_ok, got.to_vec(), input);
    match (&want_err, err) {
        (None, None) => {}
        (Some(w), Some(g)) if error_matches(w, g) => {}
        (w, g) => {
            ctx.fail(&format!("{sig}.error"), &format!("instruction decoding: expected error {w:?} observed {g:?}"), input);
        }
    }
}

/// Compare every accessor of a parsed FDE with the model.
fn check_fde<'a, Sec: UnwindSection<Rd<'a>>>(ctx: &mut Ctx, tag: &str, fde: &FrameDescriptionEntry<Rd<'a>>, mf: &FdeModel, built: &Built, sec: &Sec, bases: &BaseAddresses, input: &dyn Fn() -> Value) {
    let mc = built.cie_of(mf);
    eq!(ctx, &format!("{tag}.fde.offset"), mf.offset as usize, fde.offset(), input);
    eq!(ctx, &format!("{tag}.fde.entry_len"), mf.length as usize, fde.entry_len(), input);
    let init = mf.initial.clone().unwrap_or(0);
    eq!(ctx, &format!("{tag}.fde.initial_address"), init, fde.initial_address(), input);
    eq!(ctx, &format!("{tag}.fde.len"), mf.range, fde.len(), input);
    eq!(ctx, &format!("{tag}.fde.end_address"), mf.end, fde.end_address(), input);
    let lsda: Option<Ptr> = mf.lsda.clone().and_then(|r| r.ok());
    eq!(ctx, &format!("{tag}.fde.lsda"), lsda, fde.lsda().map(ptr_from_gimli), input);
    eq!(ctx, &format!("{tag}.fde.is_signal_trampoline"), mc.signal, fde.is_signal_trampoline(), input);
    let pers: Option<Ptr> = mc.personality.clone().and_then(|(_, p)| p.ok());
    eq!(ctx, &format!("{tag}.fde.personality"), pers, fde.personality().map(ptr_from_gimli), input);
    // binding: the CIE inside the FDE is the designated one
    check_cie(ctx, &format!("{tag}.fde"), fde.cie(), mc, sec, bases, input);
    let (ins, err) = decode_insns(fde.instructions(sec, bases), sec, mf.insns.len() + 4);
    check_insns(ctx, &format!("{tag}.fde.instructions"), &mf.insns, &ins, &err, input);
    // contains at the boundaries
    for a in [init.wrapping_sub(1), init, mf.end.wrapping_sub(1), mf.end] {
        let want = init <= a && a < mf.end;
        eq!(ctx, &format!("{tag}.fde.contains"), want, fde.contains(a), input);
    }
}

/// What parsing the FDE must report when it cannot succeed.
fn fde_parse_error(mf: &FdeModel) -> Option<PeErr> {
    if let Err(e) = &mf.initial {
        return Some(e.clone());
    }
    if let Some(Err(e)) = &mf.lsda {
        return Some(e.clone());
    }
    None
}

/// Iterate the section and compare every entry; also binding and *_from_offset.
fn check_section<'a, Sec>(ctx: &mut Ctx, tag: &str, sec: &Sec, spec: &SectionSpec, built: &'a Built, bases: &BaseAddresses, deep: bool)
where
    Sec: UnwindSection<Rd<'a>>,
    Sec::Offset: UnwindOffset<usize>,
{
    let input = || spec_json(spec, built);
    let input: &dyn Fn() -> Value = &input;
    ctx.eval();
    // the real walk (outside one big guard so that check_* can use ctx); each gimli call is
    // cheap and panics are captured per step
    let mut it = sec.entries(bases);
    let mut k = 0usize;
    loop {
        let step = match crate::rt::capture(|| it.next()) {
            Ok(s) => s,
            Err(p) => {
                ctx.report_panic("CfiEntriesIter::next", &p, input);
                return;
            }
        };
        let want = if k < built.reachable { built.entries.get(k) } else { None };
        match (step, want) {
            (Ok(None), None) => break,
            (Ok(None), Some(e)) => {
                // a CIE that must fail to parse would have produced Err, so this is a miss
                ctx.fail(&format!("{tag}.iter.missing"), &format!("iteration ended before entry {k} at offset {:#x}", e.offset()), input);
                return;
            }
            (Ok(Some(_)), None) => {
                ctx.fail(&format!("{tag}.iter.extra"), &format!("iteration yielded an entry after the {} reachable ones", built.reachable), input);
                return;
            }
            (Err(e), None) => {
                ctx.fail(&format!("{tag}.iter.error"), &format!("iteration failed with {e:?} after all {} entries", built.reachable), input);
                return;
            }
            (Err(e), Some(Entry::Cie(mc))) => {
                match &mc.parse_error {
                    Some(w) if cie_parse_error_matches(w, &e) => {
                        ctx.obs("iter.cie.rejected");
                    }
                    w => ctx.fail(&format!("{tag}.iter.cie.error"), &format!("CIE at {:#x}: expected {w:?} observed Err({e:?})", mc.offset), input),
                }
                return; // iteration stops at the first error
            }
            (Err(e), Some(Entry::Fde(mf))) => {
                ctx.fail(&format!("{tag}.iter.fde.error"), &format!("FDE at {:#x}: iteration failed with {e:?}", mf.offset), input);
                return;
            }
            (Ok(Some(CieOrFde::Cie(cie))), Some(Entry::Cie(mc))) => {
                ctx.obs("iter.cie");
                if let Some(w) = &mc.parse_error {
                    ctx.fail(&format!("{tag}.iter.cie.accepted"), &format!("CIE at {:#x} must be rejected with {w:?} but was parsed", mc.offset), input);
                    return;
                }
                let r = crate::rt::capture(|| check_cie(ctx, tag, &cie, mc, sec, bases, input));
                if let Err(p) = r {
                    ctx.report_panic("CommonInformationEntry accessors", &p, input);
                }
            }
            (Ok(Some(CieOrFde::Fde(partial))), Some(Entry::Fde(mf))) => {
                ctx.obs("iter.fde");
                let r = crate::rt::capture(|| {
                    eq!(ctx, &format!("{tag}.partial.offset"), mf.offset as usize, partial.offset(), input);
                    eq!(ctx, &format!("{tag}.partial.entry_len"), mf.length as usize, partial.entry_len(), input);
                    let co: usize = UnwindOffset::into(partial.cie_offset());
                    eq!(ctx, &format!("{tag}.partial.cie_offset"), mf.cie_offset as usize, co, input);
                    // binding: the callback receives the designated offset
                    let mut asked: Vec<usize> = vec![];
                    let parsed = partial.parse(|s, b, o| {
                        asked.push(UnwindOffset::into(o));
                        s.cie_from_offset(b, o)
                    });
                    ctx.obs("bind.callback");
                    eq!(ctx, &format!("{tag}.bind.callback_offsets"), vec![mf.cie_offset as usize], asked, input);
                    let mc = built.cie_of(mf);
                    match (parsed, &mc.parse_error, fde_parse_error(mf)) {
                        (Ok(fde), None, None) => check_fde(ctx, tag, &fde, mf, built, sec, bases, input),
                        (Err(e), Some(w), _) if cie_parse_error_matches(w, &e) => {}
                        (Err(e), None, Some(w)) if pe_error_matches(&w, &e) => ctx.obs("fde.rejected"),
                        (got, w1, w2) => {
                            ctx.fail(&format!("{tag}.fde.parse"), &format!("FDE at {:#x}: expected cie error {w1:?} / fde error {w2:?}, observed {:?}", mf.offset, got.map(|f| f.initial_address())), input);
                        }
                    }
                });
                if let Err(p) = r {
                    ctx.report_panic("PartialFrameDescriptionEntry::parse", &p, input);
                }
            }
            (Ok(Some(got)), Some(want)) => {
                let g = match got {
                    CieOrFde::Cie(_) => "CIE",
                    CieOrFde::Fde(_) => "FDE",
                };
                ctx.fail(&format!("{tag}.iter.kind"), &format!("entry {k} at {:#x}: model {} but gimli reports {g}", want.offset(), if matches!(want, Entry::Cie(_)) { "CIE" } else { "FDE" }), input);
                return;
            }
        }
        k += 1;
        if k > built.entries.len() + 2 {
            ctx.fail(&format!("{tag}.iter.runaway"), "iteration does not end", input);
            return;
        }
    }
    // fused
    if let Ok(Ok(Some(_))) | Ok(Err(_)) = crate::rt::capture(|| it.next()) {
        ctx.fail(&format!("{tag}.iter.not_fused"), "next() after the end yielded something", input);
    }
    if !deep {
        return;
    }
    // *_from_offset at every entry (also the ones behind a terminator: they are addressable)
    for e in &built.entries {
        let off = e.offset() as usize;
        let r = crate::rt::capture(|| {
            ctx.eval();
            let c = sec.cie_from_offset(bases, Sec::Offset::from(off));
            let p = sec.partial_fde_from_offset(bases, Sec::Offset::from(off));
            let f = sec.fde_from_offset(bases, Sec::Offset::from(off), Sec::cie_from_offset);
            match e {
                Entry::Cie(mc) => {
                    ctx.obs("from_offset.cie");
                    match (&c, &mc.parse_error) {
                        (Ok(cie), None) => check_cie(ctx, &format!("{tag}.from_offset"), cie, mc, sec, bases, input),
                        (Err(g), Some(w)) if cie_parse_error_matches(w, g) => {}
                        (g, w) => ctx.fail(&format!("{tag}.cie_from_offset"), &format!("cie_from_offset({off:#x}): expected {w:?} observed {:?}", g.as_ref().map(|c| c.offset())), input),
                    }
                    ctx.obs("from_offset.wrong_kind");
                    if !matches!(p, Err(gimli::Error::NotCiePointer(o)) if o == off as u64) {
                        ctx.fail(&format!("{tag}.partial_fde_from_offset.at_cie"), &format!("partial_fde_from_offset at a CIE ({off:#x}): expected NotCiePointer observed {:?}", p.map(|p| p.offset())), input);
                    }
                    if !matches!(f, Err(gimli::Error::NotCiePointer(o)) if o == off as u64) {
                        ctx.fail(&format!("{tag}.fde_from_offset.at_cie"), &format!("fde_from_offset at a CIE ({off:#x}): expected NotCiePointer observed {:?}", f.map(|p| p.offset())), input);
                    }
                }
                Entry::Fde(mf) => {
                    ctx.obs("from_offset.fde");
                    if !matches!(c, Err(gimli::Error::NotCieId(o)) if o == off as u64) {
                        ctx.fail(&format!("{tag}.cie_from_offset.at_fde"), &format!("cie_from_offset at an FDE ({off:#x}): expected NotCieId observed {:?}", c.map(|p| p.offset())), input);
                    }
                    match &p {
                        Ok(p) => {
                            let co: usize = UnwindOffset::into(p.cie_offset());
                            eq!(ctx, &format!("{tag}.from_offset.partial.cie_offset"), mf.cie_offset as usize, co, input);
                            eq!(ctx, &format!("{tag}.from_offset.partial.offset"), off, p.offset(), input);
                        }
                        Err(g) => ctx.fail(&format!("{tag}.partial_fde_from_offset"), &format!("partial_fde_from_offset({off:#x}) failed: {g:?}"), input),
                    }
                    let mc = built.cie_of(mf);
                    match (f, &mc.parse_error, fde_parse_error(mf)) {
                        (Ok(fde), None, None) => check_fde(ctx, &format!("{tag}.from_offset"), &fde, mf, built, sec, bases, input),
                        (Err(g), Some(w), _) if cie_parse_error_matches(w, &g) => {}
                        (Err(g), None, Some(w)) if pe_error_matches(&w, &g) => {}
                        (g, w1, w2) => ctx.fail(&format!("{tag}.fde_from_offset"), &format!("fde_from_offset({off:#x}): expected {w1:?}/{w2:?} observed {:?}", g.map(|f| f.initial_address())), input),
                    }
                }
            }
        });
        if let Err(p) = r {
            ctx.report_panic("UnwindSection::*_from_offset", &p, input);
        }
    }
}

fn with_sec<'a>(ctx: &mut Ctx, tag: &str, spec: &SectionSpec, built: &'a Built, hdr_bases: &Bases, deep: bool) {
    let bases = gimli_bases(&spec.bases, hdr_bases);
    ctx.obs(&format!("addr.{}", spec.addr_size));
    match spec.kind {
        Kind::DebugFrame => {
            let mut sec = DebugFrame::new(&built.bytes, endian(spec.le));
            sec.set_address_size(spec.addr_size);
            check_section(ctx, tag, &sec, spec, built, &bases, deep);
        }
        Kind::EhFrame => {
            let mut sec = EhFrame::new(&built.bytes, endian(spec.le));
            sec.set_address_size(spec.addr_size);
            check_section(ctx, tag, &sec, spec, built, &bases, deep);
        }
    }
}

// ---------------------------------------------------------------- stream enc: all 256 bytes

fn bases_subset(k: u64) -> Bases {
    Bases {
        section: if k & 1 != 0 { Some(0x4000) } else { None },
        text: if k & 2 != 0 { Some(0x100) } else { None },
        data: if k & 4 != 0 { Some(0xfff0) } else { None },
        func: None,
    }
}

fn classify_pe(ctx: &mut Ctx, r: &Result<Ptr, PeErr>) {
    match r {
        Ok(Ptr::Direct(_)) => ctx.obs("enc.accept"),
        Ok(Ptr::Indirect(_)) => {
            ctx.obs("enc.accept");
            ctx.obs("enc.indirect")
        }
        Err(PeErr::Unknown(_)) => ctx.obs("enc.reject.unknown"),
        Err(PeErr::Omit) => ctx.obs("enc.reject.omit"),
        Err(PeErr::NoSectionBase) | Err(PeErr::NoTextBase) | Err(PeErr::NoDataBase) | Err(PeErr::NoFuncBase) => ctx.obs("enc.reject.nobase"),
        Err(PeErr::Unsupported(_)) => ctx.obs("enc.reject.aligned"),
        _ => ctx.obs("enc.reject.other"),
    }
}

const RAW_VALUES: [u64; 18] = [
    0, 1, 0x7f, 0x80, 0xff, 0x7fff, 0x8000, 0xffff, 0x7fff_ffff, 0x8000_0000, 0xffff_ffff, 0x1_0000_0000, 0x7fff_ffff_ffff_ffff, 0x8000_0000_0000_0000, 0xffff_ffff_ffff_ffff, 0x1234, 0xfedc_ba98, 0xffff_ffff_ffff_fffe,
];

fn enc_stream(ctx: &mut Ctx) {
    // constants API on every byte
    if ctx.want("encapi", 0) {
        for e in 0..256u32 {
            let e = e as u8;
            ctx.eval();
            ctx.obs("enc.is_valid_encoding");
            let input = || json!({"encoding_byte": e});
            let r = crate::rt::capture(|| {
                let d = DwEhPe(e);
                (d.is_valid_encoding(), d.format().0, d.application().0, d.is_indirect(), d.is_absent())
            });
            match r {
                Ok(got) => {
                    eq!(ctx, "DwEhPe.is_valid_encoding", m::pe_is_valid(e), got.0, &input);
                    eq!(ctx, "DwEhPe.format", e & 0x0f, got.1, &input);
                    eq!(ctx, "DwEhPe.application", e & 0x70, got.2, &input);
                    eq!(ctx, "DwEhPe.is_indirect", e & 0x80 != 0, got.3, &input);
                    eq!(ctx, "DwEhPe.is_absent", e == 0xff, got.4, &input);
                }
                Err(p) => ctx.report_panic("DwEhPe", &p, &input),
            }
            ctx.counted_distinct += 1;
        }
    }
    const V: u64 = 5 * 8 * 4 * 2;
    for e in 0..256u64 {
        for v in 0..V {
            let i = e * V + v;
            if !ctx.want("enc", i) {
                continue;
            }
            let enc = e as u8;
            let role = v % 5;
            let bsub = (v / 5) % 8;
            let addr_size = [1u8, 2, 4, 8][((v / 40) % 4) as usize];
            let mut r = ctx.rng("enc", i);
            let le = r.bool();
            let raw = if r.chance(3, 4) { *r.pick(&RAW_VALUES) } else { r.boundary() };
            let raw2 = *r.pick(&RAW_VALUES);
            let bases = bases_subset(bsub);
            ctx.counted_distinct += 1;
            match role {
                0 | 1 | 2 => {
                    // P / R / L in an .eh_frame (or .debug_frame) CIE + one FDE
                    let kind = if r.chance(1, 4) { Kind::DebugFrame } else { Kind::EhFrame };
                    let aug: &[u8] = match role {
                        0 => b"zP",
                        1 => b"zR",
                        _ => b"zL",
                    };
                    ctx.obs(match role {
                        0 => "enc.role.P",
                        1 => "enc.role.R",
                        _ => "enc.role.L",
                    });
                    let cie = CieSpec {
                        version: *r.pick(&[1u8, 3, 4]),
                        aug: aug.to_vec(),
                        v4_addr_size: addr_size,
                        pers_enc: enc,
                        pers_target: raw,
                        fde_enc: enc,
                        lsda_enc: enc,
                        fmt64: r.chance(1, 5),
                        insns: vec![Ins::DefCfa(7, 8)],
                        pad_nops: r.usize(3),
                        ..CieSpec::default()
                    };
                    // for L the function base is the initial address (plain address here)
                    let fde = FdeSpec { cie: 0, initial: if role == 1 { raw } else { raw2 & m::addr_mask(addr_size) }, range: if role == 1 { raw2 } else { 0x10 }, lsda_target: raw, insns: vec![Ins::AdvanceLoc(1)], pad_nops: r.usize(3), ..FdeSpec::default() };
                    let mut items = vec![Item::Cie(cie), Item::Fde(fde)];
                    if kind == Kind::EhFrame {
                        items.push(Item::ZeroLength { fmt64: false });
                    }
                    let spec = SectionSpec { kind, le, addr_size, aarch64: false, bases, raw_pointers: true, items };
                    let built = build(&spec);
                    // classification for the evidence
                    match (&built.entries[0], &built.entries[1]) {
                        (Entry::Cie(c), Entry::Fde(f)) => {
                            let res: Result<Ptr, PeErr> = match role {
                                0 => c.personality.clone().map(|(_, p)| p).unwrap_or(Err(PeErr::Unknown(enc))),
                                1 => match &c.parse_error {
                                    Some(CieParseError::Pe(e)) => Err(e.clone()),
                                    _ => f.initial.clone().map(Ptr::Direct),
                                },
                                _ => match &c.parse_error {
                                    Some(CieParseError::Pe(e)) => Err(e.clone()),
                                    _ => f.lsda.clone().unwrap_or(Err(PeErr::Eof)),
                                },
                            };
                            classify_pe(ctx, &res);
                        }
                        _ => {}
                    }
                    with_sec(ctx, "enc", &spec, &built, &Bases::default(), v % 2 == 0);
                }
                _ => {
                    // .eh_frame_hdr: 3 = eh_frame_ptr, 4 = table encoding (and count encoding)
                    ctx.obs(if role == 3 { "enc.role.hdr_ptr" } else { "enc.role.hdr_table" });
                    let hb = Bases { section: bases.section, text: bases.text, data: bases.data, func: None };
                    let count_enc = if role == 4 && r.chance(1, 2) { enc } else { *r.pick(&[0x03u8, 0x01, 0x04, 0x02, 0x0b]) };
                    let hs = HdrSpec {
                        le,
                        addr_size,
                        version: if r.chance(1, 24) { r.next() as u8 } else { 1 },
                        eh_frame_ptr_enc: if role == 3 { enc } else { 0x03 },
                        fde_count_enc: count_enc,
                        table_enc: if role == 4 { enc } else { 0x03 },
                        eh_frame_addr: raw,
                        entries: vec![(raw2 & 0xffff, 0x10), (raw & 0xff, 0x20)],
                        bases: hb,
                    };
                    hdr_enc_case(ctx, &hs, role == 3);
                }
            }
        }
    }
}

/// Parse a header whose encodings may be anything; compare with the model.
fn hdr_enc_case(ctx: &mut Ctx, hs: &HdrSpec, ptr_role: bool) {
    // raw mode: rebuild with raw values by giving the builder unrepresentable fallbacks is
    // not needed: whatever bytes were emitted, the model decodes them.
    let hb = build_hdr(hs);
    let bases = gimli_bases(&Bases::default(), &hs.bases);
    let input = || json!({"hdr_spec": format!("{:?}", hs), "hdr": hex(&hb.bytes)});
    ctx.eval();
    let hdr = EhFrameHdr::new(&hb.bytes, endian(hs.le));
    let Some(parsed) = ctx.guard("EhFrameHdr::parse", &input, || hdr.parse(&bases, hs.addr_size)) else { return };
    if hs.version != 1 {
        ctx.obs("hdr.version.unknown");
        if !matches!(parsed, Err(gimli::Error::UnknownVersion(v)) if v == hs.version as u64) {
            ctx.fail("hdr.parse.version", &format!("EhFrameHdr::parse: version {} must be rejected with UnknownVersion, observed {:?}", hs.version, parsed.map(|p| p.eh_frame_ptr())), &input);
        }
        return;
    }
    // expected outcome of parse(): encodings are validated in order, then eh_frame_ptr, then count
    let want_err: Option<PeErr> = if !m::pe_is_valid(hs.eh_frame_ptr_enc) {
        Some(PeErr::Unknown(hs.eh_frame_ptr_enc))
    } else if !m::pe_is_valid(hs.fde_count_enc) {
        Some(PeErr::Unknown(hs.fde_count_enc))
    } else if !m::pe_is_valid(hs.table_enc) {
        Some(PeErr::Unknown(hs.table_enc))
    } else if let Err(e) = &hb.eh_frame_ptr {
        Some(e.clone())
    } else {
        hb.count_error.clone()
    };
    if ptr_role {
        classify_pe(ctx, &match &want_err {
            Some(e) => Err(e.clone()),
            None => hb.eh_frame_ptr.clone(),
        });
    }
    match (parsed, &want_err) {
        (Err(g), Some(w)) if pe_error_matches(w, &g) => {}
        (Err(g), w) => {
            // a count that does not decode (LEB over-long etc.) cannot happen: the builder emits valid values
            ctx.fail("hdr.parse.error", &format!("EhFrameHdr::parse: expected {w:?} observed Err({g:?})"), &input);
        }
        (Ok(_), Some(w)) => ctx.fail("hdr.parse.accepted", &format!("EhFrameHdr::parse: expected Err({w:?}) but it succeeded"), &input),
        (Ok(p), None) => {
            let r = crate::rt::capture(|| {
                eq!(ctx, "hdr.eh_frame_ptr", hb.eh_frame_ptr.clone().ok(), Some(ptr_from_gimli(p.eh_frame_ptr())), &input);
                let table = p.table();
                eq!(ctx, "hdr.table.is_some", hb.fde_count != 0, table.is_some(), &input);
                if let Some(t) = table {
                    // iterate: every entry decodes as the model says (first error ends it)
                    let mut it = t.iter(&bases);
                    let mut k = 0usize;
                    loop {
                        let got = it.next();
                        let want = hb.table.get(k);
                        match (got, want) {
                            (Ok(None), None) => break,
                            (Ok(Some((a, b))), Some(Ok((wa, wb)))) => {
                                if !ptr_role {
                                    classify_pe(ctx, &Ok(*wa));
                                }
                                eq!(ctx, "hdr.iter.entry", (*wa, *wb), (ptr_from_gimli(a), ptr_from_gimli(b)), &input);
                            }
                            (Err(g), Some(Err(w))) => {
                                if !ptr_role {
                                    classify_pe(ctx, &Err(w.clone()));
                                }
                                if !pe_error_matches(w, &g) {
                                    ctx.fail("hdr.iter.error", &format!("table entry {k}: expected Err({w:?}) observed Err({g:?})"), &input);
                                }
                                break;
                            }
                            (g, w) => {
                                ctx.fail("hdr.iter.mismatch", &format!("table entry {k}: expected {w:?} observed {g:?}"), &input);
                                break;
                            }
                        }
                        k += 1;
                        if k > 64 {
                            break;
                        }
                    }
                }
            });
            if let Err(pn) = r {
                ctx.report_panic("ParsedEhFrameHdr", &pn, &input);
            }
        }
    }
}

// ---------------------------------------------------------------- stream aug

const BAD_AUGS: [&[u8]; 16] = [b"L", b"P", b"R", b"zz", b"zLz", b"zX", b"eh", b"zPLRSX", b"S", b"SL", b"Sz", b"zSS", b"zLL", b"z\x01", b"armcc+", b"zRz"];

fn aug_stream(ctx: &mut Ctx) {
    let mut augs: Vec<Vec<u8>> = aug_strings();
    let n_good = augs.len() as u64;
    augs.push(vec![]);
    for b in BAD_AUGS {
        augs.push(b.to_vec());
    }
    let versions = [1u8, 3, 4, 0, 2, 5];
    let mut idx = 0u64;
    for (ai, aug) in augs.iter().enumerate() {
        for (vi, &version) in versions.iter().enumerate() {
            for kind in [Kind::DebugFrame, Kind::EhFrame] {
                for fmt64 in [false, true] {
                    for rep in 0..3u64 {
                        let i = idx;
                        idx += 1;
                        if vi >= 3 && rep > 0 {
                            continue;
                        }
                        if !ctx.want("aug", i) {
                            continue;
                        }
                        let mut r = ctx.rng("aug", i);
                        let addr_size = *r.pick(&[1u8, 2, 4, 8]);
                        let v4_addr = if r.chance(1, 8) { *r.pick(&[0u8, 3, 5, 16, 255]) } else { *r.pick(&[1u8, 2, 4, 8]) };
                        let v4_seg = if r.chance(1, 10) { 1 + r.below(255) as u8 } else { 0 };
                        let le = r.bool();
                        // valid direct encodings that need no missing base
                        let good_encs: Vec<u8> = vec![0x00, 0x01, 0x02, 0x03, 0x04, 0x09, 0x0a, 0x0b, 0x0c, 0x1b, 0x10, 0x13, 0x23, 0x33, 0x3b, 0x9b, 0x80, 0x2c];
                        let ra = match r.below(6) {
                            0 => 0,
                            1 => 0xff,
                            2 => 0xffff,
                            3 => 0x1_0000,
                            4 => r.boundary(),
                            _ => r.below(64),
                        };
                        let cie = CieSpec {
                            fmt64,
                            version,
                            aug: aug.clone(),
                            v4_addr_size: v4_addr,
                            v4_seg_size: v4_seg,
                            code_align: r.boundary(),
                            data_align: r.boundary() as i64,
                            ra,
                            lsda_enc: if r.chance(1, 12) { r.next() as u8 } else { *r.pick(&good_encs) },
                            pers_enc: if r.chance(1, 12) { r.next() as u8 } else { *r.pick(&good_encs) },
                            pers_target: 0x5000 + r.below(0x100),
                            fde_enc: if r.chance(1, 12) { r.next() as u8 } else { *r.pick(&good_encs) },
                            aug_pad: r.usize(3),
                            insns: vec![Ins::DefCfa(7, 8), Ins::Offset(16, 1)],
                            pad_nops: r.usize(8),
                        };
                        let asz = if kind == Kind::DebugFrame && version == 4 { v4_addr } else { addr_size };
                        let mask = m::addr_mask(if matches!(asz, 1 | 2 | 4 | 8) { asz } else { 8 });
                        let initial = (0x40 + r.below(0x20)) & mask;
                        let fde = FdeSpec {
                            cie: 0,
                            fmt64: r.chance(1, 4),
                            initial,
                            range: 1 + r.below(0x20),
                            lsda_target: 0x30 + r.below(0x40),
                            aug_pad: r.usize(3),
                            insns: vec![Ins::AdvanceLoc(1), Ins::DefCfaOffset(16), Ins::Restore(16)],
                            pad_nops: r.usize(8),
                        };
                        let mut items = vec![Item::Cie(cie), Item::Fde(fde)];
                        if kind == Kind::EhFrame && r.bool() {
                            items.push(Item::ZeroLength { fmt64: r.chance(1, 4) });
                        }
                        let spec = SectionSpec { kind, le, addr_size, aarch64: false, bases: Bases { section: Some(0x4000), text: Some(0x100), data: Some(0x200), func: None }, raw_pointers: false, items };
                        let built = build(&spec);
                        if let Entry::Cie(c) = &built.entries[0] {
                            if c.parse_error.is_some() {
                                ctx.obs("aug.reject");
                            } else {
                                ctx.obs("aug.ok");
                                ctx.obs(match version {
                                    1 => "aug.v1",
                                    3 => "aug.v3",
                                    _ => "aug.v4",
                                });
                                if kind == Kind::DebugFrame && version == 4 && c.addr_size != addr_size {
                                    ctx.obs("aug.v4.addr_size");
                                }
                                if fmt64 {
                                    ctx.obs("aug.fmt64");
                                }
                            }
                        }
                        with_sec(ctx, "aug", &spec, &built, &Bases::default(), true);
                        ctx.counted_distinct += 1;
                        if ai == 40 && vi == 1 && kind == Kind::EhFrame && !fmt64 && rep == 0 {
                            ctx.sample("aug", || json!({"augmentation": String::from_utf8_lossy(aug), "section": spec_json(&spec, &built), "model": format!("{:?}", built.entries)}));
                        }
                    }
                }
            }
        }
    }
    if ctx.only.is_none() && n_good == 65 {
        ctx.obs("aug.all65");
    }
}

// ---------------------------------------------------------------- stream sec: sections + lookups

struct Layout {
    spec: SectionSpec,
    /// address of .eh_frame_hdr (section & data base for pointers in it)
    hdr_addr: u64,
}

fn gen_section(r: &mut Rng, idx: u64, ctx: &mut Ctx) -> Layout {
    let kind = if idx % 3 == 0 { Kind::DebugFrame } else { Kind::EhFrame };
    let addr_size = [1u8, 2, 4, 8][((idx / 3) % 4) as usize];
    let le = r.bool();
    let mask = m::addr_mask(addr_size);
    let n_fde = match addr_size {
        1 => (idx % 9) as usize,
        _ => (idx % 41) as usize,
    };
    let n_cie = 1 + r.usize(if n_fde == 0 { 2 } else { 8.min(n_fde + 1) });
    // address layout
    let (text_base, eh_addr, hdr_addr, data_base) = match addr_size {
        1 => (0x10u64, 0x08u64, 0x04u64, 0x0c),
        2 => (0x1000, 0x400, 0x300, 0x500),
        4 => (0x0040_0000, 0x0020_0000, 0x001f_0000, 0x0060_0000),
        _ => {
            if r.chance(1, 3) {
                (0x7fff_0000_0000, 0x7ffe_0000_0000u64, 0x7ffd_ffff_0000u64, 0x7fff_8000_0000)
            } else {
                (0x40_0000, 0x20_0000, 0x1f_0000, 0x60_0000)
            }
        }
    };
    let bases = Bases { section: Some(eh_addr), text: Some(text_base), data: Some(data_base), func: None };
    // CIE specs
    let augs = aug_strings();
    // encodings that work with all bases present; small formats only when the layout is small
    let encs_any: &[u8] = &[0x00, 0x01, 0x04, 0x09, 0x0c, 0x1c, 0x14, 0x2c, 0x3c, 0x30, 0x20, 0x10, 0x80, 0x9c];
    let encs_small: &[u8] = &[0x03, 0x0b, 0x1b, 0x13, 0x23, 0x3b, 0x02, 0x0a, 0x9b];
    let mut cies: Vec<CieSpec> = vec![];
    for _ in 0..n_cie {
        let version = *r.pick(&[1u8, 3, 4]);
        let aug = if r.chance(1, 4) { vec![] } else { r.pick(&augs).clone() };
        let pick_enc = |r: &mut Rng| if r.chance(1, 2) { *r.pick(encs_small) } else { *r.pick(encs_any) };
        cies.push(CieSpec {
            fmt64: r.chance(1, 5),
            version,
            aug,
            v4_addr_size: addr_size,
            v4_seg_size: 0,
            code_align: 1 + r.below(4),
            data_align: r.irange(-8, 8),
            ra: if version == 1 { r.below(256) } else { r.below(0x1_0000) },
            lsda_enc: pick_enc(r),
            pers_enc: pick_enc(r),
            pers_target: text_base.wrapping_add(r.below(0x40)) & mask,
            fde_enc: pick_enc(r),
            aug_pad: r.usize(3),
            insns: vec![Ins::DefCfa(7, 8), Ins::Offset(16, 1)],
            pad_nops: r.usize(6),
        });
    }
    // disjoint ranges inside [text_base, ...): slot size
    let slot: u64 = match addr_size {
        1 => 0x10,
        2 => 0x100,
        _ => 0x1000,
    };
    let mut fdes: Vec<FdeSpec> = vec![];
    for k in 0..n_fde {
        let base = text_base + slot * k as u64;
        let gap = if r.chance(1, 3) { 0 } else { r.below(slot / 4) };
        let range = match r.below(8) {
            0 => 0,
            1 => slot - gap, // touches the next slot
            2 => 1,
            _ => 1 + r.below(slot - gap - 1),
        };
        let initial = base + gap;
        // a few simple instructions whose advances stay inside the range (code_align <= 4)
        let mut insns = vec![];
        let steps = if range >= 16 { r.below(4) } else { 0 };
        for s in 0..steps {
            insns.push(Ins::DefCfaOffset(16 + 8 * s));
            insns.push(Ins::AdvanceLoc(1));
            if r.chance(1, 3) {
                insns.push(Ins::Offset(3 + s as u8, s));
            }
        }
        fdes.push(FdeSpec { cie: r.usize(n_cie), fmt64: r.chance(1, 6), initial, range, lsda_target: data_base.wrapping_add(r.below(0x40)) & mask, aug_pad: r.usize(3), insns, pad_nops: r.usize(6) });
    }
    r.shuffle(&mut fdes);
    // item order
    let mut items: Vec<Item> = vec![];
    let mut cie_item: Vec<usize> = vec![usize::MAX; n_cie];
    if kind == Kind::EhFrame {
        // a CIE must precede its FDEs: interleave, emitting a CIE before its first use
        let mut pending: Vec<FdeSpec> = fdes;
        // unused CIEs are emitted too (at random positions: front)
        let mut used = vec![false; n_cie];
        for f in &pending {
            used[f.cie] = true;
        }
        for c in 0..n_cie {
            if !used[c] || r.chance(1, 2) {
                cie_item[c] = items.len();
                items.push(Item::Cie(cies[c].clone()));
            }
        }
        for mut f in pending.drain(..) {
            if cie_item[f.cie] == usize::MAX {
                cie_item[f.cie] = items.len();
                items.push(Item::Cie(cies[f.cie].clone()));
            }
            f.cie = cie_item[f.cie];
            items.push(Item::Fde(f));
        }
        ctx.obs("sec.eh_frame");
        match r.below(4) {
            0 => {}
            1 => {
                items.push(Item::ZeroLength { fmt64: false });
                ctx.obs("sec.terminator");
            }
            2 => {
                items.push(Item::ZeroLength { fmt64: true });
                ctx.obs("sec.terminator");
            }
            _ => {
                items.push(Item::ZeroLength { fmt64: false });
                let nj = 1 + r.usize(24);
                items.push(Item::Junk(r.bytes(nj)));
                ctx.obs("sec.terminator");
                ctx.obs("sec.junk_after_terminator");
            }
        }
    } else {
        // any order, forward references allowed, zero-length entries sprinkled
        let mut order: Vec<(bool, usize)> = (0..n_cie).map(|c| (true, c)).chain((0..fdes.len()).map(|f| (false, f))).collect();
        r.shuffle(&mut order);
        let mut fde_items: Vec<(usize, usize)> = vec![];
        for (is_cie, k) in order {
            if r.chance(1, 6) {
                items.push(Item::ZeroLength { fmt64: r.chance(1, 3) });
                ctx.obs("sec.zero_length");
            }
            if is_cie {
                cie_item[k] = items.len();
                items.push(Item::Cie(cies[k].clone()));
            } else {
                fde_items.push((items.len(), k));
                items.push(Item::Fde(fdes[k].clone()));
            }
        }
        for (it, k) in fde_items {
            let ci = cie_item[fdes[k].cie];
            if ci > it {
                ctx.obs("sec.forward_cie");
            }
            if let Item::Fde(f) = &mut items[it] {
                f.cie = ci;
            }
        }
        if r.chance(1, 4) {
            items.push(Item::ZeroLength { fmt64: false });
            ctx.obs("sec.zero_length");
        }
        ctx.obs("sec.debug_frame");
    }
    Layout { spec: SectionSpec { kind, le, addr_size, aarch64: false, bases, raw_pointers: false, items }, hdr_addr }
}

/// Reachable, parsable FDEs: (entry index, initial, end).
fn reachable_fdes(built: &Built) -> Vec<(usize, u64, u64)> {
    built.entries[..built.reachable]
        .iter()
        .enumerate()
        .filter_map(|(i, e)| match e {
            Entry::Fde(f) => f.initial.clone().ok().map(|a| (i, a, f.end)),
            _ => None,
        })
        .collect()
}

fn probe_addresses(fdes: &[(usize, u64, u64)], addr_size: u8, r: &mut Rng) -> Vec<u64> {
    let mask = m::addr_mask(addr_size);
    let mut v = vec![0u64, 1, mask, mask.wrapping_sub(1)];
    for (_, s, e) in fdes {
        for a in [s.wrapping_sub(1), *s, s.wrapping_add(1), e.wrapping_sub(1), *e, e.wrapping_add(1)] {
            v.push(a & mask);
        }
        if e > s {
            v.push(s + r.below(e - s));
        }
    }
    v.sort();
    v.dedup();
    v
}

fn sec_stream(ctx: &mut Ctx) {
    let n = ctx.size(6_000, 60_000, 6);
    for i in 0..n {
        if !ctx.want("sec", i) {
            continue;
        }
        let mut r = ctx.rng("sec", i);
        let lay = gen_section(&mut r, i, ctx);
        let spec = &lay.spec;
        let built = build(spec);
        // generator self-checks (a failure here is a harness defect, not a finding)
        let mut ok = true;
        for e in &built.entries {
            match e {
                Entry::Cie(c) => {
                    if c.parse_error.is_some() {
                        ok = false;
                    }
                    if c.fmt64 {
                        ctx.obs("sec.fmt64_entry");
                    }
                }
                Entry::Fde(f) => {
                    if fde_parse_error(f).is_some() {
                        ok = false;
                    }
                }
            }
        }
        if !ok {
            ctx.harness_error(&format!("sec:{i}: generator produced an entry that must not parse"));
            continue;
        }
        let fdes = reachable_fdes(&built);
        // the generator aims at the FdeSpec's initial address: if an encoding could not
        // represent it the decoded address differs and ranges might overlap: then skip lookups
        let mut sorted: Vec<(u64, u64)> = fdes.iter().map(|(_, s, e)| (*s, *e)).collect();
        sorted.sort();
        let disjoint = sorted.windows(2).all(|w| w[0].1.max(w[0].0) <= w[1].0) && sorted.iter().all(|(s, e)| s <= e);
        {
            let mut uses = std::collections::BTreeMap::new();
            for (_, f) in built.fdes() {
                *uses.entry(f.cie_entry).or_insert(0usize) += 1;
            }
            if uses.values().any(|&n| n >= 2) {
                ctx.obs("sec.shared_cie");
            }
        }
        let hdr_bases = Bases { section: Some(lay.hdr_addr), text: spec.bases.text, data: Some(lay.hdr_addr), func: None };
        with_sec(ctx, "sec", spec, &built, &hdr_bases, true);
        if !built.entries.is_empty() {
            ctx.nontrivial_bytes("sec", &built.bytes);
        }
        if !disjoint {
            ctx.obs("sec.lookups_skipped_overlap");
            continue;
        }
        let probes = probe_addresses(&fdes, spec.addr_size, &mut r);
        match spec.kind {
            Kind::DebugFrame => {
                let mut sec = DebugFrame::new(&built.bytes, endian(spec.le));
                sec.set_address_size(spec.addr_size);
                lookups(ctx, &sec, spec, &built, &fdes, &probes, &hdr_bases);
            }
            Kind::EhFrame => {
                let mut sec = EhFrame::new(&built.bytes, endian(spec.le));
                sec.set_address_size(spec.addr_size);
                lookups(ctx, &sec, spec, &built, &fdes, &probes, &hdr_bases);
                hdr_lookups(ctx, &sec, spec, &built, &fdes, &probes, &hdr_bases, &mut r, i);
            }
        }
        if i == 5 || i == 9 {
            ctx.sample("sec", || json!({"section": spec_json(spec, &built), "fdes": format!("{:x?}", fdes), "probes": format!("{:x?}", probes.iter().take(24).collect::<Vec<_>>())}));
        }
    }
}

/// Expected row for `addr` inside the FDE at entry `ei`.
fn expected_row(built: &Built, ei: usize, addr: u64) -> Result<m::Row, CfiError> {
    let p = built.program(ei).ok_or(CfiError::NoUnwindInfo)?;
    let t = interpret(&p, Limits { stack: Some(4), rules: Some(192) });
    t.lookup(addr).map(|r| r.clone())
}

fn lookups<'a, Sec>(ctx: &mut Ctx, sec: &Sec, spec: &SectionSpec, built: &'a Built, fdes: &[(usize, u64, u64)], probes: &[u64], hdr_bases: &Bases)
where
    Sec: UnwindSection<Rd<'a>>,
    Sec::Offset: UnwindOffset<usize>,
{
    let bases = gimli_bases(&spec.bases, hdr_bases);
    let ranges: Vec<(u64, u64)> = fdes.iter().map(|(_, s, e)| (*s, *e)).collect();
    let mut uctx = UnwindContext::new();
    for &a in probes {
        let input = || {
            let mut v = spec_json(spec, built);
            v["probe"] = json!(a);
            v
        };
        let hits = m::scan_fdes(&ranges, a);
        let hit = hits.first().map(|&k| fdes[k].0);
        // ---- linear
        ctx.eval();
        let Some(got) = ctx.guard("UnwindSection::fde_for_address", &input, || sec.fde_for_address(&bases, a, Sec::cie_from_offset).map(|f| f.offset())) else { continue };
        match (hit, &got) {
            (Some(ei), Ok(off)) => {
                ctx.obs("lookup.linear.hit");
                eq!(ctx, "sec.fde_for_address.which", built.entries[ei].offset() as usize, *off, &input);
            }
            (None, Err(gimli::Error::NoUnwindInfoForAddress)) => ctx.obs("lookup.linear.miss"),
            (h, g) => ctx.fail("sec.fde_for_address", &format!("fde_for_address({a:#x}): exhaustive scan finds {:?}, gimli returns {g:?}", h.map(|e| built.entries[e].offset())), &input),
        }
        // ---- unwind info
        ctx.eval();
        let Some(got) = ctx.guard("UnwindSection::unwind_info_for_address", &input, || sec.unwind_info_for_address(&bases, &mut uctx, a, Sec::cie_from_offset).map(|r| obs_row_pub(r))) else {
            continue;
        };
        let want = match hit {
            Some(ei) => expected_row(built, ei, a),
            None => Err(CfiError::NoUnwindInfo),
        };
        match (&want, &got) {
            (Ok(w), Ok(g)) if w == g => ctx.obs("lookup.unwind.hit"),
            (Err(w), Err(g)) if error_matches(w, g) => ctx.obs("lookup.unwind.miss"),
            (w, g) => ctx.fail("sec.unwind_info_for_address", &format!("unwind_info_for_address({a:#x}): expected {w:?} observed {g:?}"), &input),
        }
    }
}

#[allow(clippy::too_many_arguments)]
fn hdr_lookups<'a>(ctx: &mut Ctx, sec: &EhFrame<Rd<'a>>, spec: &SectionSpec, built: &'a Built, fdes: &[(usize, u64, u64)], probes: &[u64], hdr_bases: &Bases, r: &mut Rng, idx: u64) {
    if fdes.is_empty() {
        return;
    }
    let eh_addr = spec.bases.section.unwrap_or(0);
    let mask = m::addr_mask(spec.addr_size);
    // every FDE address must exist in the address space (no wrap of eh_frame + offset)
    if eh_addr.checked_add(built.bytes.len() as u64).map_or(true, |e| e > mask) {
        ctx.obs("hdr.skipped.address_space");
        return;
    }
    let entries: Vec<(u64, u64)> = fdes.iter().map(|(ei, s, _)| (*s, eh_addr.wrapping_add(built.entries[*ei].offset()) & mask)).collect();
    // distinct initial locations are required for a well-defined search
    {
        let mut s: Vec<u64> = entries.iter().map(|e| e.0).collect();
        s.sort();
        s.dedup();
        if s.len() != entries.len() {
            ctx.obs("hdr.skipped.duplicate_initial");
            return;
        }
    }
    let fmts = [0x02u8, 0x0a, 0x03, 0x0b, 0x04, 0x0c];
    let apps = [0x00u8, 0x10, 0x30, 0x20];
    let mut table_enc = fmts[r.usize(6)] | apps[r.usize(4)];
    let ptr_encs = [0x03u8, 0x1b, 0x0b, 0x00, 0x04, 0x33, 0x3b, 0x1c, 0x01, 0x09];
    let count_encs = [0x03u8, 0x01, 0x02, 0x04, 0x00, 0x0b, 0x09];
    let mut hs = HdrSpec {
        le: spec.le,
        addr_size: spec.addr_size,
        version: 1,
        eh_frame_ptr_enc: *r.pick(&ptr_encs),
        fde_count_enc: *r.pick(&count_encs),
        table_enc,
        eh_frame_addr: eh_addr,
        entries,
        bases: *hdr_bases,
    };
    let mut hb = build_hdr(&hs);
    if !hb.exact || hb.fde_count != hs.entries.len() as u64 {
        // fall back to encodings that can represent everything
        table_enc = (table_enc & 0xf0) | if table_enc & 0x08 != 0 { 0x0c } else { 0x04 };
        hs.table_enc = table_enc;
        hs.eh_frame_ptr_enc = 0x04;
        hs.fde_count_enc = 0x04;
        hb = build_hdr(&hs);
        if !hb.exact {
            ctx.obs("hdr.skipped.inexact");
            return;
        }
    }
    ctx.obs(match table_enc & 0x0f {
        0x02 => "hdr.enc.udata2",
        0x0a => "hdr.enc.sdata2",
        0x03 => "hdr.enc.udata4",
        0x0b => "hdr.enc.sdata4",
        0x04 => "hdr.enc.udata8",
        _ => "hdr.enc.sdata8",
    });
    ctx.obs(match table_enc & 0x70 {
        0x00 => "hdr.app.abs",
        0x10 => "hdr.app.pcrel",
        0x30 => "hdr.app.datarel",
        _ => "hdr.app.textrel",
    });
    ctx.obs(&format!("hdr.entries.{}", hs.entries.len()));
    let bases = gimli_bases(&spec.bases, hdr_bases);
    let input0 = || {
        let mut v = spec_json(spec, built);
        v["hdr_spec"] = json!(format!("{:?}", hs));
        v["hdr"] = json!(hex(&hb.bytes));
        v
    };
    let hdr = EhFrameHdr::new(&hb.bytes, endian(spec.le));
    ctx.eval();
    let Some(parsed) = ctx.guard("EhFrameHdr::parse", &input0, || hdr.parse(&bases, spec.addr_size)) else { return };
    let parsed = match parsed {
        Ok(p) => p,
        Err(e) => {
            ctx.fail("hdr.parse", &format!("EhFrameHdr::parse failed on a well-formed header: {e:?}"), &input0);
            return;
        }
    };
    eq!(ctx, "hdr.eh_frame_ptr", hb.eh_frame_ptr.clone().ok(), Some(ptr_from_gimli(parsed.eh_frame_ptr())), &input0);
    let Some(table) = parsed.table() else {
        ctx.fail("hdr.table.none", "table() is None for a non-empty table", &input0);
        return;
    };
    // sorted decoded table
    let sorted: Vec<(u64, u64)> = hb.table.iter().filter_map(|e| e.clone().ok()).map(|(a, b)| (a.value(), b.value())).collect();
    let initials: Vec<u64> = sorted.iter().map(|e| e.0).collect();
    if initials.windows(2).any(|w| w[0] >= w[1]) || sorted.len() != hs.entries.len() {
        ctx.harness_error(&format!("sec:{idx}: header table not sorted after decoding"));
        return;
    }
    // ---- iter / nth
    ctx.eval();
    ctx.obs("hdr.iter");
    let got = ctx.guard("EhHdrTableIter::next", &input0, || {
        let mut v = vec![];
        let mut it = table.iter(&bases);
        while let Ok(Some((a, b))) = it.next() {
            v.push((a.pointer(), b.pointer()));
            if v.len() > 100 {
                break;
            }
        }
        v
    });
    if let Some(g) = got {
        eq!(ctx, "hdr.iter.entries", sorted, g, &input0);
    }
    for k in [0usize, 1, sorted.len() / 2, sorted.len().saturating_sub(1), sorted.len(), sorted.len() + 3] {
        ctx.eval();
        ctx.obs("hdr.nth");
        let got = ctx.guard("EhHdrTableIter::nth", &input0, || {
            let mut it = table.iter(&bases);
            let a = it.nth(k).ok().flatten().map(|(a, b)| (a.pointer(), b.pointer()));
            let b = it.next().ok().flatten().map(|(a, b)| (a.pointer(), b.pointer()));
            (a, b)
        });
        if let Some(g) = got {
            eq!(ctx, "hdr.nth", (sorted.get(k).copied(), sorted.get(k + 1).copied()), g, &input0);
        }
    }
    // ---- lookups
    let ranges: Vec<(u64, u64)> = fdes.iter().map(|(_, s, e)| (*s, *e)).collect();
    let mut uctx = UnwindContext::new();
    for &a in probes {
        let input = || {
            let mut v = input0();
            v["probe"] = json!(a);
            v
        };
        let pick = m::hdr_search(&initials, a).unwrap();
        // lookup + pointer_to_offset
        ctx.eval();
        ctx.obs("hdr.lookup");
        let Some(got) = ctx.guard("EhHdrTable::lookup", &input, || table.lookup(a, &bases)) else { continue };
        match got {
            Ok(p) => {
                eq!(ctx, "hdr.lookup.pointer", Ptr::Direct(sorted[pick].1), ptr_from_gimli(p), &input);
                ctx.obs("hdr.pointer_to_offset");
                if let Some(off) = ctx.guard("EhHdrTable::pointer_to_offset", &input, || table.pointer_to_offset(p)) {
                    let want = sorted[pick].1.wrapping_sub(eh_addr);
                    eq!(ctx, "hdr.pointer_to_offset", Some(want as usize), off.ok().map(|o| o.0), &input);
                }
            }
            Err(e) => ctx.fail("hdr.lookup.error", &format!("lookup({a:#x}) failed: {e:?}"), &input),
        }
        // fde_for_address
        let hits = m::scan_fdes(&ranges, a);
        let hit = hits.first().map(|&k| fdes[k].0);
        ctx.eval();
        let Some(got) = ctx.guard("EhHdrTable::fde_for_address", &input, || table.fde_for_address(sec, &bases, a, EhFrame::cie_from_offset).map(|f| f.offset())) else { continue };
        match (hit, &got) {
            (Some(ei), Ok(off)) => {
                ctx.obs("hdr.fde_for_address.hit");
                eq!(ctx, "hdr.fde_for_address.which", built.entries[ei].offset() as usize, *off, &input);
            }
            (None, Err(gimli::Error::NoUnwindInfoForAddress)) => ctx.obs("hdr.fde_for_address.miss"),
            (h, g) => ctx.fail("hdr.fde_for_address", &format!("EhHdrTable::fde_for_address({a:#x}): exhaustive scan finds {:?}, gimli returns {g:?}", h.map(|e| built.entries[e].offset())), &input),
        }
        // unwind_info_for_address
        ctx.eval();
        let Some(got) = ctx.guard("EhHdrTable::unwind_info_for_address", &input, || table.unwind_info_for_address(sec, &bases, &mut uctx, a, EhFrame::cie_from_offset).map(|r| obs_row_pub(r))) else {
            continue;
        };
        let want = match hit {
            Some(ei) => expected_row(built, ei, a),
            None => Err(CfiError::NoUnwindInfo),
        };
        match (&want, &got) {
            (Ok(w), Ok(g)) if w == g => ctx.obs("hdr.unwind.hit"),
            (Err(w), Err(g)) if error_matches(w, g) => ctx.obs("hdr.unwind.miss"),
            (w, g) => ctx.fail("hdr.unwind_info_for_address", &format!("EhHdrTable::unwind_info_for_address({a:#x}): expected {w:?} observed {g:?}"), &input),
        }
    }
}

pub fn run(ctx: &mut Ctx) {
    enc_stream(ctx);
    aug_stream(ctx);
    sec_stream(ctx);
}

//! gv — driver.
//!
//!   gv run   <ID> --tier T --seed S --profile P --shard i/n --repo R --work W --out F [--only stream:idx] [--journal J]
//!   gv check <ID> --tier T --seed S --bins dbg=PATH,rel=PATH --repo R --verif V [--jobs N] [--only stream:idx --profile P]
//!   gv list

use gv::props;
use gv::rt::{self, Ctx, CtxArgs, Profile, Tier};
use serde_json::{json, Map, Value};
use std::collections::{BTreeMap, HashMap, HashSet};
use std::fs;
use std::io::Read;
use std::path::{Path, PathBuf};
use std::process::{Child, Command, Stdio};
use std::time::{Duration, Instant};

fn arg<'a>(args: &'a [String], name: &str) -> Option<&'a str> {
    args.iter()
        .position(|a| a == name)
        .and_then(|i| args.get(i + 1))
        .map(|s| s.as_str())
}

fn flag(args: &[String], name: &str) -> bool {
    args.iter().any(|a| a == name)
}

fn parse_only(s: &str) -> Option<(String, u64)> {
    let (a, b) = s.rsplit_once(':')?;
    Some((a.to_string(), b.parse().ok()?))
}

fn main() {
    let args: Vec<String> = std::env::args().collect();
    if args.len() < 2 {
        eprintln!("usage: gv run|check|list ...");
        std::process::exit(2);
    }
    let code = match args[1].as_str() {
        "run" => cmd_run(&args[2..]),
        "check" => cmd_check(&args[2..]),
        "list" => {
            for p in props::all() {
                println!("{} {}", p.id, p.level);
            }
            0
        }
        _ => {
            eprintln!("unknown command {}", args[1]);
            2
        }
    };
    std::process::exit(code);
}

fn tier_of(args: &[String]) -> Tier {
    match arg(args, "--tier").unwrap_or("quick") {
        "thorough" => Tier::Thorough,
        _ => Tier::Quick,
    }
}

// ------------------------------------------------------------------ run (one shard)

fn cmd_run(args: &[String]) -> i32 {
    let id = args.first().cloned().unwrap_or_default();
    let Some(info) = props::find(&id) else {
        eprintln!("gv: unknown property {id}");
        return 2;
    };
    let tier = tier_of(args);
    let seed: u64 = arg(args, "--seed").and_then(|s| s.parse().ok()).unwrap_or(1);
    let profile = arg(args, "--profile")
        .and_then(Profile::parse)
        .unwrap_or(if cfg!(debug_assertions) { Profile::Dbg } else { Profile::Rel });
    if (profile == Profile::Dbg) != cfg!(debug_assertions) && profile != Profile::Miri && profile != Profile::Asan {
        eprintln!("gv: profile {:?} does not match this binary (debug_assertions={})", profile, cfg!(debug_assertions));
        return 2;
    }
    let (shard, nshards) = arg(args, "--shard")
        .and_then(|s| {
            let (a, b) = s.split_once('/')?;
            Some((a.parse().ok()?, b.parse().ok()?))
        })
        .unwrap_or((0u64, 1u64));
    let repo = PathBuf::from(arg(args, "--repo").unwrap_or("/repo"));
    let work = PathBuf::from(arg(args, "--work").unwrap_or("/verif/.work"));
    let verif = PathBuf::from(arg(args, "--verif").unwrap_or("/verif"));
    let out = arg(args, "--out").map(PathBuf::from);
    let only = arg(args, "--only").and_then(parse_only);
    let journal = arg(args, "--journal").map(PathBuf::from);

    rt::install_panic_hook();
    let mut ctx = Ctx::new(CtxArgs {
        prop: info.id.to_string(),
        tier,
        profile,
        seed,
        shard,
        nshards,
        repo,
        work,
        only,
        known_findings: verif.join("known_findings.json"),
        journal,
        verbose: flag(args, "--verbose"),
    });
    let t0 = Instant::now();
    let r = rt::capture(|| (info.run)(&mut ctx));
    if let Err(p) = r {
        ctx.harness_error(&format!(
            "uncaught panic outside a guarded case at {}:{}: {}",
            p.file, p.line, p.message
        ));
    }
    let mut res = ctx.result_json();
    res["wall_s"] = json!(t0.elapsed().as_secs_f64());
    if let Some(out) = out {
        let _ = fs::write(&out, serde_json::to_string(&res).unwrap());
        let _ = ctx.write_digests(&out.with_extension("digests"));
    } else {
        let mut short = res.clone();
        println!("{}", serde_json::to_string_pretty(&short).unwrap());
        for v in &ctx.violations {
            println!("violation: {} -> {}", v.what, v.replay);
        }
    }
    0
}

// ------------------------------------------------------------------ check (orchestrator)

struct Job {
    profile: String,
    bin: PathBuf,
    shard: u64,
    nshards: u64,
    out: PathBuf,
    journal: PathBuf,
    /// run exactly one case (isolated cases, confirmations, replays)
    only: Option<(String, u64)>,
}

struct Running {
    job: Job,
    child: Child,
    started: Instant,
    last_journal: Vec<u8>,
    last_change: Instant,
}

fn spawn(job: &Job, id: &str, tier: Tier, seed: u64, repo: &Path, work: &Path, verif: &Path, only: Option<&(String, u64)>, mem_kb: u64) -> std::io::Result<Child> {
    let mut c = Command::new("sh");
    c.arg("-c")
        .arg(if job.profile == "dbg" || job.profile == "rel" { format!("ulimit -v {mem_kb}; exec \"$0\" \"$@\"") } else { "exec \"$0\" \"$@\"".to_string() })
        .arg(&job.bin)
        .arg("run")
        .arg(id)
        .arg("--tier")
        .arg(if tier == Tier::Quick { "quick" } else { "thorough" })
        .arg("--seed")
        .arg(seed.to_string())
        .arg("--profile")
        .arg(&job.profile)
        .arg("--shard")
        .arg(format!("{}/{}", job.shard, job.nshards))
        .arg("--repo")
        .arg(repo)
        .arg("--work")
        .arg(work)
        .arg("--verif")
        .arg(verif)
        .arg("--out")
        .arg(&job.out)
        .arg("--journal")
        .arg(&job.journal);
    if let Some((s, i)) = job.only.as_ref().or(only) {
        c.arg("--only").arg(format!("{s}:{i}"));
    }
    c.stdin(Stdio::null());
    c.stdout(Stdio::null());
    c.stderr(Stdio::piped());
    c.spawn()
}

fn read_journal(p: &Path) -> Option<(String, u64, String)> {
    let s = fs::read_to_string(p).ok()?;
    let line = s.lines().next()?;
    let mut it = line.trim_end().split('\t');
    let stream = it.next()?.to_string();
    let idx: u64 = it.next()?.parse().ok()?;
    let entry = it.next()?.to_string();
    Some((stream, idx, entry))
}

fn cmd_check(args: &[String]) -> i32 {
    let id = args.first().cloned().unwrap_or_default();
    let Some(info) = props::find(&id) else {
        eprintln!("gv: unknown property {id}");
        return 2;
    };
    let id = info.id.to_string();
    let tier = tier_of(args);
    let seed: u64 = arg(args, "--seed").and_then(|s| s.parse().ok()).unwrap_or(1);
    let repo = PathBuf::from(arg(args, "--repo").unwrap_or("/repo"));
    let verif = PathBuf::from(arg(args, "--verif").unwrap_or("/verif"));
    let work = PathBuf::from(arg(args, "--work").map(|s| s.to_string()).unwrap_or(format!("{}/.work", verif.display())));
    let jobs: usize = arg(args, "--jobs").and_then(|s| s.parse().ok()).unwrap_or(16);
    let nshards: u64 = arg(args, "--shards").and_then(|s| s.parse().ok()).unwrap_or(16);
    let only = arg(args, "--only").and_then(parse_only);
    let only_profile = arg(args, "--profile").map(|s| s.to_string());
    let evidence_path = arg(args, "--evidence").map(PathBuf::from).unwrap_or(verif.join("evidence").join(format!("{id}.json")));
    let write_evidence = only.is_none() && !flag(args, "--no-evidence");
    let mut bins: Vec<(String, PathBuf)> = vec![];
    for kv in arg(args, "--bins").unwrap_or("").split(',') {
        if let Some((k, v)) = kv.split_once('=') {
            bins.push((k.to_string(), PathBuf::from(v)));
        }
    }
    if let Some(p) = &only_profile {
        bins.retain(|(k, _)| k == p);
    }
    if bins.is_empty() {
        eprintln!("gv check: no --bins given");
        return 2;
    }
    let out_dir = work.join("out").join(&id);
    let _ = fs::remove_dir_all(&out_dir);
    let _ = fs::create_dir_all(&out_dir);
    let _ = fs::create_dir_all(work.join("replay"));
    // remove stale replay files of this property
    if let Ok(rd) = fs::read_dir(work.join("replay")) {
        for e in rd.flatten() {
            if e.file_name().to_string_lossy().starts_with(&format!("{id}-")) {
                let _ = fs::remove_file(e.path());
            }
        }
    }

    let t0 = Instant::now();
    let watchdog = Duration::from_secs(
        arg(args, "--watchdog").and_then(|s| s.parse().ok()).unwrap_or(if tier == Tier::Quick { 900 } else { 5400 }),
    );
    let mem_kb: u64 = 6 * 1024 * 1024;
    let stall = Duration::from_secs(arg(args, "--stall").and_then(|s| s.parse().ok()).unwrap_or(if tier == Tier::Quick { 240 } else { 900 }));
    let mut queue: Vec<Job> = vec![];
    let n = if only.is_some() { 1 } else { nshards };
    for (pname, bin) in &bins {
        for s in 0..n {
            queue.push(Job {
                profile: pname.clone(),
                bin: bin.clone(),
                shard: s,
                nshards: n,
                out: out_dir.join(format!("{pname}-{s}.json")),
                journal: out_dir.join(format!("{pname}-{s}.journal")),
                only: None,
            });
        }
    }
    // isolated cases: one process each
    let mut n_iso = 0usize;
    if only.is_none() {
        let iso = props::isolated_cases(&id, tier == Tier::Quick, seed);
        for (pname, bin) in &bins {
            for (k, case) in iso.iter().enumerate() {
                n_iso += 1;
                queue.push(Job {
                    profile: pname.clone(),
                    bin: bin.clone(),
                    shard: 0,
                    nshards: 1,
                    out: out_dir.join(format!("iso-{pname}-{k}.json")),
                    journal: out_dir.join(format!("iso-{pname}-{k}.journal")),
                    only: Some(case.clone()),
                });
            }
        }
    }
    // interleave profiles so that slow dbg shards start early
    queue.reverse();
    let mut running: Vec<Running> = vec![];
    let mut shard_results: Vec<Value> = vec![];
    let mut crashes: Vec<(String, String, u64, String, String)> = vec![]; // profile, stream, idx, entry, how
    let mut inconclusive: Vec<String> = vec![];
    let mut harness_errors: Vec<String> = vec![];

    let mut last_poll_outer = Instant::now();
    while !queue.is_empty() || !running.is_empty() {
        while running.len() < jobs && !queue.is_empty() {
            let job = queue.pop().unwrap();
            match spawn(&job, &id, tier, seed, &repo, &work, &verif, only.as_ref(), mem_kb) {
                Ok(child) => running.push(Running { job, child, started: Instant::now(), last_journal: vec![], last_change: Instant::now() }),
                Err(e) => {
                    harness_errors.push(format!("cannot spawn shard: {e}"));
                }
            }
        }
        let mut i = 0;
        let mut progressed = false;
        let poll_now = last_poll_outer.elapsed() > Duration::from_millis(1000);
        let last_poll = if poll_now { Instant::now() - Duration::from_millis(2000) } else { Instant::now() };
        if poll_now {
            last_poll_outer = Instant::now();
        }
        while i < running.len() {
            let done = match running[i].child.try_wait() {
                Ok(Some(st)) => Some(st),
                Ok(None) => None,
                Err(_) => None,
            };
            if let Some(st) = done {
                progressed = true;
                let mut r = running.swap_remove(i);
                let mut stderr = String::new();
                if let Some(mut e) = r.child.stderr.take() {
                    let _ = e.read_to_string(&mut stderr);
                }
                let ok = st.success() && r.job.out.exists();
                if ok {
                    match fs::read_to_string(&r.job.out).ok().and_then(|s| serde_json::from_str::<Value>(&s).ok()) {
                        Some(v) => shard_results.push(v),
                        None => harness_errors.push(format!("unreadable shard output {}", r.job.out.display())),
                    }
                } else {
                    use std::os::unix::process::ExitStatusExt;
                    let how = match st.signal() {
                        Some(sig) => format!("signal {sig}"),
                        None => format!("exit {}", st.code().unwrap_or(-1)),
                    };
                    let tail: String = stderr.lines().rev().take(6).collect::<Vec<_>>().into_iter().rev().collect::<Vec<_>>().join(" | ");
                    match read_journal(&r.job.journal) {
                        Some((stream, idx, entry)) => {
                            crashes.push((r.job.profile.clone(), stream, idx, entry, format!("{how}; stderr: {}", tail.chars().take(400).collect::<String>())));
                        }
                        None => harness_errors.push(format!("shard {}-{} died ({how}) before its first case: {}", r.job.profile, r.job.shard, tail)),
                    }
                }
                continue;
            }
            // stall detection through the per-case journal (checked about once a second)
            if last_poll.elapsed() > Duration::from_millis(1000) {
                let cur = fs::read(&running[i].job.journal).unwrap_or_default();
                if cur != running[i].last_journal {
                    running[i].last_journal = cur;
                    running[i].last_change = Instant::now();
                }
            }
            let stalled = !running[i].last_journal.is_empty() && running[i].last_change.elapsed() > stall;
            if running[i].started.elapsed() > watchdog || stalled {
                progressed = true;
                let mut r = running.swap_remove(i);
                let _ = r.child.kill();
                let _ = r.child.wait();
                let at = read_journal(&r.job.journal);
                match (stalled, at) {
                    (true, Some((stream, idx, entry))) => {
                        crashes.push((r.job.profile.clone(), stream, idx, entry, format!("no progress for {}s", stall.as_secs())));
                    }
                    (_, at) => inconclusive.push(format!("watchdog: shard {}-{} exceeded {}s at {:?}", r.job.profile, r.job.shard, watchdog.as_secs(), at)),
                }
                continue;
            }
            i += 1;
        }
        if !progressed {
            std::thread::sleep(Duration::from_millis(20));
        }
    }

    // confirm crashes by re-running the journalled case alone
    let known = rt::load_known_findings(&verif.join("known_findings.json"));
    let mut violations: Vec<(String, String, String, bool)> = vec![]; // sig, what, replay, known
    let mut seen_crash: HashSet<String> = HashSet::new();
    for (profile, stream, idx, entry, how) in &crashes {
        let sig = format!("crash|{}|{}|{}", entry, how.split(';').next().unwrap_or(""), stream);
        if !seen_crash.insert(sig.clone()) {
            continue;
        }
        let bin = bins.iter().find(|(k, _)| k == profile).map(|(_, v)| v.clone()).unwrap();
        let job = Job {
            profile: profile.clone(),
            bin,
            shard: 0,
            nshards: 1,
            out: out_dir.join(format!("confirm-{profile}-{idx}.json")),
            journal: out_dir.join(format!("confirm-{profile}-{idx}.journal")),
            only: None,
        };
        let only1 = (stream.clone(), *idx);
        let confirmed = if only.is_some() {
            true
        } else {
            match spawn(&job, &id, tier, seed, &repo, &work, &verif, Some(&only1), mem_kb) {
                Ok(mut child) => {
                    let start = Instant::now();
                    loop {
                        match child.try_wait() {
                            Ok(Some(st)) => break !(st.success() && job.out.exists()),
                            Ok(None) => {
                                if start.elapsed() > stall {
                                    let _ = child.kill();
                                    let _ = child.wait();
                                    break true;
                                }
                                std::thread::sleep(Duration::from_millis(20));
                            }
                            Err(_) => break false,
                        }
                    }
                }
                Err(_) => false,
            }
        };
        if confirmed {
            let replay = work.join("replay").join(format!("{}-{:016x}.json", id, rt::fnv(sig.as_bytes())));
            let doc = json!({"property": id, "profile": profile, "tier": if tier == Tier::Quick {"quick"} else {"thorough"}, "seed": seed,
                "stream": stream, "index": idx, "entry": entry, "signature": sig, "what": format!("worker process died ({how}) while running this case; reproduced alone"),});
            let _ = fs::write(&replay, serde_json::to_string_pretty(&doc).unwrap());
            let is_known = known.iter().any(|k| k.status == "open" && k.property == id && k.signature == sig);
            violations.push((sig.clone(), format!("process died in {entry} ({how}) at case {stream}:{idx} [{profile}]"), replay.to_string_lossy().to_string(), is_known));
        } else {
            inconclusive.push(format!("shard died ({how}) at case {stream}:{idx} [{profile}] but the case passes when re-run alone"));
        }
    }

    // merge shard results
    let mut evaluations: u64 = 0;
    let mut counted_by_profile: BTreeMap<String, u64> = BTreeMap::new();
    let mut obs: BTreeMap<String, u64> = BTreeMap::new();
    let mut obs_by_profile: BTreeMap<String, BTreeMap<String, u64>> = BTreeMap::new();
    let mut samples: Vec<Value> = vec![];
    let mut seen_sig: HashSet<String> = HashSet::new();
    let mut evals_by_profile: BTreeMap<String, u64> = BTreeMap::new();
    let mut max_shard_wall = 0f64;
    for r in &shard_results {
        let prof = r["profile"].as_str().unwrap_or("?").to_string();
        let ev = r["evaluations"].as_u64().unwrap_or(0);
        evaluations += ev;
        *evals_by_profile.entry(prof.clone()).or_insert(0) += ev;
        *counted_by_profile.entry(prof.clone()).or_insert(0) += r["counted_distinct"].as_u64().unwrap_or(0);
        if let Some(w) = r["wall_s"].as_f64() {
            if w > max_shard_wall {
                max_shard_wall = w;
            }
        }
        if let Some(m) = r["obs"].as_object() {
            for (k, v) in m {
                let n = v.as_u64().unwrap_or(0);
                let is_max = k.starts_with("max:");
                let e = obs.entry(k.clone()).or_insert(0);
                if is_max { *e = (*e).max(n) } else { *e += n }
                let e = obs_by_profile.entry(prof.clone()).or_default().entry(k.clone()).or_insert(0);
                if is_max { *e = (*e).max(n) } else { *e += n }
            }
        }
        if let Some(a) = r["samples"].as_array() {
            for s in a {
                if samples.len() < 10 && (r["shard"].as_u64() == Some(0) || samples.len() < 4) {
                    let mut s = s.clone();
                    if let Value::Object(m) = &mut s {
                        m.insert("profile".into(), json!(prof));
                    }
                    samples.push(s);
                }
            }
        }
        if let Some(a) = r["violations"].as_array() {
            for v in a {
                let sig = v["signature"].as_str().unwrap_or("").to_string();
                if seen_sig.insert(sig.clone()) {
                    violations.push((sig, format!("{} [{}]", v["what"].as_str().unwrap_or(""), prof), v["replay"].as_str().unwrap_or("").to_string(), v["known"].as_bool().unwrap_or(false)));
                }
            }
        }
        if let Some(a) = r["inconclusive"].as_array() {
            for v in a {
                if inconclusive.len() < 40 {
                    inconclusive.push(format!("{} [{}]", v.as_str().unwrap_or(""), prof));
                }
            }
        }
        if let Some(a) = r["harness_errors"].as_array() {
            for v in a {
                if harness_errors.len() < 40 {
                    harness_errors.push(format!("{} [{}]", v.as_str().unwrap_or(""), prof));
                }
            }
        }
    }
    // union of digests over all shards and profiles
    let mut digests: HashSet<u64> = HashSet::new();
    if let Ok(rd) = fs::read_dir(&out_dir) {
        for e in rd.flatten() {
            if e.path().extension().map(|x| x == "digests").unwrap_or(false) {
                if let Ok(b) = fs::read(e.path()) {
                    for c in b.chunks_exact(8) {
                        digests.insert(u64::from_le_bytes(c.try_into().unwrap()));
                    }
                }
            }
        }
    }
    let counted = counted_by_profile.values().copied().max().unwrap_or(0);
    let distinct = digests.len() as u64 + counted;

    // catalogue coverage
    if only.is_none() {
        for k in info.must_observe {
            if obs.get(*k).copied().unwrap_or(0) == 0 {
                harness_errors.push(format!("catalogue item never observed: {k}"));
            }
        }
        if distinct < 2 || evaluations == 0 {
            harness_errors.push("the run observed nothing non-trivial".to_string());
        }
    }

    let unknown: Vec<_> = violations.iter().filter(|v| !v.3).collect();
    let known_hits: Vec<_> = violations.iter().filter(|v| v.3).collect();

    if write_evidence {
        let mut obs_json = Map::new();
        for (k, v) in &obs {
            obs_json.insert(k.clone(), json!(v));
        }
        let mut prof_json = Map::new();
        for (p, n) in &evals_by_profile {
            prof_json.insert(p.clone(), json!({"evaluations": n, "counted_distinct": counted_by_profile.get(p)}));
        }
        if samples.is_empty() {
            samples.push(json!({"note": "no sample recorded"}));
        }
        let ev = json!({
            "property_id": id,
            "tier": if tier == Tier::Quick {"quick"} else {"thorough"},
            "seed": seed,
            "level": info.level,
            "wall_s": t0.elapsed().as_secs_f64(),
            "violations": unknown.len(),
            "coverage": {
                "evaluations": evaluations,
                "distinct_nontrivial": distinct,
                "rule": info.rule,
                "samples": samples,
                "exhaustive": false,
                "exhaustive_subspaces": info.exhaustive_subspaces,
                "observed": obs_json,
                "profiles": prof_json,
                "shards_per_profile": n,
                "shards_completed": shard_results.len(),
                "slowest_shard_s": max_shard_wall,
                "inconclusive": inconclusive,
                "harness_errors": harness_errors,
                "known_findings_hit": known_hits.iter().map(|v| v.1.clone()).collect::<Vec<_>>(),
                "violation_list": unknown.iter().map(|v| json!({"signature": v.0, "what": v.1, "replay": v.2})).collect::<Vec<_>>(),
            },
            "assumptions": info.assumptions,
        });
        let _ = fs::create_dir_all(evidence_path.parent().unwrap());
        let _ = fs::write(&evidence_path, serde_json::to_string_pretty(&ev).unwrap());
    }

    println!(
        "{id} {}: {} evaluations, {} distinct non-trivial, {} shards, {:.1}s",
        if tier == Tier::Quick { "quick" } else { "thorough" },
        evaluations,
        distinct,
        shard_results.len(),
        t0.elapsed().as_secs_f64()
    );
    for v in &known_hits {
        println!("KNOWN-FINDING: property={id} {}", known.iter().find(|k| k.signature == v.0).map(|k| k.what.clone()).unwrap_or(v.1.clone()));
    }
    for m in &inconclusive {
        println!("INCONCLUSIVE: {m}");
    }
    for v in &unknown {
        println!("  {}", v.1);
        println!("VIOLATION property={id} replay={}", v.2);
    }
    if !unknown.is_empty() {
        return 1;
    }
    if !harness_errors.is_empty() {
        for m in &harness_errors {
            println!("HARNESS-ERROR: {m}");
        }
        return 2;
    }
    0
}

//! One workload + oracle module per property.

use crate::rt::Ctx;

pub struct PropInfo {
    pub id: &'static str,
    /// EVIDENCE level: "exploration" | "fault_enumeration" | ...
    pub level: &'static str,
    /// How cases are generated and what makes one non-trivial / distinct.
    pub rule: &'static str,
    pub assumptions: &'static [&'static str],
    /// Sub-spaces that are enumerated completely by the run.
    pub exhaustive_subspaces: &'static [&'static str],
    /// Observation keys that must be non-zero after a full run (catalogue coverage);
    /// a zero makes the run "broken harness" (exit 2), never a pass.
    pub must_observe: &'static [&'static str],
    pub run: fn(&mut Ctx),
}

macro_rules! props {
    ($($m:ident),*) => {
        $(pub mod $m;)*
        pub fn all() -> Vec<PropInfo> {
            vec![$($m::info()),*]
        }
    };
}

props!(c01, c02, c03, c04, c05, c06, c07, c08, c09, c10, c11, c12, c13, c14, c15, c16, c17, c18, c19, c20);

pub mod c01_extra;

/// Cases that the orchestrator runs in a process of their own (stream names start with
/// "iso."), because they are expected to be able to kill the worker.
pub fn isolated_cases(id: &str, quick: bool, seed: u64) -> Vec<(String, u64)> {
    match id {
        "C01" => c01::isolated_cases(quick, seed),
        _ => vec![],
    }
}

pub fn find(id: &str) -> Option<PropInfo> {
    all().into_iter().find(|p| p.id.eq_ignore_ascii_case(id))
}

//! C20 clause 1: an `UnwindContext` reused across any history of successful, failing and
//! partially consumed evaluations gives the results of a fresh context.

use super::{flush, Out};
use crate::asm::Asm;
use crate::rt::{hex, Ctx, Rng};
use gimli::read::{
    BaseAddresses, CfaRule, DebugFrame, EhFrame, FrameDescriptionEntry, RegisterRule, UnwindContext, UnwindContextStorage, UnwindSection,
    UnwindTable, UnwindTableRow,
};
use gimli::{EndianSlice, Register, RunTimeEndian, StoreOnHeap};
use serde_json::json;

type R<'a> = EndianSlice<'a, RunTimeEndian>;

// ---------------------------------------------------------------- storages

#[derive(Clone, Debug, PartialEq, Eq)]
pub struct Small4x2;
impl UnwindContextStorage<usize> for Small4x2 {
    type Rules = [(Register, RegisterRule<usize>); 4];
    type Stack = [UnwindTableRow<usize, Self>; 2];
}
#[derive(Clone, Debug, PartialEq, Eq)]
pub struct Tiny1x1;
impl UnwindContextStorage<usize> for Tiny1x1 {
    type Rules = [(Register, RegisterRule<usize>); 1];
    type Stack = [UnwindTableRow<usize, Self>; 1];
}
#[derive(Clone, Debug, PartialEq, Eq)]
pub struct Box8x3;
impl UnwindContextStorage<usize> for Box8x3 {
    type Rules = Box<[(Register, RegisterRule<usize>); 8]>;
    type Stack = Box<[UnwindTableRow<usize, Self>; 3]>;
}
#[derive(Clone, Debug, PartialEq, Eq)]
pub struct VecStore;
impl UnwindContextStorage<usize> for VecStore {
    type Rules = Vec<(Register, RegisterRule<usize>)>;
    type Stack = Vec<UnwindTableRow<usize, Self>>;
}
#[derive(Clone, Debug, PartialEq, Eq)]
pub struct Wide200x8;
impl UnwindContextStorage<usize> for Wide200x8 {
    type Rules = [(Register, RegisterRule<usize>); 200];
    type Stack = Box<[UnwindTableRow<usize, Self>; 8]>;
}

pub const STORAGES: [&str; 6] = ["heap", "small4x2", "tiny1x1", "box8x3", "vec", "wide200x8"];

// ---------------------------------------------------------------- CFA programs

#[derive(Clone, Default)]
struct Prog(Vec<u8>);

fn uleb(v: u64) -> Vec<u8> {
    crate::asm::uleb_bytes(v)
}

impl Prog {
    fn new() -> Prog {
        Prog(vec![])
    }
    fn b(mut self, x: &[u8]) -> Prog {
        self.0.extend_from_slice(x);
        self
    }
    fn adv(self, d: u8) -> Prog {
        self.b(&[0x40 | (d & 0x3f)])
    }
    fn offset(self, reg: u8, off: u64) -> Prog {
        self.b(&[0x80 | (reg & 0x3f)]).b(&uleb(off))
    }
    fn restore(self, reg: u8) -> Prog {
        self.b(&[0xc0 | (reg & 0x3f)])
    }
    fn offset_ext(self, reg: u64, off: u64) -> Prog {
        self.b(&[0x05]).b(&uleb(reg)).b(&uleb(off))
    }
    fn restore_ext(self, reg: u64) -> Prog {
        self.b(&[0x06]).b(&uleb(reg))
    }
    fn undefined(self, reg: u64) -> Prog {
        self.b(&[0x07]).b(&uleb(reg))
    }
    fn same_value(self, reg: u64) -> Prog {
        self.b(&[0x08]).b(&uleb(reg))
    }
    fn register(self, a: u64, b: u64) -> Prog {
        self.b(&[0x09]).b(&uleb(a)).b(&uleb(b))
    }
    fn remember(self) -> Prog {
        self.b(&[0x0a])
    }
    fn restore_state(self) -> Prog {
        self.b(&[0x0b])
    }
    fn def_cfa(self, reg: u64, off: u64) -> Prog {
        self.b(&[0x0c]).b(&uleb(reg)).b(&uleb(off))
    }
    fn def_cfa_reg(self, reg: u64) -> Prog {
        self.b(&[0x0d]).b(&uleb(reg))
    }
    fn def_cfa_off(self, off: u64) -> Prog {
        self.b(&[0x0e]).b(&uleb(off))
    }
    fn def_cfa_expr(self, e: &[u8]) -> Prog {
        self.b(&[0x0f]).b(&uleb(e.len() as u64)).b(e)
    }
    fn expr(self, reg: u64, e: &[u8]) -> Prog {
        self.b(&[0x10]).b(&uleb(reg)).b(&uleb(e.len() as u64)).b(e)
    }
    fn val_expr(self, reg: u64, e: &[u8]) -> Prog {
        self.b(&[0x16]).b(&uleb(reg)).b(&uleb(e.len() as u64)).b(e)
    }
    fn offset_ext_sf(self, reg: u64, off: i64) -> Prog {
        self.b(&[0x11]).b(&uleb(reg)).b(&crate::asm::sleb_bytes(off))
    }
    fn def_cfa_sf(self, reg: u64, off: i64) -> Prog {
        self.b(&[0x12]).b(&uleb(reg)).b(&crate::asm::sleb_bytes(off))
    }
    fn val_offset(self, reg: u64, off: u64) -> Prog {
        self.b(&[0x14]).b(&uleb(reg)).b(&uleb(off))
    }
    fn args_size(self, n: u64) -> Prog {
        self.b(&[0x2e]).b(&uleb(n))
    }
    fn negate_ra(self) -> Prog {
        self.b(&[0x2d])
    }
}

/// What the pool entry is for (only used for observation counters).
#[derive(Clone)]
struct Spec {
    label: &'static str,
    cie: Prog,
    fde: Prog,
    /// special placement: FDE starts `top - 4` (address overflow on advance)
    at_top: bool,
    /// emit `DW_CFA_set_loc start+1` after the program (needs the address)
    set_loc_back: bool,
}

fn spec(label: &'static str, cie: Prog, fde: Prog) -> Spec {
    Spec { label, cie, fde, at_top: false, set_loc_back: false }
}

fn specs() -> Vec<Spec> {
    let cie0 = || Prog::new().def_cfa(7, 8);
    let cie1 = || Prog::new().def_cfa(7, 8).offset(16, 2);
    let cie_m = || Prog::new().def_cfa(7, 8).offset(16, 2).offset(6, 4).same_value(3).register(12, 13);
    let e1: &[u8] = &[0x77, 0x08]; // breg7 8
    let e2: &[u8] = &[0x76, 0x10, 0x06]; // breg6 16 deref
    let mut many = Prog::new().adv(1);
    for i in 0..200u64 {
        many = many.offset_ext(100 + i, i);
    }
    many = many.adv(1);
    let mut v = vec![
        spec(
            "ok0",
            cie0(),
            Prog::new().adv(1).def_cfa_off(16).adv(1).offset(6, 4).adv(2).def_cfa_reg(6).adv(1).restore(6).adv(1).def_cfa(7, 8),
        ),
        spec(
            "ok1",
            cie1(),
            Prog::new().adv(1).offset(16, 5).adv(1).restore(16).adv(1).offset(3, 3).adv(1).restore(3).undefined(12).adv(1).same_value(12),
        ),
        spec(
            "okM",
            cie_m(),
            Prog::new()
                .adv(1)
                .offset(16, 9)
                .undefined(6)
                .adv(1)
                .restore(16)
                .adv(1)
                .restore(6)
                .remember()
                .offset(3, 7)
                .def_cfa(6, 32)
                .adv(1)
                .restore_state()
                .adv(1)
                .restore_ext(12)
                .val_offset(13, 2),
        ),
        spec("cie_restore_bad", Prog::new().def_cfa(7, 8).offset(16, 2).offset(6, 3).restore(16), Prog::new().adv(1).offset(3, 1)),
        spec(
            "cie_cfaexpr_bad",
            Prog::new().offset(3, 1).remember().def_cfa_expr(e1).args_size(24).def_cfa_off(4),
            Prog::new().adv(1).offset(3, 1),
        ),
        spec("cie_pop_bad", Prog::new().offset(6, 1).restore_state(), Prog::new().adv(1)),
        spec("cie_unknown", Prog::new().def_cfa(7, 8).offset(16, 2).b(&[0x3f]), Prog::new().adv(1)),
        spec(
            "mid_pop",
            cie1(),
            Prog::new().adv(1).offset(6, 4).def_cfa_off(24).adv(1).remember().offset(3, 3).adv(1).restore_state().adv(1).restore_state().adv(1),
        ),
        spec(
            "mid_ctx",
            cie_m(),
            Prog::new().adv(1).def_cfa_expr(e1).expr(3, e2).adv(1).args_size(8).remember().adv(1).def_cfa_off(8).adv(1),
        ),
        spec(
            "stack_full0",
            cie0(),
            Prog::new()
                .adv(1)
                .remember()
                .offset(3, 1)
                .adv(1)
                .remember()
                .offset(6, 2)
                .adv(1)
                .remember()
                .adv(1)
                .remember()
                .adv(1)
                .remember()
                .adv(1)
                .remember()
                .adv(1)
                .remember()
                .adv(1)
                .remember()
                .adv(1),
        ),
        spec("stack_fullM", cie_m(), Prog::new().adv(1).remember().undefined(16).adv(1).remember().adv(1).remember().adv(1)),
        spec("rule_overflow", cie0(), many),
        spec(
            "leave_rows",
            cie1(),
            Prog::new().adv(1).remember().offset(6, 1).adv(1).remember().offset(3, 2).def_cfa(6, 0).adv(1).args_size(16),
        ),
        spec("args", Prog::new().def_cfa(7, 8).args_size(0x20).offset(16, 2), Prog::new().adv(1).args_size(0x40).adv(1).offset(6, 3)),
        spec("noargs", cie0(), Prog::new().adv(1).offset(6, 3).adv(1)),
        spec(
            "cfa_expr",
            Prog::new().def_cfa_expr(e1).expr(16, e2).val_expr(6, e1),
            Prog::new().adv(1).val_expr(3, e2).adv(1).def_cfa(7, 8).adv(1).restore(16).restore(6).adv(1).def_cfa_sf(6, -2).offset_ext_sf(3, -3),
        ),
        spec(
            "cie_rem_ok",
            Prog::new().def_cfa(7, 16).offset(16, 2).offset(6, 4).remember().offset(3, 6),
            Prog::new().adv(1).offset(12, 1).adv(1).restore_state().adv(1).restore(3).restore(6).adv(1),
        ),
        spec(
            "cie_rem_pop",
            Prog::new().def_cfa(7, 16).offset(16, 2).offset(6, 4).remember().offset(3, 6),
            Prog::new().adv(1).restore_state().adv(1).restore_state().adv(1),
        ),
        spec(
            "cie_rem1",
            Prog::new().def_cfa(7, 8).offset(16, 2).remember(),
            Prog::new().adv(1).offset(16, 7).adv(1).restore_state().adv(1).restore(16).adv(1).restore_state(),
        ),
        spec("cie_full", cie_m().remember().remember().remember(), Prog::new().adv(1).offset(3, 1)),
        spec("trunc", cie1(), Prog::new().adv(1).offset(6, 1).adv(1).b(&[0x0f]).b(&uleb(100))),
        spec(
            "negate_ra",
            cie0(),
            Prog::new().adv(1).negate_ra().adv(1).negate_ra().adv(1).offset(34, 1).adv(1).negate_ra().adv(1),
        ),
    ];
    let mut s = spec("set_loc_back", cie1(), Prog::new().adv(2).offset(6, 1));
    s.set_loc_back = true;
    v.push(s);
    let mut s = spec("adv_overflow", cie0(), Prog::new().adv(2).offset(6, 1).adv(1).adv(4).offset(3, 1).adv(1));
    s.at_top = true;
    v.push(s);
    v
}

// ---------------------------------------------------------------- pool sections

#[derive(Clone, Copy, Debug, PartialEq)]
pub enum Kind {
    Debug,
    Eh,
}

#[derive(Clone, Copy, Debug)]
pub struct Cfg {
    pub kind: Kind,
    pub le: bool,
    pub fmt64: bool,
    pub addr: u8,
    pub cie_version: u8,
}

impl Cfg {
    fn label(&self) -> String {
        format!(
            "{}/{}/{}/a{}/cie_v{}",
            if self.kind == Kind::Debug { "debug_frame" } else { "eh_frame" },
            if self.le { "le" } else { "be" },
            if self.fmt64 { 64 } else { 32 },
            self.addr,
            self.cie_version
        )
    }
    fn endian(&self) -> RunTimeEndian {
        if self.le {
            RunTimeEndian::Little
        } else {
            RunTimeEndian::Big
        }
    }
    fn mask(&self) -> u64 {
        if self.addr >= 8 {
            u64::MAX
        } else {
            (1u64 << (8 * self.addr as u32)) - 1
        }
    }
}

pub fn variants() -> Vec<Cfg> {
    vec![
        Cfg { kind: Kind::Debug, le: true, fmt64: false, addr: 8, cie_version: 1 },
        Cfg { kind: Kind::Eh, le: true, fmt64: false, addr: 8, cie_version: 1 },
        Cfg { kind: Kind::Debug, le: false, fmt64: false, addr: 4, cie_version: 3 },
        Cfg { kind: Kind::Debug, le: true, fmt64: true, addr: 8, cie_version: 4 },
        Cfg { kind: Kind::Eh, le: false, fmt64: false, addr: 4, cie_version: 1 },
        Cfg { kind: Kind::Debug, le: false, fmt64: false, addr: 2, cie_version: 4 },
        Cfg { kind: Kind::Debug, le: true, fmt64: false, addr: 1, cie_version: 1 },
        Cfg { kind: Kind::Eh, le: true, fmt64: true, addr: 8, cie_version: 3 },
    ]
}

pub struct FdeInfo {
    pub label: &'static str,
    pub offset: usize,
    pub start: u64,
    pub range: u64,
}

pub struct Pool {
    pub cfg: Cfg,
    pub bytes: Vec<u8>,
    pub fdes: Vec<FdeInfo>,
}

fn pad(a: &mut Asm, body: usize, align: usize) {
    while (a.len() - body) % align.max(1) != 0 {
        a.u8(0);
    }
}

pub fn build_pool(cfg: Cfg) -> Pool {
    let specs = specs();
    let mut a = Asm::new(cfg.le);
    a.map = false;
    let asz = cfg.addr as usize;
    let (base, stride, range): (u64, u64, u64) = match cfg.addr {
        1 => (0, 10, 10),
        2 => (0x100, 0x20, 10),
        _ => (0x1000, 0x40, 10),
    };
    let mut fdes = vec![];
    for (i, s) in specs.iter().enumerate() {
        let (start, rng) = if s.at_top { (cfg.mask() - 4, 4) } else { (base + stride * i as u64, range) };
        // ---- CIE
        let cie_off = a.len();
        let m = a.begin_length(cfg.fmt64);
        match cfg.kind {
            Kind::Debug => {
                a.word(cfg.fmt64, u64::MAX);
            }
            Kind::Eh => {
                a.u32(0);
            }
        }
        a.u8(cfg.cie_version);
        match cfg.kind {
            Kind::Debug => {
                a.cstr(b"");
                if cfg.cie_version == 4 {
                    a.u8(cfg.addr).u8(0);
                }
            }
            Kind::Eh => {
                a.cstr(b"zR");
            }
        }
        a.uleb(1).sleb(-4);
        if cfg.cie_version == 1 {
            a.u8(16);
        } else {
            a.uleb(16);
        }
        if cfg.kind == Kind::Eh {
            a.uleb(1).u8(0x00); // augmentation data: FDE pointer encoding = absptr
        }
        a.bytes(&s.cie.0);
        pad(&mut a, m.body, asz);
        a.end_length(m);
        // ---- FDE
        let fde_off = a.len();
        let m = a.begin_length(cfg.fmt64);
        match cfg.kind {
            Kind::Debug => {
                a.word(cfg.fmt64, cie_off as u64);
            }
            Kind::Eh => {
                let here = a.len();
                a.u32((here - cie_off) as u32);
            }
        }
        a.uint(asz, start).uint(asz, rng);
        if cfg.kind == Kind::Eh {
            a.uleb(0);
        }
        a.bytes(&s.fde.0);
        if s.set_loc_back {
            a.u8(0x01).uint(asz, start + 1).u8(0x40 | 1);
        }
        pad(&mut a, m.body, asz);
        a.end_length(m);
        fdes.push(FdeInfo { label: s.label, offset: fde_off, start, range: rng });
    }
    if cfg.kind == Kind::Eh {
        a.u32(0);
    }
    Pool { cfg, bytes: a.buf, fdes }
}

// ---------------------------------------------------------------- operations and outcomes

#[derive(Clone, Copy, Debug, PartialEq)]
pub enum Mode {
    /// `fde.rows()` then `next_row` to the end
    Full,
    /// `UnwindTable::new` then `next_row` to the end
    NewFull,
    /// `fde.rows()`, k rows, `into_current_row`
    Partial(u8),
    /// `fde.unwind_info_for_address(probe j)`
    Probe(u8),
    /// `section.unwind_info_for_address(probe j)`
    Lookup(u8),
}

#[derive(Clone, Copy, Debug, PartialEq)]
pub struct Op {
    pub fde: usize,
    pub mode: Mode,
}

#[derive(Clone, Debug, PartialEq)]
struct Row {
    start: u64,
    end: u64,
    args: u64,
    cfa: CfaRule<usize>,
    regs: Vec<(u16, RegisterRule<usize>)>,
}

#[derive(Clone, Debug, PartialEq, Default)]
struct Outcome {
    rows: Vec<Row>,
    current: Option<Row>,
    err: Option<gimli::Error>,
    /// did the operation reach `UnwindContext::initialize`?
    touched: bool,
    /// unsorted register orders (secondary)
    order: Vec<Vec<u16>>,
}

fn snap<S: UnwindContextStorage<usize>>(row: &UnwindTableRow<usize, S>) -> (Row, Vec<u16>) {
    let mut regs: Vec<(u16, RegisterRule<usize>)> = row.registers().map(|(r, rule)| (r.0, rule.clone())).collect();
    let order: Vec<u16> = regs.iter().map(|x| x.0).collect();
    regs.sort_by_key(|x| x.0);
    (
        Row { start: row.start_address(), end: row.end_address(), args: row.saved_args_size(), cfa: row.cfa().clone(), regs },
        order,
    )
}

const NPROBE: u8 = 7;

fn probe(info: &FdeInfo, j: u8, mask: u64) -> u64 {
    let s = info.start;
    (match j % NPROBE {
        0 => s,
        1 => s.wrapping_add(1),
        2 => s.wrapping_add(3),
        3 => s.wrapping_add(info.range).wrapping_sub(1),
        4 => s.wrapping_add(info.range),
        5 => s.wrapping_sub(1),
        _ => s.wrapping_add(5),
    }) & mask
}

struct Env<'e, 'a, Sec> {
    sec: &'e Sec,
    bases: &'e BaseAddresses,
    fdes: &'e [FrameDescriptionEntry<R<'a>>],
    pool: &'e Pool,
}

const MAX_ROWS: usize = 64;

fn run_op<'e, 'a, Sec, S>(env: &Env<'e, 'a, Sec>, ctx: &mut UnwindContext<usize, S>, op: Op) -> Outcome
where
    Sec: UnwindSection<R<'a>>,
    S: UnwindContextStorage<usize>,
{
    let mut out = Outcome::default();
    let fde = &env.fdes[op.fde];
    let info = &env.pool.fdes[op.fde];
    let mask = env.pool.cfg.mask();
    match op.mode {
        Mode::Full | Mode::NewFull | Mode::Partial(_) => {
            out.touched = true;
            let limit = match op.mode {
                Mode::Partial(k) => k as usize,
                _ => MAX_ROWS,
            };
            let table = if op.mode == Mode::NewFull { UnwindTable::new(env.sec, env.bases, ctx, fde) } else { fde.rows(env.sec, env.bases, ctx) };
            match table {
                Err(e) => out.err = Some(e),
                Ok(mut table) => {
                    let mut n = 0usize;
                    while n < limit {
                        n += 1;
                        match table.next_row() {
                            Ok(Some(row)) => {
                                let (r, o) = snap(row);
                                out.rows.push(r);
                                out.order.push(o);
                            }
                            Ok(None) => break,
                            Err(e) => {
                                out.err = Some(e);
                                break;
                            }
                        }
                    }
                    if let Some(row) = table.into_current_row() {
                        let (r, o) = snap(row);
                        out.current = Some(r);
                        out.order.push(o);
                    }
                }
            }
        }
        Mode::Probe(j) => {
            out.touched = true;
            match fde.unwind_info_for_address(env.sec, env.bases, ctx, probe(info, j, mask)) {
                Ok(row) => {
                    let (r, o) = snap(row);
                    out.current = Some(r);
                    out.order.push(o);
                }
                Err(e) => out.err = Some(e),
            }
        }
        Mode::Lookup(j) => {
            let addr = probe(info, j, mask);
            out.touched = env.sec.fde_for_address(env.bases, addr, Sec::cie_from_offset).is_ok();
            match env.sec.unwind_info_for_address(env.bases, ctx, addr, Sec::cie_from_offset) {
                Ok(row) => {
                    let (r, o) = snap(row);
                    out.current = Some(r);
                    out.order.push(o);
                }
                Err(e) => out.err = Some(e),
            }
        }
    }
    out
}

fn err_name(e: &gimli::Error) -> String {
    let s = format!("{e:?}");
    s.split(|c: char| !(c.is_alphanumeric() || c == '_')).next().unwrap_or("").to_string()
}

/// Execute `ops` on one context of storage `S`; compare every step with a fresh context.
fn run_history<'e, 'a, Sec, S>(env: &Env<'e, 'a, Sec>, ops: &[Op], sname: &str, clone_at_end: bool, out: &mut Out)
where
    Sec: UnwindSection<R<'a>>,
    S: UnwindContextStorage<usize> + Clone + PartialEq,
    <S as UnwindContextStorage<usize>>::Stack: Clone + PartialEq,
{
    let mut reused: UnwindContext<usize, S> = UnwindContext::new_in();
    let mut prev_failed: Option<bool> = None;
    out.stats.add(&format!("ctx.storage.{sname}"));
    for (i, op) in ops.iter().enumerate() {
        let got = run_op(env, &mut reused, *op);
        let mut fresh: UnwindContext<usize, S> = UnwindContext::new_in();
        let want = run_op(env, &mut fresh, *op);
        out.evals += 1;
        let label = env.pool.fdes[op.fde].label;
        let note = || format!("step {i} of {}: {:?} ({label}), storage {sname}", ops.len(), op);
        out.cmp("ctx.reuse.rows", &want.rows, &got.rows, &note);
        out.cmp("ctx.reuse.error", &want.err, &got.err, &note);
        out.cmp("ctx.reuse.current_row", &want.current, &got.current, &note);
        if want.order != got.order {
            out.stats.add("secondary.rule_order");
        }
        if want.touched {
            out.stats.add("ctx.ctx_eq_checked");
            if reused != fresh {
                out.cmp("ctx.reuse.context_eq", &format!("{fresh:?}"), &format!("{reused:?}"), &note);
            }
        }
        // observations (from the fresh run only)
        out.stats.add(&format!("ctx.fde.{label}"));
        out.stats.add(match op.mode {
            Mode::Full | Mode::NewFull => "ctx.op.full",
            Mode::Partial(_) => "ctx.op.partial",
            Mode::Probe(_) => "ctx.op.probe",
            Mode::Lookup(_) => "ctx.op.lookup",
        });
        let failed = want.err.is_some();
        match &want.err {
            None => out.stats.add("ctx.fresh.ok"),
            Some(e) => out.stats.add(&format!("ctx.err.{}", err_name(e))),
        }
        match (prev_failed, failed) {
            (Some(true), false) => out.stats.add("ctx.ok_after_fail"),
            (Some(false), true) => out.stats.add("ctx.fail_after_ok"),
            (Some(true), true) => out.stats.add("ctx.fail_after_fail"),
            _ => {}
        }
        prev_failed = Some(failed);
    }
    if clone_at_end && !ops.is_empty() {
        // a clone of a used context is reusable state as well
        let mut c = reused.clone();
        for op in [ops[0], ops[ops.len() - 1]] {
            let got = run_op(env, &mut c, op);
            let mut fresh: UnwindContext<usize, S> = UnwindContext::new_in();
            let want = run_op(env, &mut fresh, op);
            out.evals += 1;
            let note = || format!("clone of the used context, {:?}, storage {sname}", op);
            out.cmp("ctx.clone.rows", &want.rows, &got.rows, &note);
            out.cmp("ctx.clone.error", &want.err, &got.err, &note);
            out.cmp("ctx.clone.current_row", &want.current, &got.current, &note);
            if want.touched && c != fresh {
                out.cmp("ctx.clone.context_eq", &format!("{fresh:?}"), &format!("{c:?}"), &note);
            }
            out.stats.add("ctx.clone_checked");
        }
    }
}

fn run_history_storage<'e, 'a, Sec>(env: &Env<'e, 'a, Sec>, ops: &[Op], storage: usize, clone_at_end: bool, out: &mut Out)
where
    Sec: UnwindSection<R<'a>>,
{
    match storage % STORAGES.len() {
        0 => run_history::<Sec, StoreOnHeap>(env, ops, STORAGES[0], clone_at_end, out),
        1 => run_history::<Sec, Small4x2>(env, ops, STORAGES[1], clone_at_end, out),
        2 => run_history::<Sec, Tiny1x1>(env, ops, STORAGES[2], clone_at_end, out),
        3 => run_history::<Sec, Box8x3>(env, ops, STORAGES[3], clone_at_end, out),
        4 => run_history::<Sec, VecStore>(env, ops, STORAGES[4], clone_at_end, out),
        _ => run_history::<Sec, Wide200x8>(env, ops, STORAGES[5], clone_at_end, out),
    }
}

// ---------------------------------------------------------------- enumeration

pub const NPATTERN: usize = 4;

/// Mode of step `i` of a history of length `len` under pattern `p` (h varies the parameters).
fn pattern_mode(p: usize, i: usize, len: usize, h: u64) -> Mode {
    let last = i + 1 == len;
    let x = (h as usize).wrapping_add(i * 3);
    match p % NPATTERN {
        0 => Mode::Full,
        1 => {
            if last {
                Mode::NewFull
            } else {
                Mode::Partial((x % 4) as u8)
            }
        }
        2 => Mode::Probe((x % NPROBE as usize) as u8),
        _ => {
            if last {
                Mode::Full
            } else {
                Mode::Lookup((x % NPROBE as usize) as u8)
            }
        }
    }
}

/// Decode history index `h` into FDE indices: lengths 1..=maxlen, n symbols.
fn decode_history(mut h: u64, n: u64, maxlen: u32) -> Option<Vec<usize>> {
    for len in 1..=maxlen {
        let cnt = n.pow(len);
        if h < cnt {
            let mut v = vec![];
            for _ in 0..len {
                v.push((h % n) as usize);
                h /= n;
            }
            return Some(v);
        }
        h -= cnt;
    }
    None
}

fn total_histories(n: u64, maxlen: u32) -> u64 {
    (1..=maxlen).map(|l| n.pow(l)).sum()
}

fn ops_json(pool: &Pool, ops: &[Op]) -> serde_json::Value {
    json!(ops.iter().map(|o| format!("{}:{:?}", pool.fdes[o.fde].label, o.mode)).collect::<Vec<_>>())
}

fn drive<'a, Sec>(ctx: &mut Ctx, vi: usize, nvar: usize, pool: &Pool, sec: &Sec)
where
    Sec: UnwindSection<R<'a>>,
    Sec::Offset: From<usize>,
{
    let bases = BaseAddresses::default();
    // parse the pool's FDEs once
    let mut fdes = vec![];
    for f in &pool.fdes {
        match sec.fde_from_offset(&bases, Sec::Offset::from(f.offset), Sec::cie_from_offset) {
            Ok(fde) => {
                if fde.initial_address() != f.start || fde.len() != f.range {
                    ctx.harness_error(&format!("C20 pool {}: FDE {} parsed with different addresses", pool.cfg.label(), f.label));
                    return;
                }
                fdes.push(fde);
            }
            Err(e) => {
                ctx.harness_error(&format!("C20 pool {}: FDE {} does not parse: {e:?}", pool.cfg.label(), f.label));
                return;
            }
        }
    }
    let env = Env { sec, bases: &bases, fdes: &fdes, pool };
    let n = pool.fdes.len() as u64;
    let dbg = ctx.dbg() || ctx.slow();
    ctx.obs(if pool.cfg.kind == Kind::Debug { "ctx.kind.debug_frame" } else { "ctx.kind.eh_frame" });

    // ---- exhaustive: every history of length <= 3, every variant (rel) / one variant (dbg)
    // (Miri slice: lengths <= 2 only)
    let total3 = total_histories(n, if ctx.slow() { 2 } else { 3 });
    for h in 0..total3 {
        let idx = h * nvar as u64 + vi as u64;
        if dbg && (h.wrapping_add(ctx.seed)) % nvar as u64 != vi as u64 {
            continue;
        }
        if !ctx.want("ctx.h3", idx) {
            continue;
        }
        let Some(hist) = decode_history(h, n, 3) else { continue };
        let len = hist.len();
        let combos: Vec<(usize, usize)> = if dbg {
            // two (storage, pattern) pairs per history, rotating
            let k = (h.wrapping_add(ctx.seed)) as usize;
            vec![(k % STORAGES.len(), k % NPATTERN), ((k / 7 + 3) % STORAGES.len(), (k / 5 + 1) % NPATTERN)]
        } else {
            let mut c = vec![];
            for s in 0..STORAGES.len() {
                for p in 0..NPATTERN {
                    c.push((s, p));
                }
            }
            c
        };
        let input = || json!({"variant": pool.cfg.label(), "section": hex(&pool.bytes), "history": hist.iter().map(|k| pool.fdes[*k].label).collect::<Vec<_>>()});
        let res = ctx.guard("UnwindContext.history", &input, || {
            let mut out = Out::default();
            for (s, p) in &combos {
                let ops: Vec<Op> = hist.iter().enumerate().map(|(i, k)| Op { fde: *k, mode: pattern_mode(*p, i, len, h) }).collect();
                run_history_storage(&env, &ops, *s, false, &mut out);
            }
            out
        });
        flush(ctx, res, &input);
        ctx.obs(&format!("ctx.hist.len{len}"));
        if len >= 2 {
            ctx.counted_distinct += 1;
        }
        if h == n + 3 * n + 4 && vi == 0 {
            let lbl: Vec<&str> = hist.iter().map(|k| pool.fdes[*k].label).collect();
            let mut c: UnwindContext<usize> = UnwindContext::new();
            let last = run_op(&env, &mut c, Op { fde: hist[len - 1], mode: Mode::Full });
            ctx.sample("ctx.history", || json!({"variant": pool.cfg.label(), "history": lbl, "fresh_result_of_last": format!("{:?}", (last.rows.len(), last.err))}));
        }
    }

    // ---- thorough: every history of length 4, one variant / storage / pattern per history
    if !ctx.quick() && !dbg {
        let base3 = total3;
        let total4 = n.pow(4);
        for h in 0..total4 {
            if h % nvar as u64 != vi as u64 {
                continue;
            }
            if !ctx.want("ctx.h4", h) {
                continue;
            }
            let Some(hist) = decode_history(base3 + h, n, 4) else { continue };
            let k = (h / nvar as u64).wrapping_add(ctx.seed) as usize;
            let (s, p) = (k % STORAGES.len(), (k / STORAGES.len()) % NPATTERN);
            let ops: Vec<Op> = hist.iter().enumerate().map(|(i, f)| Op { fde: *f, mode: pattern_mode(p, i, 4, h) }).collect();
            let input = || json!({"variant": pool.cfg.label(), "section": hex(&pool.bytes), "ops": ops_json(pool, &ops), "storage": STORAGES[s]});
            let res = ctx.guard("UnwindContext.history4", &input, || {
                let mut out = Out::default();
                run_history_storage(&env, &ops, s, false, &mut out);
                out
            });
            flush(ctx, res, &input);
            ctx.obs("ctx.hist.len4");
            ctx.counted_distinct += 1;
        }
    }

    // ---- random histories of length 4..=30 with random modes
    let nr = ctx.size(24_000, 240_000, 10);
    for i in 0..nr {
        if i % nvar as u64 != vi as u64 {
            continue;
        }
        if !ctx.want("ctx.random", i) {
            continue;
        }
        let mut r = ctx.rng("ctx.random", i);
        let len = 4 + r.usize(27);
        let storage = r.usize(STORAGES.len());
        // bias: sometimes draw from a small sub-pool so that the same CIE/FDE repeats
        let sub: Vec<usize> = if r.chance(1, 3) { (0..3).map(|_| r.usize(n as usize)).collect() } else { (0..n as usize).collect() };
        let ops: Vec<Op> = (0..len).map(|_| Op { fde: *r.pick(&sub), mode: random_mode(&mut r) }).collect();
        let input = || json!({"variant": pool.cfg.label(), "section": hex(&pool.bytes), "ops": ops_json(pool, &ops), "storage": STORAGES[storage]});
        let res = ctx.guard("UnwindContext.random_history", &input, || {
            let mut out = Out::default();
            run_history_storage(&env, &ops, storage, true, &mut out);
            out
        });
        flush(ctx, res, &input);
        ctx.obs("ctx.hist.random");
        ctx.obs_max("ctx.hist.random.len", len as u64);
        let mut d = crate::rt::fnv(&[vi as u8, storage as u8]);
        for o in &ops {
            d = crate::rt::fnv_add(d, format!("{o:?}").as_bytes());
        }
        ctx.nontrivial(d);
        if i < nvar as u64 * 2 {
            ctx.sample("ctx.random", || json!({"variant": pool.cfg.label(), "storage": STORAGES[storage], "ops": ops_json(pool, &ops)}));
        }
    }
}

fn random_mode(r: &mut Rng) -> Mode {
    match r.below(10) {
        0..=2 => Mode::Full,
        3 => Mode::NewFull,
        4 | 5 => Mode::Partial(r.below(5) as u8),
        6 | 7 => Mode::Probe(r.below(NPROBE as u64) as u8),
        _ => Mode::Lookup(r.below(NPROBE as u64) as u8),
    }
}

pub fn run(ctx: &mut Ctx) {
    let cfgs = variants();
    let nvar = cfgs.len();
    let pools: Vec<Pool> = cfgs.into_iter().map(build_pool).collect();
    for (vi, pool) in pools.iter().enumerate() {
        match pool.cfg.kind {
            Kind::Debug => {
                let mut sec = DebugFrame::new(&pool.bytes, pool.cfg.endian());
                sec.set_address_size(pool.cfg.addr);
                sec.set_vendor(gimli::Vendor::AArch64);
                drive(ctx, vi, nvar, pool, &sec);
            }
            Kind::Eh => {
                let mut sec = EhFrame::new(&pool.bytes, pool.cfg.endian());
                sec.set_address_size(pool.cfg.addr);
                sec.set_vendor(gimli::Vendor::AArch64);
                drive(ctx, vi, nvar, pool, &sec);
            }
        }
    }
}

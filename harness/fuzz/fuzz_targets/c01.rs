#![no_main]
//! libFuzzer target for C01: one input = (entry point, configuration, sections); see
//! `gv::props::c01_fuzz`.  Built with AddressSanitizer, debug assertions and overflow checks.
use libfuzzer_sys::fuzz_target;
use std::sync::OnceLock;

static KNOWN: OnceLock<Vec<String>> = OnceLock::new();

fuzz_target!(|data: &[u8]| {
    let known = KNOWN.get_or_init(|| {
        let p = std::env::var("GV_KNOWN_FINDINGS").unwrap_or_else(|_| "/verif/known_findings.json".into());
        gv::props::c01_fuzz::known_open(std::path::Path::new(&p))
    });
    gv::props::c01_fuzz::fuzz_one(data, known);
});

//! Byte assembler with a field map, written independently of `gimli::write` so that it
//! can act as an oracle for "what was encoded".

use serde_json::{json, Value};

/// One encoding configuration.
#[derive(Clone, Copy, Debug, PartialEq, Eq, Hash)]
pub struct Enc {
    pub le: bool,
    pub fmt64: bool,
    pub version: u16,
    pub addr: u8,
}

impl Enc {
    pub fn new(le: bool, fmt64: bool, version: u16, addr: u8) -> Enc {
        Enc { le, fmt64, version, addr }
    }
    pub fn endian(&self) -> gimli::RunTimeEndian {
        if self.le {
            gimli::RunTimeEndian::Little
        } else {
            gimli::RunTimeEndian::Big
        }
    }
    pub fn format(&self) -> gimli::Format {
        if self.fmt64 {
            gimli::Format::Dwarf64
        } else {
            gimli::Format::Dwarf32
        }
    }
    pub fn encoding(&self) -> gimli::Encoding {
        gimli::Encoding {
            format: self.format(),
            version: self.version,
            address_size: self.addr,
        }
    }
    pub fn word(&self) -> u8 {
        if self.fmt64 {
            8
        } else {
            4
        }
    }
    pub fn addr_mask(&self) -> u64 {
        if self.addr >= 8 {
            u64::MAX
        } else {
            (1u64 << (8 * self.addr as u32)) - 1
        }
    }
    pub fn label(&self) -> String {
        format!(
            "{}/{}/v{}/a{}",
            if self.le { "le" } else { "be" },
            if self.fmt64 { 64 } else { 32 },
            self.version,
            self.addr
        )
    }
    pub fn json(&self) -> Value {
        json!(self.label())
    }
    /// All 2 x 2 x 4 x 4 = 64 configurations (versions 2-5, address sizes 1/2/4/8).
    pub fn all() -> Vec<Enc> {
        let mut v = vec![];
        for &le in &[true, false] {
            for &fmt64 in &[false, true] {
                for version in 2..=5u16 {
                    for &addr in &[1u8, 2, 4, 8] {
                        v.push(Enc { le, fmt64, version, addr });
                    }
                }
            }
        }
        v
    }
    /// The i-th configuration (wraps).
    pub fn nth(i: u64) -> Enc {
        let all = Enc::all();
        all[(i % all.len() as u64) as usize]
    }
    pub fn random(r: &mut crate::rt::Rng) -> Enc {
        Enc::nth(r.next())
    }
}

#[derive(Clone, Copy, Debug, PartialEq, Eq)]
pub enum FieldKind {
    Length,
    Count,
    Offset,
    Index,
    Address,
    Uleb,
    Sleb,
    Opcode,
    Form,
    Version,
    Size,
    Data,
    Str,
    Other,
}

#[derive(Clone, Debug)]
pub struct Field {
    pub off: usize,
    pub len: usize,
    pub kind: FieldKind,
    pub name: &'static str,
}

#[derive(Clone, Debug)]
pub struct Asm {
    pub buf: Vec<u8>,
    pub le: bool,
    pub fields: Vec<Field>,
    /// record fields? (off for bulk data to keep the map small)
    pub map: bool,
}

pub fn uleb_bytes(mut v: u64) -> Vec<u8> {
    let mut out = vec![];
    loop {
        let b = (v & 0x7f) as u8;
        v >>= 7;
        if v == 0 {
            out.push(b);
            return out;
        }
        out.push(b | 0x80);
    }
}

pub fn sleb_bytes(mut v: i64) -> Vec<u8> {
    let mut out = vec![];
    loop {
        let b = (v & 0x7f) as u8;
        let sign = b & 0x40 != 0;
        v >>= 7;
        if (v == 0 && !sign) || (v == -1 && sign) {
            out.push(b);
            return out;
        }
        out.push(b | 0x80);
    }
}

/// ULEB128 padded to exactly `n` bytes (non-canonical but valid), n >= canonical length.
pub fn uleb_padded(v: u64, n: usize) -> Vec<u8> {
    let mut out = uleb_bytes(v);
    if out.len() < n {
        let last = out.len() - 1;
        out[last] |= 0x80;
        while out.len() < n - 1 {
            out.push(0x80);
        }
        out.push(0);
    }
    out
}

impl Asm {
    pub fn new(le: bool) -> Asm {
        Asm { buf: vec![], le, fields: vec![], map: true }
    }
    pub fn len(&self) -> usize {
        self.buf.len()
    }
    pub fn is_empty(&self) -> bool {
        self.buf.is_empty()
    }
    fn rec(&mut self, off: usize, kind: FieldKind, name: &'static str) {
        if self.map {
            let len = self.buf.len() - off;
            self.fields.push(Field { off, len, kind, name });
        }
    }
    pub fn u8(&mut self, v: u8) -> &mut Self {
        self.buf.push(v);
        self
    }
    /// n-byte unsigned integer (n in 0..=8), truncating `v`.
    pub fn uint(&mut self, n: usize, v: u64) -> &mut Self {
        let b = v.to_le_bytes();
        if self.le {
            self.buf.extend_from_slice(&b[..n]);
        } else {
            for i in (0..n).rev() {
                self.buf.push(b[i]);
            }
        }
        self
    }
    pub fn u16(&mut self, v: u16) -> &mut Self {
        self.uint(2, v as u64)
    }
    pub fn u32(&mut self, v: u32) -> &mut Self {
        self.uint(4, v as u64)
    }
    pub fn u64(&mut self, v: u64) -> &mut Self {
        self.uint(8, v)
    }
    pub fn u128(&mut self, v: u128) -> &mut Self {
        let b = v.to_le_bytes();
        if self.le {
            self.buf.extend_from_slice(&b);
        } else {
            for i in (0..16).rev() {
                self.buf.push(b[i]);
            }
        }
        self
    }
    pub fn uleb(&mut self, v: u64) -> &mut Self {
        self.buf.extend_from_slice(&uleb_bytes(v));
        self
    }
    pub fn sleb(&mut self, v: i64) -> &mut Self {
        self.buf.extend_from_slice(&sleb_bytes(v));
        self
    }
    pub fn bytes(&mut self, b: &[u8]) -> &mut Self {
        self.buf.extend_from_slice(b);
        self
    }
    /// NUL-terminated string.
    pub fn cstr(&mut self, s: &[u8]) -> &mut Self {
        self.buf.extend_from_slice(s);
        self.buf.push(0);
        self
    }
    /// Offset-sized word (4 or 8 bytes).
    pub fn word(&mut self, fmt64: bool, v: u64) -> &mut Self {
        self.uint(if fmt64 { 8 } else { 4 }, v)
    }
    // ---- tagged variants (recorded in the field map)
    pub fn f_uint(&mut self, kind: FieldKind, name: &'static str, n: usize, v: u64) -> &mut Self {
        let off = self.buf.len();
        self.uint(n, v);
        self.rec(off, kind, name);
        self
    }
    pub fn f_uleb(&mut self, kind: FieldKind, name: &'static str, v: u64) -> &mut Self {
        let off = self.buf.len();
        self.uleb(v);
        self.rec(off, kind, name);
        self
    }
    pub fn f_sleb(&mut self, kind: FieldKind, name: &'static str, v: i64) -> &mut Self {
        let off = self.buf.len();
        self.sleb(v);
        self.rec(off, kind, name);
        self
    }
    pub fn f_bytes(&mut self, kind: FieldKind, name: &'static str, b: &[u8]) -> &mut Self {
        let off = self.buf.len();
        self.bytes(b);
        self.rec(off, kind, name);
        self
    }
    /// Initial length placeholder; returns a handle to patch with `end_length`.
    pub fn begin_length(&mut self, fmt64: bool) -> LengthMark {
        let off = self.buf.len();
        if fmt64 {
            self.u32(0xffff_ffff);
            self.u64(0);
        } else {
            self.u32(0);
        }
        self.rec(off, FieldKind::Length, "initial_length");
        LengthMark { off, fmt64, body: self.buf.len() }
    }
    /// Patch the length so that it covers everything emitted since `begin_length`.
    pub fn end_length(&mut self, m: LengthMark) {
        let len = (self.buf.len() - m.body) as u64;
        if m.fmt64 {
            self.patch_uint(m.off + 4, 8, len);
        } else {
            self.patch_uint(m.off, 4, len);
        }
    }
    pub fn patch_uint(&mut self, off: usize, n: usize, v: u64) {
        let b = v.to_le_bytes();
        for i in 0..n {
            self.buf[off + i] = if self.le { b[i] } else { b[n - 1 - i] };
        }
    }
    pub fn pad_to(&mut self, align: usize, fill: u8) {
        if align > 0 {
            while self.buf.len() % align != 0 {
                self.buf.push(fill);
            }
        }
    }
}

#[derive(Clone, Copy, Debug)]
pub struct LengthMark {
    pub off: usize,
    pub fmt64: bool,
    pub body: usize,
}

/// Read an n-byte unsigned integer from `b` (model side, independent of gimli).
pub fn get_uint(b: &[u8], le: bool, n: usize) -> u64 {
    let mut v: u64 = 0;
    for i in 0..n {
        let byte = if le { b[n - 1 - i] } else { b[i] };
        v = (v << 8) | byte as u64;
    }
    v
}

/// Values to substitute into a field of the given kind/size for structure-aware hostility.
pub fn hostile_values(kind: FieldKind, len: usize) -> Vec<u64> {
    let bits = (len * 8).min(64) as u32;
    let mask = if bits >= 64 { u64::MAX } else { (1u64 << bits) - 1 };
    let mut v: Vec<u64> = vec![0, 1, 2, 0x7f, 0x80, 0xff, mask, mask - 1, mask >> 1, (mask >> 1) + 1];
    match kind {
        FieldKind::Length | FieldKind::Count | FieldKind::Offset | FieldKind::Index | FieldKind::Size => {
            v.extend_from_slice(&[3, 4, 7, 8, 0xfff0 & mask, 0xffff_fff0 & mask, 1 << (bits - 1).min(61), 1 << (bits - 1).min(63)]);
        }
        _ => {}
    }
    v.sort();
    v.dedup();
    v.into_iter().map(|x| x & mask).collect()
}

/// Hostile LEB128 byte strings for a uleb/sleb field.
pub fn hostile_lebs() -> Vec<Vec<u8>> {
    let mut out = vec![];
    for v in crate::rt::EXTREMES {
        out.push(uleb_bytes(*v));
    }
    out.push(vec![0x80; 9].into_iter().chain([0x01]).collect());
    out.push(vec![0x80; 9].into_iter().chain([0x02]).collect());
    out.push(vec![0xff; 9].into_iter().chain([0x7f]).collect());
    out.push(vec![0xff; 10].into_iter().chain([0x00]).collect());
    out.push(vec![0x80; 20]);
    out.push(sleb_bytes(i64::MIN));
    out.push(sleb_bytes(-1));
    out.push(sleb_bytes(i64::MAX));
    out
}

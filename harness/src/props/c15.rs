//! C15 — written expressions decode to the same operations, branches and references.
//!
//! Expressions are built through every `write::Expression` builder, hosted in DIE
//! attributes, location lists and CFI instructions, written with `gimli::write`, read back
//! with `gimli::read` and compared with an expectation derived from the *built* program by
//! the harness (c15_core.rs): same operations, every branch on the start of the intended
//! operation, every reference on the entry with the intended identity, the block exactly as
//! long as its length prefix says; for an evaluable subset the emitted bytecode evaluates
//! to what a harness stack machine computes from the built program.

#[path = "c15_core.rs"]
mod xcore;
#[path = "c15_gen.rs"]
mod xgen;

use crate::asm::Enc;
use crate::props::PropInfo;
use crate::rt::{fnv, fnv_add, hex, Ctx, Rng};
use gimli::constants as dw;
use serde_json::{json, Value};
use std::collections::BTreeMap;
use xcore::*;
use xgen::*;

pub fn info() -> PropInfo {
    PropInfo {
        id: "C15",
        level: "exploration",
        rule: "Five streams. `single`: complete enumeration of ~640 atoms (every write::Expression builder incl. op(DwOp) for every operand-less opcode and raw(), with boundary operands: constants 31/32/127/128/2^k/u64::MAX, i64 extremes, registers 31/32/127/128/16383/16384/65535, pick 0/1/2/3/255, blocks of 0..129/255/256/16380..16384 bytes, entry_value with nested length 127/128/16383, nesting depth 3, references to the root, earlier, reordered, own, later and nested-later entries and to a second unit) x 4 wrappers (alone; skip forward over it + bra backward to it + skip to the end; the same inside an entry_value; bra backward to the start + skip to the end) x 64 encodings (versions 2-5 x Dwarf32/64 x address sizes 1/2/4/8 x both byte orders), hosted at once in an exprloc attribute, a two-item location list and (reference-free) in CIE and FDE CFI expressions (.debug_frame v1/3/4 and .eh_frame); programs with references must be rejected by the CFI writer; every other case exchanges the two units so that the host unit starts at a non-zero section offset; the unoptimised profile runs a 1/3 slice (chosen by the seed) of this stream in the quick tier and all of it in the thorough tier. `rand`: seeded write::Dwarf objects with 1-3 units of independent encodings, 2-9 entries (base types at the root, nested, after the referring entry), 0-3 exprloc attributes or location lists per entry with 0-12 random operations from all builders, random branch targets (forward, backward, to the end), nested entry_value to depth 3, unit and cross-unit references; 10% of the cases allow forward ULEB references in attributes (writer may refuse). `eval`: seeded programs of an evaluable subset (constants in every encoding incl. raw fixed-size forms, stack operations, arithmetic, comparisons, counted loops with backward bra, forward skip/bra over variable-length snippets, skip to the end, nested entry_value, breg/fbreg/addr/cfa/tls/deref requests) whose emitted bytecode is evaluated with read::Evaluation and compared with a harness stack machine run on the built program. `cfi`: seeded reference-free programs in CfaExpression/Expression/ValExpression instructions, and programs with entry references that must be rejected. `edge`: branch displacements of exactly +32767/+32768/-32768/-32769 bytes and location-list expression sizes 65535/65536 in all 64 encodings. A fraction of the successful cases is written a second time with every expression replaced by Expression::raw(read-back block): the sections must be byte-identical. A case is non-trivial when it contains at least one operation; enumerated cases are distinct by construction (index <-> (atom, wrapper, encoding) bijection), random cases are de-duplicated by a digest of the complete case description.",
        assumptions: &[
            "the writer may refuse (Err) a DIE-attribute expression whose ULEB entry reference points to an entry written later (Appendix A.6); if it accepts, the reference must resolve correctly",
            "Address::Symbol and DebugInfoRef::Symbol operands are not generated (relocation is C18); Expression::op is only given operand-less opcodes, set_target is always called with a target different from the branch, as documented",
            "the writer may refuse constants that do not fit the address size, const_type blocks > 255 bytes, and DWARF 2 implicit_pointer references that do not fit a 1/2-byte address-sized operand",
            "which of two equivalent opcodes (DW_OP_* vs DW_OP_GNU_*) is emitted is not part of the property statement; it is recorded as a secondary observation (secondary.opcode_family)",
            "DW_OP_piece sizes are generated below 2^61 bytes because read::Operation reports the size in bits",
            "generic values are compared modulo the address size; evaluation requests are answered by the same deterministic environment on both sides",
        ],
        exhaustive_subspaces: &["atoms x 4 wrappers x 64 encodings (stream single)", "branch displacement and location-list length limits x 64 encodings (stream edge)"],
        must_observe: &[
            "host.attr", "host.loclist", "host.cfi.cie", "host.cfi.fde", "host.cfi.eh", "cfi.ref_rejected", "ops.compared", "branch.forward", "branch.backward", "branch.to_end",
            "ref.uleb", "ref.fixed", "ref.info", "ref.cross_unit", "ref.after", "write.refused.forward_uleb", "write.refused.too_large", "nested.entry_value", "twin.identical",
            "eval.compared", "eval.loop", "eval.stack_error", "edge.ok", "edge.refused", "crosshost.bytes_equal", "v2.implicit_pointer", "builder.raw",
        ],
        run,
    }
}

// ================================================================ comparison helpers

fn classify(e: &X, g: &X) -> &'static str {
    match (e, g) {
        (X::Bra(_) | X::Skip(_), _) => "branch",
        (_, X::Bad(_)) => "reference",
        (X::EntryValue(a), X::EntryValue(b)) => {
            if a.len() != b.len() {
                return "nested.count";
            }
            for (x, y) in a.iter().zip(b.iter()) {
                if x != y {
                    return classify(x, y);
                }
            }
            "nested"
        }
        (
            X::Deref { .. } | X::RegisterOffset { .. } | X::CallUnit(_) | X::CallInfo(_) | X::VariableValue(_) | X::ImplicitPointer { .. } | X::ParameterRef(_) | X::TypedLiteral { .. } | X::Convert(_) | X::Reinterpret(_),
            _,
        ) if std::mem::discriminant(e) == std::mem::discriminant(g) => "reference_or_operand",
        _ => "operation",
    }
}

/// Compare expected and read-back operations; signature `<tag>.<host>.<class>`.
fn compare_xs(ctx: &mut Ctx, tag: &str, host: &str, expected: &[X], got: &[X], bytes: &[u8], input: &dyn Fn() -> Value) -> bool {
    ctx.obs("ops.compared");
    if expected == got {
        return true;
    }
    let class = if expected.len() != got.len() {
        "count"
    } else {
        let mut c = "operation";
        for (e, g) in expected.iter().zip(got.iter()) {
            if e != g {
                c = classify(e, g);
                break;
            }
        }
        c
    };
    let first = expected.iter().zip(got.iter()).position(|(e, g)| e != g).unwrap_or(expected.len().min(got.len()));
    let what = format!(
        "{tag}.{host}: operation #{first} differs: built {:?}, read back {:?} ({} built, {} read back; block {})",
        expected.get(first),
        got.get(first),
        expected.len(),
        got.len(),
        hex(&bytes[..bytes.len().min(64)])
    );
    ctx.fail(&format!("{tag}.{host}.ops.{class}"), &what.chars().take(600).collect::<String>(), input);
    false
}

fn obs_program(ctx: &mut Ctx, bs: &[B], host_unit: usize, depth: usize) {
    for (i, b) in bs.iter().enumerate() {
        match b {
            B::Skip(t) | B::Bra(t) => {
                if *t == bs.len() {
                    ctx.obs("branch.to_end");
                } else if *t > i {
                    ctx.obs("branch.forward");
                } else {
                    ctx.obs("branch.backward");
                }
            }
            B::EntryValue(inner) => {
                ctx.obs("nested.entry_value");
                ctx.obs_max("entry_value.depth", depth as u64 + 1);
                obs_program(ctx, inner, host_unit, depth + 1);
            }
            B::ConstType(..) | B::RegvalType(..) | B::DerefType(..) | B::XderefType(..) | B::Convert(Some(_)) | B::Reinterpret(Some(_)) => ctx.obs("ref.uleb"),
            B::Call(_) | B::ParameterRef(_) => ctx.obs("ref.fixed"),
            B::CallRef(e) | B::VariableValue(e) | B::ImplicitPointer(e, _) => {
                ctx.obs("ref.info");
                if e.unit != host_unit {
                    ctx.obs("ref.cross_unit");
                }
            }
            B::Raw(_) => ctx.obs("builder.raw"),
            _ => {}
        }
    }
}

// ================================================================ unit host

#[derive(Clone, Copy, PartialEq, Debug)]
pub enum Expect {
    /// decided by the licences found in the plan
    Auto,
    MustOk,
    MustErr,
}

pub struct Opts<'a> {
    pub tag: &'a str,
    pub expect: Expect,
    pub eval: bool,
    pub twin: bool,
}

/// Blocks read back: (unit, entry, attribute index, location-list item or usize::MAX) -> bytes
pub type Blocks = BTreeMap<(usize, usize, usize, usize), Vec<u8>>;

fn licences(ctx: &mut Ctx, plan: &Plan) -> Vec<&'static str> {
    let mut lic = vec![];
    for (ui, up) in plan.units.iter().enumerate() {
        let order = written_order(up);
        let mut pos = vec![0usize; up.entries.len()];
        for (k, &e) in order.iter().enumerate() {
            pos[e] = k;
        }
        for (ei, ep) in up.entries.iter().enumerate() {
            for a in &ep.attrs {
                let (in_die, progs): (bool, Vec<&Vec<B>>) = match a {
                    AttrPlan::Expr(b) => (true, vec![b]),
                    AttrPlan::LocList(l) => (false, l.iter().collect()),
                    AttrPlan::RawBytes(_) => (true, vec![]),
                };
                for bs in progs {
                    let mut f = Facts::default();
                    facts(bs, up.enc.addr_mask(), &mut f, 0);
                    if f.too_large {
                        lic.push("too_large");
                    }
                    for r in f.uleb_refs.iter().chain(f.fixed_refs.iter()) {
                        if r.unit != ui || r.entry >= up.entries.len() {
                            ctx.harness_error("C15 generator: unit reference into another unit");
                        }
                    }
                    if in_die && f.uleb_refs.iter().any(|r| r.unit == ui && r.entry < pos.len() && pos[r.entry] > pos[ei]) {
                        lic.push("forward_uleb");
                    }
                    if f.uleb_refs.iter().chain(f.fixed_refs.iter()).chain(f.info_refs.iter()).any(|r| r.unit != ui || (r.entry < pos.len() && pos[r.entry] > pos[ei])) {
                        ctx.obs("ref.after");
                    }
                    if f.has_implicit_pointer && up.enc.version == 2 {
                        ctx.obs("v2.implicit_pointer");
                        if up.enc.addr < 4 {
                            lic.push("small_ref");
                        }
                    }
                    obs_program(ctx, bs, ui, 0);
                }
            }
        }
    }
    lic
}

/// Write a plan, read it back, compare everything.  Returns the read-back blocks of a
/// successful write.
pub fn verify_plan(ctx: &mut Ctx, plan: &Plan, o: &Opts<'_>) -> Option<Blocks> {
    let tag = o.tag;
    let input = || plan_json(plan);
    let lic = licences(ctx, plan);
    let res = ctx.guard(&format!("{tag}.write"), &input, || write_plan(plan))?;
    let secs = match res {
        Ok(s) => s,
        Err(e) => {
            if e.starts_with("harness") {
                ctx.harness_error(&format!("C15 {tag}: {e}"));
                return None;
            }
            let permitted = match o.expect {
                Expect::MustErr => true,
                Expect::MustOk => false,
                Expect::Auto => !lic.is_empty(),
            };
            if permitted {
                for l in &lic {
                    ctx.obs(&format!("write.refused.{l}"));
                }
                ctx.obs(&format!("write.err.{}", e.split('(').next().unwrap_or("")));
                if o.expect == Expect::MustErr {
                    ctx.obs("edge.refused");
                }
            } else {
                ctx.fail(&format!("{tag}.write.unexpected_error"), &format!("{tag}: write::Dwarf::write failed with {e} on a representable program"), &input);
            }
            return None;
        }
    };
    if o.expect == Expect::MustErr {
        ctx.fail(&format!("{tag}.write.accepted_unrepresentable"), &format!("{tag}: the writer accepted a program that cannot be represented"), &input);
        return None;
    }
    let units = ctx.guard(&format!("{tag}.read"), &input, || read_units(&secs, plan.le))?;
    let units = match units {
        Ok(u) => u,
        Err(e) => {
            ctx.fail(&format!("{tag}.readback.error"), &format!("{tag}: reading the written sections back failed: {e}"), &input);
            return None;
        }
    };
    // ---- structure and identities
    if units.len() != plan.units.len() {
        ctx.fail(&format!("{tag}.structure"), &format!("{} units written, {} read back", plan.units.len(), units.len()), &input);
        return None;
    }
    let mut ids: BTreeMap<usize, u64> = BTreeMap::new();
    for (ui, (up, ru)) in plan.units.iter().zip(units.iter()).enumerate() {
        let e = up.enc.encoding();
        if ru.enc != e {
            ctx.fail(&format!("{tag}.structure"), &format!("unit {ui}: encoding {:?} read back as {:?}", e, ru.enc), &input);
            return None;
        }
        let order = written_order(up);
        if ru.dies.len() != order.len() {
            ctx.fail(&format!("{tag}.structure"), &format!("unit {ui}: {} entries built, {} read back (an expression block that is longer or shorter than its length prefix derails the entry parser)", order.len(), ru.dies.len()), &input);
            return None;
        }
        for (k, die) in ru.dies.iter().enumerate() {
            let ei = order[k];
            let want = identity(ERef { unit: ui, entry: ei });
            let got = match die.attrs.first() {
                Some(RAttr::Udata(n, v)) if *n == dw::DW_AT_decl_line.0 => Some(*v),
                _ => None,
            };
            if got != Some(want) || die.tag != up.entries[ei].tag {
                ctx.fail(
                    &format!("{tag}.structure"),
                    &format!("unit {ui}: entry #{k} in written order should be plan entry {ei} (identity {want}, tag {:#x}); read back identity {got:?}, tag {:#x}", up.entries[ei].tag, die.tag),
                    &input,
                );
                return None;
            }
            ids.insert(die.abs_off, want);
        }
    }
    // ---- attributes
    let mut blocks: Blocks = BTreeMap::new();
    let mut all_ok = true;
    for (ui, (up, ru)) in plan.units.iter().zip(units.iter()).enumerate() {
        let order = written_order(up);
        let res = Resolver { ids: &ids, unit_off: Some(ru.off) };
        for (k, die) in ru.dies.iter().enumerate() {
            let ei = order[k];
            let ep = &up.entries[ei];
            if die.attrs.len() != 1 + 2 * ep.attrs.len() {
                ctx.fail(&format!("{tag}.attr_sequence"), &format!("unit {ui} entry {ei}: {} attributes expected, read back {:?}", 1 + 2 * ep.attrs.len(), die.attrs), &input);
                return None;
            }
            for (ai, ap) in ep.attrs.iter().enumerate() {
                let got = &die.attrs[1 + 2 * ai];
                let sent = &die.attrs[2 + 2 * ai];
                let sent_ok = matches!(sent, RAttr::Udata(n, v) if *n == 0x2100 + ai as u16 && *v == sentinel_value(ui, ei, ai));
                if !sent_ok {
                    ctx.fail(&format!("{tag}.attr_sequence"), &format!("unit {ui} entry {ei}: the attribute after expression #{ai} should be the sentinel {:#x}; read back {sent:?} (length prefix != emitted length?)", sentinel_value(ui, ei, ai)), &input);
                    return None;
                }
                match (ap, got) {
                    (AttrPlan::Expr(bs), RAttr::Expr(_, bytes)) => {
                        ctx.obs("host.attr");
                        blocks.insert((ui, ei, ai, usize::MAX), bytes.clone());
                        all_ok &= check_block(ctx, tag, "attr", bs, bytes, plan.le, ru.enc, &res, o.eval, &input);
                    }
                    (AttrPlan::RawBytes(b), RAttr::Expr(_, bytes)) => {
                        if b != bytes {
                            ctx.fail(&format!("{tag}.raw.bytes"), &format!("Expression::raw({}) was written as {}", hex(b), hex(bytes)), &input);
                            all_ok = false;
                        }
                    }
                    (AttrPlan::LocList(items), RAttr::LocList(_, got_items)) => {
                        if items.len() != got_items.len() {
                            ctx.fail(&format!("{tag}.loclist.items"), &format!("unit {ui} entry {ei}: location list with {} items read back with {} (an expression longer or shorter than its length prefix derails the list parser): {:?}", items.len(), got_items.len(), got_items.iter().map(|(b, e, d)| (b, e, d.len())).collect::<Vec<_>>()), &input);
                            all_ok = false;
                            continue;
                        }
                        for (j, (bs, (b, e, bytes))) in items.iter().zip(got_items.iter()).enumerate() {
                            if (*b, *e) != loc_range(j) {
                                ctx.fail(&format!("{tag}.loclist.items"), &format!("unit {ui} entry {ei}: item {j} should cover {:?}, read back ({b:#x}, {e:#x})", loc_range(j)), &input);
                                all_ok = false;
                                continue;
                            }
                            ctx.obs("host.loclist");
                            blocks.insert((ui, ei, ai, j), bytes.clone());
                            all_ok &= check_block(ctx, tag, "loclist", bs, bytes, plan.le, ru.enc, &res, false, &input);
                        }
                    }
                    (ap, got) => {
                        ctx.fail(&format!("{tag}.attr_sequence"), &format!("unit {ui} entry {ei} attribute #{ai}: built {}, read back {:?}", match ap { AttrPlan::LocList(_) => "a location list", _ => "an expression" }, got), &input);
                        all_ok = false;
                    }
                }
            }
        }
    }
    if o.expect == Expect::MustOk && all_ok {
        ctx.obs("edge.ok");
    }
    // ---- twin: the same Dwarf with every expression replaced by raw(read-back block)
    if o.twin && all_ok {
        let mut twin = plan.clone();
        let mut n = 0;
        for (ui, up) in twin.units.iter_mut().enumerate() {
            for (ei, ep) in up.entries.iter_mut().enumerate() {
                for (ai, a) in ep.attrs.iter_mut().enumerate() {
                    if let AttrPlan::Expr(_) = a {
                        if let Some(b) = blocks.get(&(ui, ei, ai, usize::MAX)) {
                            *a = AttrPlan::RawBytes(b.clone());
                            n += 1;
                        }
                    }
                }
            }
        }
        if n > 0 {
            let r2 = ctx.guard(&format!("{tag}.twin.write"), &input, || write_plan(&twin))?;
            match r2 {
                Ok(s2) => {
                    if s2.info == secs.info && s2.loc == secs.loc && s2.loclists == secs.loclists && s2.abbrev == secs.abbrev {
                        ctx.obs("twin.identical");
                    } else {
                        let at = s2.info.iter().zip(secs.info.iter()).position(|(a, b)| a != b).unwrap_or(s2.info.len().min(secs.info.len()));
                        ctx.fail(&format!("{tag}.twin.differs"), &format!("writing the read-back blocks through Expression::raw gives different sections (.debug_info {} vs {} bytes, first difference at {at:#x})", secs.info.len(), s2.info.len()), &input);
                    }
                }
                Err(e) => ctx.fail(&format!("{tag}.twin.error"), &format!("writing the read-back blocks through Expression::raw failed: {e}"), &input),
            }
        }
    }
    Some(blocks)
}

/// Decode one read-back block and compare it with the built program.
#[allow(clippy::too_many_arguments)]
fn check_block(ctx: &mut Ctx, tag: &str, host: &str, bs: &[B], bytes: &[u8], le: bool, enc: gimli::Encoding, res: &Resolver<'_>, eval: bool, input: &dyn Fn() -> Value) -> bool {
    let expected = expect(bs, enc.address_size);
    let d = match ctx.guard(&format!("{tag}.{host}.decode"), input, || decode(bytes, le, enc, res, 0)) {
        Some(d) => d,
        None => return false,
    };
    let d = match d {
        Ok(d) => d,
        Err(e) => {
            ctx.fail(&format!("{tag}.{host}.decode_error"), &format!("{tag}.{host}: the emitted block {} does not decode: {e}", hex(&bytes[..bytes.len().min(64)])), input);
            return false;
        }
    };
    let ok = compare_xs(ctx, tag, host, &expected, &d.xs, bytes, input);
    let mism = opcode_family_mismatches(bytes, &d.starts, enc.version);
    if mism > 0 {
        ctx.obs_n("secondary.opcode_family", mism);
    }
    if eval && ok {
        let mut steps = 0;
        let m = model_eval(&expected, enc.address_size, &mut steps, 0);
        if m == EvalOut::Unknown {
            ctx.obs("eval.undecided");
        } else {
            let Some(g) = ctx.guard(&format!("{tag}.{host}.evaluate"), input, || gimli_eval(bytes, le, enc, 0)) else { return false };
            ctx.obs("eval.compared");
            if m == EvalOut::StackErr {
                ctx.obs("eval.stack_error");
            }
            if bs.iter().enumerate().any(|(i, b)| matches!(b, B::Bra(t) if *t < i)) {
                ctx.obs("eval.loop");
            }
            if m != g {
                ctx.fail(
                    &format!("{tag}.{host}.evaluation"),
                    &format!("evaluating the built program gives {m:?}, evaluating the emitted bytecode {} gives {g:?}", hex(&bytes[..bytes.len().min(80)])),
                    input,
                );
                return false;
            }
        }
    }
    ok
}

// ================================================================ CFI host

/// Write a frame table, read it back, compare.  Returns the expression blocks in order.
pub fn verify_cfi(ctx: &mut Ctx, p: &CfiPlan, ids: Option<&Ids>, must_err: bool, tag: &str) -> Option<Vec<Vec<u8>>> {
    let input = || cfi_json(p);
    let res = ctx.guard(&format!("{tag}.cfi.write"), &input, || write_cfi(p, ids))?;
    let bytes = match res {
        Ok(b) => b,
        Err(e) => {
            if e.starts_with("harness") {
                ctx.harness_error(&format!("C15 {tag}: {e}"));
            } else if must_err {
                ctx.obs("cfi.ref_rejected");
                ctx.obs(&format!("cfi.err.{}", e.split('(').next().unwrap_or("")));
            } else {
                let mut lic = false;
                for i in p.cie.iter().chain(p.fde.iter().map(|(_, i)| i)) {
                    if let CfiI::CfaExpr(b) | CfiI::Expr(_, b) | CfiI::ValExpr(_, b) = i {
                        let mut f = Facts::default();
                        facts(b, p.enc.addr_mask(), &mut f, 0);
                        lic |= f.too_large;
                    }
                }
                if lic {
                    ctx.obs("write.refused.too_large");
                } else {
                    ctx.fail(&format!("{tag}.cfi.write.unexpected_error"), &format!("{tag}: FrameTable write failed with {e} on a representable, reference-free program"), &input);
                }
            }
            return None;
        }
    };
    if must_err {
        ctx.fail(&format!("{tag}.cfi.reference_accepted"), &format!("{tag}: a CFI expression with an entry reference was written without error ({} bytes)", bytes.len()), &input);
        return None;
    }
    let entries = ctx.guard(&format!("{tag}.cfi.read"), &input, || read_cfi(&bytes, p))?;
    let entries = match entries {
        Ok(e) => e,
        Err(e) => {
            ctx.fail(&format!("{tag}.cfi.readback.error"), &format!("{tag}: reading the frame section back failed: {e}; section {}", hex(&bytes[..bytes.len().min(96)])), &input);
            return None;
        }
    };
    if entries.len() != 2 || !entries[0].is_cie || entries[1].is_cie {
        ctx.fail(&format!("{tag}.cfi.structure"), &format!("expected one CIE and one FDE, read back {} entries", entries.len()), &input);
        return None;
    }
    let enc = p.encoding();
    let ids_map = BTreeMap::new();
    let res = Resolver { ids: &ids_map, unit_off: None };
    let mut out = vec![];
    let mut ok = true;
    let mut walk = |ctx: &mut Ctx, which: &str, want: Vec<(Option<u32>, &CfiI)>, got: &RCfiEntry, out: &mut Vec<Vec<u8>>| -> bool {
        if got.enc != enc {
            ctx.fail(&format!("{tag}.cfi.structure"), &format!("{which}: encoding {:?} read back as {:?}", enc, got.enc), &input);
            return false;
        }
        let mut gi = got.instrs.iter();
        for (adv, w) in want {
            if let Some(d) = adv {
                match gi.next() {
                    Some(RCfi::Advance(x)) if *x == d => {}
                    other => {
                        ctx.fail(&format!("{tag}.cfi.sequence"), &format!("{which}: expected advance_loc {d}, read back {other:?} (expression longer or shorter than its length prefix?)"), &input);
                        return false;
                    }
                }
            }
            let g = gi.next();
            let matched = match (w, g) {
                (CfiI::Sentinel(a, b), Some(RCfi::Sentinel(x, y))) => a == x && b == y,
                (CfiI::CfaExpr(bs), Some(RCfi::CfaExpr(bytes))) => {
                    out.push(bytes.clone());
                    check_block(ctx, tag, "cfi", bs, bytes, p.le, enc, &res, false, &input)
                }
                (CfiI::Expr(r, bs), Some(RCfi::Expr(x, bytes))) if r == x => {
                    out.push(bytes.clone());
                    check_block(ctx, tag, "cfi", bs, bytes, p.le, enc, &res, false, &input)
                }
                (CfiI::ValExpr(r, bs), Some(RCfi::ValExpr(x, bytes))) if r == x => {
                    out.push(bytes.clone());
                    check_block(ctx, tag, "cfi", bs, bytes, p.le, enc, &res, false, &input)
                }
                _ => {
                    ctx.fail(&format!("{tag}.cfi.sequence"), &format!("{which}: built {w:?}, read back {g:?} (expression longer or shorter than its length prefix?)").chars().take(500).collect::<String>(), &input);
                    return false;
                }
            };
            if !matched {
                return false;
            }
        }
        for rest in gi {
            if *rest != RCfi::Nop {
                ctx.fail(&format!("{tag}.cfi.sequence"), &format!("{which}: extra instruction {rest:?} after the built ones"), &input);
                return false;
            }
        }
        true
    };
    let want_cie: Vec<(Option<u32>, &CfiI)> = p.cie.iter().map(|i| (None, i)).collect();
    ok &= walk(ctx, "CIE", want_cie, &entries[0], &mut out);
    let mut prev = 0u32;
    let mut want_fde = vec![];
    for (o, i) in &p.fde {
        want_fde.push((if *o != prev { Some(o.wrapping_sub(prev)) } else { None }, i));
        prev = *o;
    }
    ok &= walk(ctx, "FDE", want_fde, &entries[1], &mut out);
    if ok {
        if !p.cie.is_empty() {
            ctx.obs("host.cfi.cie");
        }
        if !p.fde.is_empty() {
            ctx.obs("host.cfi.fde");
        }
        if p.eh {
            ctx.obs("host.cfi.eh");
        }
        Some(out)
    } else {
        None
    }
}

#[path = "c15_streams.rs"]
mod streams;

pub fn run(ctx: &mut Ctx) {
    streams::run_all(ctx);
}

//! C12 corpus complement: the debug sections of compiler-built executables (gcc / clang,
//! DWARF 2-5, -O0 / -O2, DWARF64, type units, skeleton files of split builds) are converted
//! with `write::Dwarf::from` and the step-wise API, written, read back and compared by
//! `mon::dump` (the same oracle and the same judgement as the generated inputs of C12:
//! `super::check_dwarf`; `Err` from conversion or writing is acceptable and counted); their
//! `.eh_frame` / `.debug_frame` sections go through `write::FrameTable::from`
//! (`super::check_frame`).  Nothing is compared with an external tool here: the compilers
//! only supply realistic input.  Tool failures are *inconclusive*.

use crate::asm::Enc;
use crate::rt::Ctx;
use gimli::SectionId;
use serde_json::json;

#[path = "corpus_b.rs"]
mod cb;
use cb::Cfg;

/// GENUINE FINDING (reported in REPORT.md; skipped here so that the rest keeps running):
/// `write::ConvertUnit::convert_attribute_value` (src/write/unit.rs) returns
/// `AttributeValue::ImplicitConst(v)` for every `DW_FORM_implicit_const` attribute *before*
/// looking at the attribute's name, so a `DW_AT_decl_file` / `DW_AT_call_file` encoded as an
/// implicit constant keeps its old file index although the converted line program renumbers
/// (and de-duplicates) its file table.  gcc >= 11 encodes `DW_AT_decl_file` that way in every
/// `-gdwarf-5` object and lists the primary source file twice (file 0 and file 1), so after
/// `Dwarf::from` the entries point at a non-existent (or a different) file: the dump shows
/// `DW_AT_decl_file.file: ["a.c", dir] <> Error(BadFileIndex)`.  While this constant is
/// `true`, gcc `-gdwarf-5` executables are only *observed* (stream `known.implicit_const_file`,
/// counter `known.implicit_const_file.observed`): a first difference that is not of this kind
/// is still a violation there; their frame sections are judged as usual.
pub const SKIP_IMPLICIT_CONST_FILE_INDEX: bool = false; // fixed in /repo (504075b)

/// FINDING (deliberate in the pinned tree, reported in REPORT.md): `Dwarf::from`
/// (`ConvertUnit::convert_attributes`) silently drops every `DW_AT_GNU_locviews` attribute
/// ("a GNU extension that is not supported, and is safe to ignore"), the step-wise API fails
/// with `InvalidAttributeValue` on it.  The property says nothing may be dropped silently, so
/// the check stays strict; while this constant is `true` the gcc configurations are compiled
/// with `-gno-variable-location-views` so that the attribute does not occur, and the stream
/// `known.gnu_locviews` keeps observing the drop on one default gcc build.
pub const SKIP_GNU_LOCVIEWS: bool = true;

/// Pinned behaviour outside the judged domain of C12 (see the assumption "only compile units
/// are generated" of props/c12.rs: `gimli::write` documents that it only writes
/// `DW_UT_compile` units): `Dwarf::from` does not convert `.debug_types` at all (its units
/// vanish from the output without an error) and turns DWARF 5 type units and skeleton units
/// into plain compile units (type signature / type offset / DWO id of the header are lost).
/// Executables built with `-fdebug-types-section` and DWARF 5 skeleton files are therefore only
/// *observed* (stream counters `known.unit_kind.*`); a first difference of another kind is
/// still a violation.  Reported in REPORT.md for the coordinator to decide.
pub const ONLY_OBSERVE_UNSUPPORTED_UNIT_KINDS: bool = true;

fn no_views(mut c: Cfg) -> Cfg {
    if SKIP_GNU_LOCVIEWS && c.cc == "gcc" && !c.has("-gno-variable-location-views") {
        c.extra.push("-gno-variable-location-views");
    }
    c
}

pub fn configs(quick: bool) -> Vec<Cfg> {
    let mut v = vec![
        no_views(Cfg::new("gcc", 4, "-O2", &[])),
        Cfg::new("clang", 5, "-O2", &[]),
        no_views(Cfg::new("gcc", 3, "-O0", &[])),
        no_views(Cfg::new("gcc", 5, "-O2", &["-fno-asynchronous-unwind-tables"])),
    ];
    if !quick {
        for c in cb::matrix().into_iter().chain(cb::specials()).chain(cb::splits()) {
            let c = no_views(c);
            if !v.contains(&c) {
                v.push(c);
            }
        }
    }
    v
}

/// Observe a known finding without judging it: convert with `Dwarf::from`, and classify the
/// first difference of the dumps.  A difference of another kind is reported.
fn observe_known(ctx: &mut Ctx, secs: &crate::mon::entries::Secs, label: &str, key: &str, is_known: &dyn Fn(&str) -> bool) {
    use crate::mon::dump;
    let input = || json!({"corpus": label, "known_finding": key, "sections": secs.json()});
    let r = ctx.guard("known.convert", &input, || {
        let d0 = dump::dump_dwarf(&super::load(secs, cb::LE));
        let out = super::convert_from(&super::load(secs, cb::LE)).map_err(|e| super::conv_err_name(&e)).and_then(|mut w| super::write_dwarf(&mut w, cb::LE).map_err(|e| dump::err_name(&e)));
        out.map(|o| {
            let d1 = dump::dump_dwarf(&super::load(&o, cb::LE));
            dump::first_diff(&d0, &d1)
        })
    });
    match r {
        None => {}
        Some(Err(e)) => {
            ctx.obs(&format!("{key}.conversion_err"));
            ctx.obs(&format!("{key}.err.{e}"));
        }
        Some(Ok(None)) => ctx.obs(&format!("{key}.not_observed")),
        Some(Ok(Some(diff))) if is_known(&diff) => {
            ctx.obs(&format!("{key}.observed"));
            // reported under a fixed signature that known_findings.json lists as open:
            // printed as KNOWN-FINDING, never silently skipped
            ctx.fail(&format!("c12.{key}"), &format!("{label}: {key}: conversion succeeded but the output differs: {}", diff.chars().take(300).collect::<String>()), &input);
        }
        Some(Ok(Some(diff))) => ctx.fail("c12.corpus.known.other_difference", &format!("{label}: first difference after Dwarf::from is not the known finding {key}: {diff}"), &input),
    }
}

pub fn run(ctx: &mut Ctx) {
    if ctx.slow() {
        return;
    }
    let cfgs = configs(ctx.quick());
    for (i, cfg) in cfgs.iter().enumerate() {
        if !ctx.want("corpus", i as u64) {
            continue;
        }
        let b = match cb::build(ctx, cfg) {
            Ok(b) => b,
            Err(e) => {
                ctx.inconclusive(&format!("corpus: {e}"));
                continue;
            }
        };
        let obj = match b.load("prog") {
            Ok(o) => o,
            Err(e) => {
                ctx.inconclusive(&format!("corpus: {}: {e}", cfg.label()));
                continue;
            }
        };
        let label = cfg.label();
        let dir = b.dir.display().to_string();
        let enc = Enc::new(true, cfg.has("-gdwarf64"), cfg.ver as u16, 8);
        let secs = obj.secs_by_id();
        if secs.get(SectionId::DebugInfo).is_empty() {
            ctx.inconclusive(&format!("corpus: {label}: no .debug_info in the executable"));
            continue;
        }
        ctx.eval();
        ctx.obs("corpus.object");
        ctx.obs(&format!("corpus.v{}", cfg.ver));
        let class = if cfg.split {
            "corpus.skeleton"
        } else if cfg.has("-fdebug-types-section") {
            "corpus.type_units"
        } else {
            "corpus"
        };
        let extra = || json!({"corpus": label, "build_dir": dir, "file": "prog"});
        let oks = if ONLY_OBSERVE_UNSUPPORTED_UNIT_KINDS && (cfg.has("-fdebug-types-section") || (cfg.split && cfg.ver >= 5)) {
            observe_known(ctx, &secs, &label, "known.unit_kind", &|d| d.starts_with(".units:") || d.contains("].header"));
            0
        } else if SKIP_IMPLICIT_CONST_FILE_INDEX && cfg.cc == "gcc" && cfg.ver == 5 {
            observe_known(ctx, &secs, &label, "known.implicit_const_file", &|d| (d.contains("DW_AT_decl_file") || d.contains("DW_AT_call_file")) && d.contains(".file"));
            0
        } else {
            super::check_dwarf(ctx, class, &secs, enc, &extra)
        };
        if oks > 0 {
            ctx.obs("corpus.converted");
        }
        ctx.nontrivial(secs.digest());
        for (name, eh) in [(".eh_frame", true), (".debug_frame", false)] {
            let bytes = obj.sec(name);
            if bytes.is_empty() {
                continue;
            }
            ctx.eval();
            let fclass = if eh { "corpus.eh_frame" } else { "corpus.debug_frame" };
            let extra = || json!({"corpus": label, "build_dir": dir, "file": "prog", "section": name});
            super::check_frame(ctx, fclass, bytes, enc, eh, &extra);
            ctx.nontrivial_bytes(name, bytes);
        }
        if i == 1 {
            ctx.sample("corpus", || json!({"config": label, "sections": secs.map.iter().map(|(k, v)| format!("{}: {} bytes", k.name(), v.len())).collect::<Vec<_>>(), "conversion_paths_ok": oks}));
        }
    }
    // the known DW_AT_GNU_locviews drop stays under observation on one default gcc build
    if SKIP_GNU_LOCVIEWS && ctx.want("known.gnu_locviews", 0) {
        let cfg = Cfg::new("gcc", 4, "-O2", &[]);
        match cb::build(ctx, &cfg).and_then(|b| b.load("prog")) {
            Err(e) => ctx.inconclusive(&format!("corpus: {e}")),
            Ok(obj) => observe_known(ctx, &obj.secs_by_id(), &cfg.label(), "known.gnu_locviews", &|d| d.contains("DW_AT_GNU_locviews")),
        }
    }
}

//! C05 corpus complement: every CIE / FDE gimli iterates in `.eh_frame` and `.debug_frame`
//! of every compiler-built executable (see mon/corpus.rs) is compared with the entries
//! printed by `llvm-dwarfdump --eh-frame --debug-frame`: section offset, length, 32/64-bit
//! format, CIE version, augmentation (presence of z/L/P/R/S, the three pointer encodings
//! and the personality pointer, decoded independently from the augmentation data bytes
//! llvm prints), v4 address size, code/data alignment factors, return-address register;
//! FDE -> CIE binding, pc range and LSDA pointer.  Then for every FDE boundary address
//! (start-1, start, start+1, end-1, end) the three lookup paths (linear
//! `fde_for_address`, the `.eh_frame_hdr` binary-search table, `unwind_info_for_address`)
//! must succeed exactly when an exhaustive scan over llvm's FDE list finds a covering
//! FDE, and return it.  The `.eh_frame_hdr` table itself must list exactly llvm's FDEs,
//! sorted, and point at them.  The external tool is the oracle; every tool failure is
//! `inconclusive`.

use crate::mon::corpus::{self, LCie, LEntry, LFde, Obj};
use crate::rt::Ctx;
use gimli::{BaseAddresses, CieOrFde, EndianSlice, RunTimeEndian, UnwindSection};
use serde_json::json;

type Rd<'a> = EndianSlice<'a, RunTimeEndian>;

#[derive(Debug, Clone, PartialEq, Eq)]
struct NCie {
    offset: u64,
    length: u64,
    fmt64: bool,
    version: u64,
    has_z: bool,
    lsda_enc: Option<u8>,
    /// (encoding byte, pointer value after applying the base, before any dereference)
    personality: Option<(u8, u64)>,
    fde_enc: Option<u8>,
    signal: bool,
    /// compared for version >= 4 only (`None` otherwise)
    address_size: Option<u64>,
    code_align: u64,
    data_align: i64,
    ra_reg: u64,
}

#[derive(Debug, Clone, PartialEq, Eq)]
struct NFde {
    offset: u64,
    length: u64,
    cie: u64,
    pc_begin: u64,
    pc_end: u64,
    lsda: Option<u64>,
}

#[derive(Debug, Clone, PartialEq, Eq)]
enum NEntry {
    Cie(NCie),
    Fde(NFde),
}

fn enc_size(enc: u8, addr: u8) -> Option<usize> {
    match enc & 0x0f {
        0x00 => Some(addr as usize),
        0x02 | 0x0a => Some(2),
        0x03 | 0x0b => Some(4),
        0x04 | 0x0c => Some(8),
        _ => None, // LEB128 forms: not produced by the toolchains here
    }
}

/// Expected entry from llvm's text.  The augmentation data bytes are decoded here
/// (DESIGN Appendix A.5 / LSB): after 'z', in string order, 'L' = 1 encoding byte,
/// 'R' = 1 encoding byte, 'P' = 1 encoding byte + pointer, 'S' / 'B' / 'G' = nothing.
fn expect_cie(c: &LCie, addr: u8) -> Result<NCie, String> {
    let mut n = NCie {
        offset: c.offset,
        length: c.length,
        fmt64: c.fmt64,
        version: c.version,
        has_z: false,
        lsda_enc: None,
        personality: None,
        fde_enc: None,
        signal: false,
        address_size: if c.version >= 4 { c.address_size } else { None },
        code_align: c.code_align,
        data_align: c.data_align,
        ra_reg: c.ra_reg,
    };
    let mut chars = c.augmentation.chars();
    match chars.next() {
        None => return Ok(n),
        Some('z') => n.has_z = true,
        Some(other) => return Err(format!("augmentation starting with {other:?}")),
    }
    let data = c.aug_data.clone().ok_or("augmentation data not printed")?;
    let mut pos = 0usize;
    let mut byte = |pos: &mut usize| -> Result<u8, String> {
        let b = *data.get(*pos).ok_or("augmentation data too short")?;
        *pos += 1;
        Ok(b)
    };
    for ch in chars {
        match ch {
            'L' => n.lsda_enc = Some(byte(&mut pos)?),
            'R' => n.fde_enc = Some(byte(&mut pos)?),
            'P' => {
                let e = byte(&mut pos)?;
                let sz = enc_size(e, addr).ok_or("personality encoding with variable size")?;
                pos = pos.checked_add(sz).ok_or("overflow")?;
                if pos > data.len() {
                    return Err("augmentation data too short for the personality pointer".into());
                }
                n.personality = Some((e, c.personality.ok_or("personality address not printed")?));
            }
            'S' => n.signal = true,
            'B' | 'G' => {}
            other => return Err(format!("augmentation character {other:?}")),
        }
    }
    Ok(n)
}

fn expect_entries(list: &[LEntry], addr: u8) -> Result<Vec<NEntry>, String> {
    let mut out = vec![];
    for e in list {
        match e {
            LEntry::Cie(c) => out.push(NEntry::Cie(expect_cie(c, addr)?)),
            LEntry::Fde(f) => out.push(NEntry::Fde(NFde { offset: f.offset, length: f.length, cie: f.cie.ok_or("llvm could not resolve an FDE's CIE")?, pc_begin: f.pc_begin, pc_end: f.pc_end, lsda: f.lsda })),
        }
    }
    Ok(out)
}

fn ptr_val(p: gimli::Pointer) -> u64 {
    match p {
        gimli::Pointer::Direct(x) => x,
        gimli::Pointer::Indirect(x) => x,
    }
}

fn n_cie(c: &gimli::CommonInformationEntry<Rd<'_>>) -> NCie {
    NCie {
        offset: c.offset() as u64,
        length: c.entry_len() as u64,
        fmt64: c.encoding().format == gimli::Format::Dwarf64,
        version: c.version() as u64,
        has_z: c.augmentation().is_some(),
        lsda_enc: c.lsda_encoding().map(|e| e.0),
        personality: c.personality_with_encoding().map(|(e, p)| (e.0, ptr_val(p))),
        fde_enc: c.fde_address_encoding().map(|e| e.0),
        signal: c.is_signal_trampoline(),
        address_size: if c.version() >= 4 { Some(c.address_size() as u64) } else { None },
        code_align: c.code_alignment_factor(),
        data_align: c.data_alignment_factor(),
        ra_reg: c.return_address_register().0 as u64,
    }
}

fn n_fde(f: &gimli::FrameDescriptionEntry<Rd<'_>>) -> NFde {
    NFde { offset: f.offset() as u64, length: f.entry_len() as u64, cie: f.cie().offset() as u64, pc_begin: f.initial_address(), pc_end: f.initial_address().wrapping_add(f.len()), lsda: f.lsda().map(ptr_val) }
}

#[derive(Debug, Default)]
struct Got {
    entries: Vec<NEntry>,
    /// indirect flag of the personality pointer agrees with bit 0x80 of its encoding
    indirect_ok: bool,
    /// FDE-level consistency: end_address() == initial_address() + len(), contains() at the edges
    fde_consistent: bool,
    /// per probe address: offset of the FDE found by linear search / hdr table / unwind row (start,end)
    linear: Vec<Result<u64, String>>,
    hdr: Vec<Result<u64, String>>,
    unwind: Vec<Result<(u64, u64), String>>,
    hdr_unwind: Vec<Result<(u64, u64), String>>,
    /// .eh_frame_hdr
    hdr_ptr: Option<u64>,
    /// (initial location, FDE offset through pointer_to_offset) per table entry
    hdr_table: Vec<(u64, Result<u64, String>)>,
    hdr_err: Option<String>,
}

fn walk<'a, S>(sec: &S, bases: &BaseAddresses, probes: &[u64], got: &mut Got) -> Result<(), String>
where
    S: UnwindSection<Rd<'a>>,
{
    got.indirect_ok = true;
    got.fde_consistent = true;
    let mut it = sec.entries(bases);
    let mut n = 0;
    loop {
        n += 1;
        if n > 1_000_000 {
            return Err("too many entries".into());
        }
        match it.next() {
            Ok(None) => break,
            Err(e) => return Err(format!("entries().next(): {e:?}")),
            Ok(Some(CieOrFde::Cie(c))) => {
                if let Some((e, p)) = c.personality_with_encoding() {
                    let ind = matches!(p, gimli::Pointer::Indirect(_));
                    if ind != (e.0 & 0x80 != 0) || c.personality() != Some(p) {
                        got.indirect_ok = false;
                    }
                }
                got.entries.push(NEntry::Cie(n_cie(&c)));
            }
            Ok(Some(CieOrFde::Fde(p))) => {
                let off = p.offset();
                let f = p.parse(|s, b, o| s.cie_from_offset(b, o)).map_err(|e| format!("FDE at {off:#x}: {e:?}"))?;
                if f.end_address() != f.initial_address().wrapping_add(f.len()) {
                    got.fde_consistent = false;
                }
                if f.len() > 0 && (!f.contains(f.initial_address()) || !f.contains(f.end_address().wrapping_sub(1)) || f.contains(f.end_address())) {
                    got.fde_consistent = false;
                }
                got.entries.push(NEntry::Fde(n_fde(&f)));
            }
        }
    }
    let mut uctx = gimli::UnwindContext::new();
    for &a in probes {
        got.linear.push(sec.fde_for_address(bases, a, |s, b, o| s.cie_from_offset(b, o)).map(|f| f.offset() as u64).map_err(|e| format!("{e:?}")));
        got.unwind.push(sec.unwind_info_for_address(bases, &mut uctx, a, |s, b, o| s.cie_from_offset(b, o)).map(|r| (r.start_address(), r.end_address())).map_err(|e| format!("{e:?}")));
    }
    Ok(())
}

fn walk_hdr(obj: &Obj, eh: &gimli::EhFrame<Rd<'_>>, bases: &BaseAddresses, probes: &[u64], got: &mut Got) {
    let hdr_data = obj.data(".eh_frame_hdr");
    let hdr = match gimli::EhFrameHdr::new(hdr_data, obj.endian()).parse(bases, obj.address_size()) {
        Ok(h) => h,
        Err(e) => {
            got.hdr_err = Some(format!("EhFrameHdr::parse: {e:?}"));
            return;
        }
    };
    got.hdr_ptr = Some(ptr_val(hdr.eh_frame_ptr()));
    let Some(table) = hdr.table() else {
        got.hdr_err = Some("no table".into());
        return;
    };
    let mut it = table.iter(bases);
    loop {
        match it.next() {
            Ok(Some((loc, fde))) => got.hdr_table.push((ptr_val(loc), table.pointer_to_offset(fde).map(|o| o.0 as u64).map_err(|e| format!("{e:?}")))),
            Ok(None) => break,
            Err(e) => {
                got.hdr_err = Some(format!("table iter: {e:?}"));
                return;
            }
        }
        if got.hdr_table.len() > 1_000_000 {
            break;
        }
    }
    let mut uctx = gimli::UnwindContext::new();
    for &a in probes {
        got.hdr.push(table.fde_for_address(eh, bases, a, gimli::EhFrame::cie_from_offset).map(|f| f.offset() as u64).map_err(|e| format!("{e:?}")));
        got.hdr_unwind.push(table.unwind_info_for_address(eh, bases, &mut uctx, a, gimli::EhFrame::cie_from_offset).map(|r| (r.start_address(), r.end_address())).map_err(|e| format!("{e:?}")));
    }
}

fn probes_for(fdes: &[&LFde]) -> Vec<u64> {
    let mut v = vec![];
    for f in fdes {
        for a in [f.pc_begin.wrapping_sub(1), f.pc_begin, f.pc_begin.wrapping_add(1), f.pc_end.wrapping_sub(1), f.pc_end] {
            v.push(a);
        }
    }
    v.push(0);
    v.sort_unstable();
    v.dedup();
    v
}

/// Exhaustive scan: offsets of all FDEs (as printed by llvm) that cover `a`.
fn covering(fdes: &[&LFde], a: u64) -> Vec<u64> {
    fdes.iter().filter(|f| f.pc_begin <= a && a < f.pc_end).map(|f| f.offset).collect()
}

fn check_section(ctx: &mut Ctx, label: &str, obj: &Obj, kind: &str, list: &[LEntry]) {
    let is_eh = kind == "eh_frame";
    let name = if is_eh { ".eh_frame" } else { ".debug_frame" };
    let data = obj.data(name);
    let input = || json!({"corpus": label, "section": name, "len": data.len()});
    let expect = match expect_entries(list, obj.address_size()) {
        Ok(e) => e,
        Err(e) => {
            ctx.inconclusive(&format!("corpus: {label}: {name}: llvm-dwarfdump output not usable: {e}"));
            return;
        }
    };
    let fdes: Vec<&LFde> = list
        .iter()
        .filter_map(|e| match e {
            LEntry::Fde(f) => Some(f),
            _ => None,
        })
        .collect();
    let probes = probes_for(&fdes);
    let bases = BaseAddresses::default().set_eh_frame(obj.addr(".eh_frame")).set_eh_frame_hdr(obj.addr(".eh_frame_hdr")).set_text(obj.addr(".text")).set_got(obj.addr(".got"));
    let have_hdr = is_eh && obj.sec(".eh_frame_hdr").is_some();
    ctx.eval();
    let r = ctx.guard(&format!("corpus.cfi.{kind}"), &input, || {
        let mut got = Got::default();
        let r = if is_eh {
            let mut eh = gimli::EhFrame::new(data, obj.endian());
            eh.set_address_size(obj.address_size());
            let r = walk(&eh, &bases, &probes, &mut got);
            if r.is_ok() && have_hdr {
                walk_hdr(obj, &eh, &bases, &probes, &mut got);
            }
            r
        } else {
            let mut df = gimli::DebugFrame::new(data, obj.endian());
            df.set_address_size(obj.address_size());
            walk(&df, &bases, &probes, &mut got)
        };
        r.map(|_| got)
    });
    let Some(r) = r else { return };
    let got = match r {
        Ok(g) => g,
        Err(e) => {
            ctx.fail(&format!("corpus.cfi.{kind}.err"), &format!("{label}: gimli failed on a compiler-built {name}: {e}"), &input);
            return;
        }
    };
    // --- entries
    if expect.len() != got.entries.len() {
        let offs = |v: &[NEntry]| {
            v.iter()
                .map(|e| match e {
                    NEntry::Cie(c) => c.offset,
                    NEntry::Fde(f) => f.offset,
                })
                .collect::<Vec<_>>()
        };
        ctx.check_eq(&format!("corpus.cfi.{kind}.entry_count"), &offs(&expect), &offs(&got.entries), &input);
        return;
    }
    for (e, g) in expect.iter().zip(got.entries.iter()) {
        match (e, g) {
            (NEntry::Cie(_), NEntry::Cie(_)) => {
                ctx.check_eq(&format!("corpus.cfi.{kind}.cie"), e, g, &input);
            }
            (NEntry::Fde(_), NEntry::Fde(_)) => {
                ctx.check_eq(&format!("corpus.cfi.{kind}.fde"), e, g, &input);
            }
            _ => {
                ctx.check_eq(&format!("corpus.cfi.{kind}.entry_kind"), e, g, &input);
            }
        }
        match e {
            NEntry::Cie(c) => {
                ctx.obs("corpus.cfi.cie");
                ctx.obs(&format!("corpus.cfi.cie.v{}", c.version));
                if c.personality.is_some() {
                    ctx.obs("corpus.cfi.aug.P");
                    if c.personality.map(|p| p.0 & 0x80 != 0) == Some(true) {
                        ctx.obs("corpus.cfi.aug.P.indirect");
                    }
                }
                if c.lsda_enc.is_some() {
                    ctx.obs("corpus.cfi.aug.L");
                }
                if c.fde_enc.is_some() {
                    ctx.obs("corpus.cfi.aug.R");
                }
                if c.signal {
                    ctx.obs("corpus.cfi.aug.S");
                }
                if !c.has_z {
                    ctx.obs("corpus.cfi.aug.none");
                }
            }
            NEntry::Fde(f) => {
                ctx.obs("corpus.cfi.fde");
                if f.lsda.is_some() {
                    ctx.obs("corpus.cfi.fde.lsda");
                }
            }
        }
    }
    ctx.check_eq(&format!("corpus.cfi.{kind}.personality_indirect_flag"), &true, &got.indirect_ok, &input);
    ctx.check_eq(&format!("corpus.cfi.{kind}.fde_contains"), &true, &got.fde_consistent, &input);
    ctx.obs(&format!("corpus.cfi.{kind}"));
    if !obj.is64 {
        ctx.obs("corpus.cfi.addr4");
    }
    // --- .eh_frame_hdr table
    if have_hdr {
        if let Some(e) = &got.hdr_err {
            ctx.fail("corpus.cfi.hdr.err", &format!("{label}: gimli failed on a linker-built .eh_frame_hdr: {e}"), &input);
        } else {
            ctx.check_eq("corpus.cfi.hdr.eh_frame_ptr", &Some(obj.addr(".eh_frame")), &got.hdr_ptr, &input);
            // the linker writes one entry per FDE, sorted by initial location
            let mut want: Vec<(u64, Result<u64, String>)> = fdes.iter().map(|f| (f.pc_begin, Ok(f.offset))).collect();
            want.sort_by_key(|e| e.0);
            let distinct = want.windows(2).all(|w| w[0].0 != w[1].0);
            if distinct {
                ctx.check_eq("corpus.cfi.hdr.table", &want, &got.hdr_table, &input);
                ctx.obs_n("corpus.cfi.hdr.entries", want.len() as u64);
            } else {
                ctx.obs("corpus.cfi.hdr.duplicate_starts");
            }
        }
    }
    // --- lookups
    for (k, &a) in probes.iter().enumerate() {
        let cov = covering(&fdes, a);
        if cov.len() > 1 {
            // "the" covering FDE is ill-defined (C05 assumption: FDE ranges do not overlap)
            ctx.obs("corpus.cfi.lookup.overlap_skipped");
            continue;
        }
        let want: Option<u64> = cov.first().copied();
        let norm = |r: &Result<u64, String>| -> Result<Option<u64>, String> {
            match r {
                Ok(o) => Ok(Some(*o)),
                Err(e) if e == "NoUnwindInfoForAddress" => Ok(None),
                Err(e) => Err(e.clone()),
            }
        };
        if let Some(r) = got.linear.get(k) {
            ctx.check_eq(&format!("corpus.cfi.{kind}.lookup.linear"), &(a, Ok(want)), &(a, norm(r)), &input);
            ctx.obs(if want.is_some() { "corpus.cfi.lookup.linear.hit" } else { "corpus.cfi.lookup.linear.miss" });
        }
        let norm_row = |r: &Result<(u64, u64), String>| -> Result<bool, String> {
            match r {
                // the row must lie inside the covering FDE and contain the address
                Ok((s, e)) => Ok(*s <= a && a < *e && fdes.iter().any(|f| Some(f.offset) == want && f.pc_begin <= *s && *e <= f.pc_end)),
                Err(e) if e == "NoUnwindInfoForAddress" => Ok(false),
                Err(e) => Err(e.clone()),
            }
        };
        if let Some(r) = got.unwind.get(k) {
            ctx.check_eq(&format!("corpus.cfi.{kind}.lookup.unwind"), &(a, Ok(want.is_some())), &(a, norm_row(r)), &input);
            ctx.obs(if want.is_some() { "corpus.cfi.lookup.unwind.hit" } else { "corpus.cfi.lookup.unwind.miss" });
        }
        if have_hdr && got.hdr_err.is_none() {
            if let Some(r) = got.hdr.get(k) {
                ctx.check_eq("corpus.cfi.hdr.lookup", &(a, Ok(want)), &(a, norm(r)), &input);
                ctx.obs(if want.is_some() { "corpus.cfi.hdr.lookup.hit" } else { "corpus.cfi.hdr.lookup.miss" });
            }
            if let Some(r) = got.hdr_unwind.get(k) {
                ctx.check_eq("corpus.cfi.hdr.unwind", &(a, Ok(want.is_some())), &(a, norm_row(r)), &input);
            }
        }
    }
    ctx.nontrivial_bytes(&format!("c05.corpus.{kind}"), data);
}

pub fn run(ctx: &mut Ctx) {
    if ctx.slow() {
        return;
    }
    let cfgs = corpus::configs(ctx.quick());
    for (i, cfg) in cfgs.iter().enumerate() {
        if !ctx.want("corpus", i as u64) {
            continue;
        }
        let label = cfg.label();
        let Some(prog) = corpus::build(ctx, cfg) else { continue };
        let Some(obj) = corpus::load_obj(ctx, &prog) else { continue };
        let Some(text) = corpus::dump(ctx, &prog, "frames", "llvm-dwarfdump", &["--eh-frame"]) else { continue };
        let frames = match corpus::parse_llvm_frames(&text) {
            Ok(f) => f,
            Err(e) => {
                ctx.inconclusive(&format!("corpus: {label}: cannot parse llvm-dwarfdump --eh-frame output: {e}"));
                continue;
            }
        };
        if frames.eh_frame.is_empty() && frames.debug_frame.is_empty() {
            ctx.inconclusive(&format!("corpus: {label}: llvm-dwarfdump printed no CFI entries"));
            continue;
        }
        ctx.obs("corpus.object");
        ctx.obs(&format!("corpus.cc.{}", cfg.cc));
        ctx.obs(if cfg.lang == corpus::Lang::C { "corpus.lang.c" } else { "corpus.lang.cpp" });
        if !frames.eh_frame.is_empty() || obj.sec(".eh_frame").is_some() {
            check_section(ctx, &label, &obj, "eh_frame", &frames.eh_frame);
        }
        if !frames.debug_frame.is_empty() || obj.sec(".debug_frame").is_some() {
            check_section(ctx, &label, &obj, "debug_frame", &frames.debug_frame);
        }
        if i < 2 {
            ctx.sample("corpus", || {
                json!({"config": label, "eh_frame_entries": frames.eh_frame.len(), "debug_frame_entries": frames.debug_frame.len(),
                       "first": format!("{:?}", frames.eh_frame.iter().chain(frames.debug_frame.iter()).take(2).collect::<Vec<_>>()).chars().take(600).collect::<String>()})
            });
        }
    }
}

//! C13 — written line programs read back to exactly the rows that were generated.
//!
//! Oracle: the generated row list itself (addresses computed by the harness from the
//! sequence base address and the address offsets), the harness's own de-duplicating model
//! of the directory / file tables, and `gimli::read` as the reader (checked by C04).

use crate::asm::Enc;
use crate::model::line::{FileM, Row, AV};
use crate::props::c04::{av_of, file_of, row_of};
use crate::props::PropInfo;
use crate::rt::{hex, Ctx, Rng};
use gimli::write as w;
use gimli::{DebugLineOffset, EndianSlice, LineEncoding, RunTimeEndian};
use serde_json::{json, Value};

type Rd<'a> = EndianSlice<'a, RunTimeEndian>;

pub fn info() -> PropInfo {
    PropInfo {
        id: "C13",
        level: "exploration",
        rule: "Streams: `grid` = for each LineEncoding tuple (all 24 valid (line_base, line_range) pairs of line_base {-128,-5,-3,-1,0} x line_range {1,2,12,14,127,128,255}, rotated over min_inst_len {1,2,4} x max_ops {1,2,4}, versions 2-5, both formats, address sizes 4/8, both byte orders; 12 tuples in the quick tier, 48 in the thorough tier) the complete grid (line advance -40..40 quick / -300..300 thorough) x (operation advance 0..300 quick / 0..600 thorough), each pair written as its own sequence (set_address, base row with op_index alternating between 0 and max_ops-1, advanced row, end_sequence) through begin_sequence/row()/generate_row/end_sequence, serialised with LineProgram::write and read back with read::DebugLine; every row is compared in every field. `rand` = random programs with 1-4 sequences, 0-12 rows each, every row field varied, row() driven either by assigning every field or lazily by assigning only the fields that differ from its documented state (boundary values for line/column/isa/discriminator, files from a table with duplicate names in different directories and duplicate add_file/add_directory calls with and without FileInfo), sequence starts through begin_sequence(Some/None), set_address or implicitly, DW_LNE_set_address in the middle of a sequence, end_sequence with an op_index, address offsets up to the top of the address space, line_range up to 255, max_ops up to 255; timestamps/sizes/MD5/embedded source with all four file_has_* flags, strings inline / .debug_line_str / .debug_str (independently for directories, files and sources), versions 2-5 x formats x address sizes 1/2/4/8 x byte orders; written standalone (LineProgram::write, optionally as the second program of the section), inside a unit (write::Dwarf unit with DW_AT_stmt_list, read through read::Dwarf::unit) or through write::Dwarf::line_programs; rows, header parameters, include_directories, file_names and file()/directory() lookups (strings resolved through Dwarf::attr_line_string) are compared with what was generated. `reject` = configurations the writer cannot represent (max_ops > 1 before version 4, string references before version 5): Err expected. A case is non-trivial when at least one row is generated; distinct by digest of the generated program description (grid: bijection with the index).",
        assumptions: &[
            "row fields of the end_sequence row other than address and op_index are not compared (DWARF: not meaningful; the writer API only takes address_offset and op_index for it)",
            "rows following a set_address in the middle of a sequence continue at address + (address_offset - previous row's address_offset), as documented for ConvertLineProgram",
            "generated addresses stay below the tombstone minimum 2^(8*size)-2 and never decrease within a sequence; address offsets are multiples of min_inst_len; op_index < max_ops; (address, op_index) never decreases within a sequence (documented preconditions)",
            "line numbers are below 2^63 (the writer computes the line advance in i64)",
            "per-row advances go up to the largest representable operation advance (u64::MAX / max_ops - 1) and DW_LNE_set_address is generated at any op_index (two earlier defects there are fixed in /repo: c27c80d, f6d3e34)",
            "timestamp/size are compared only when emitted (always for version <= 4, per file_has_* flag in version 5); MD5/source only in version 5 with their flag; a missing source reads back as an empty string",
            "v5: one string form for all directories, one for all file names, one for all sources (the writer reports LineStringFormMismatch otherwise)",
        ],
        exhaustive_subspaces: &[
            "(line advance -40..40) x (operation advance 0..300) per LineEncoding tuple (quick); -300..300 x 0..600 (thorough)",
        ],
        must_observe: &[
            "grid.pairs", "rand.rows", "rand.sequences", "mode.standalone", "mode.second_program", "mode.unit", "mode.dwarf_line_programs", "version.2", "version.3", "version.4", "version.5", "form.inline", "form.line_strp", "form.strp",
            "flag.timestamp", "flag.size", "flag.md5", "flag.source", "start.begin_some", "start.begin_none", "start.set_address", "start.implicit", "mid.set_address", "line_range.ge128", "max_ops.gt1", "op_index.nonzero",
            "dup.file", "dup.dir", "reject.need_version4", "reject.need_version5", "end.op_index", "advance.big",
        ],
        run,
    }
}

// ---------------------------------------------------------------- case description

#[derive(Clone, Copy, Debug, PartialEq, Eq)]
enum SForm {
    Inline,
    LineStrp,
    Strp,
}

#[derive(Clone, Debug, PartialEq, Eq, Default)]
struct InfoSpec {
    timestamp: u64,
    size: u64,
    md5: [u8; 16],
    source: Option<Vec<u8>>,
}

#[derive(Clone, Debug)]
enum Add {
    Dir(Vec<u8>),
    /// name, directory slot, info
    File(Vec<u8>, usize, Option<InfoSpec>),
}

#[derive(Clone, Copy, Debug, PartialEq, Eq, Default)]
struct GRow {
    off: u64,
    op_index: u64,
    /// file slot
    file: usize,
    line: u64,
    column: u64,
    disc: u64,
    is_stmt: bool,
    bb: bool,
    pe: bool,
    eb: bool,
    isa: u64,
}

#[derive(Clone, Debug)]
enum Act {
    Begin(Option<u64>),
    SetAddress(u64),
    Row(GRow),
    End { off: u64, op_index: u64 },
}

#[derive(Clone, Debug)]
struct Spec {
    enc: Enc,
    le: LineEncoding,
    dir_form: SForm,
    file_form: SForm,
    src_form: SForm,
    working_dir: Vec<u8>,
    source_dir: Option<Vec<u8>>,
    source_file: Vec<u8>,
    source_info: Option<InfoSpec>,
    has: (bool, bool, bool, bool),
    adds: Vec<Add>,
    acts: Vec<Act>,
}

/// The harness's own model of the tables: find-or-insert keyed by bytes / (bytes, dir).
#[derive(Clone, Debug, Default)]
struct TableModel {
    dirs: Vec<Vec<u8>>,
    files: Vec<(Vec<u8>, usize, InfoSpec)>,
    dup_dir: bool,
    dup_file: bool,
}

impl TableModel {
    fn add_dir(&mut self, d: &[u8]) -> usize {
        if let Some(p) = self.dirs.iter().position(|x| x == d) {
            self.dup_dir = true;
            return p;
        }
        self.dirs.push(d.to_vec());
        self.dirs.len() - 1
    }
    fn add_file(&mut self, n: &[u8], dir: usize, info: &Option<InfoSpec>) -> usize {
        if let Some(p) = self.files.iter().position(|x| x.0 == n && x.1 == dir) {
            self.dup_file = true;
            if let Some(i) = info {
                self.files[p].2 = i.clone();
            }
            return p;
        }
        self.files.push((n.to_vec(), dir, info.clone().unwrap_or_default()));
        self.files.len() - 1
    }
    fn of(s: &Spec) -> TableModel {
        let mut t = TableModel::default();
        t.add_dir(&s.working_dir);
        if s.enc.version >= 5 {
            let d = match &s.source_dir {
                Some(d) => t.add_dir(d),
                None => 0,
            };
            t.add_file(&s.source_file, d, &s.source_info);
        }
        t.dup_dir = false;
        t.dup_file = false;
        for a in &s.adds {
            match a {
                Add::Dir(d) => {
                    t.add_dir(d);
                }
                Add::File(n, d, i) => {
                    t.add_file(n, *d, i);
                }
            }
        }
        t
    }
}

/// Expected rows: (row, is_end).  For end rows only address/op_index are meaningful.
fn expected_rows(s: &Spec) -> Vec<(Row, bool)> {
    let v5 = s.enc.version >= 5;
    let mut out = vec![];
    let mut cur: u64 = 0;
    let mut prev_off: u64 = 0;
    for a in &s.acts {
        match a {
            Act::Begin(Some(x)) | Act::SetAddress(x) => cur = *x,
            Act::Begin(None) => {}
            Act::Row(g) => {
                cur = cur.wrapping_add(g.off.wrapping_sub(prev_off));
                prev_off = g.off;
                out.push((
                    Row {
                        address: cur,
                        op_index: g.op_index,
                        file: if v5 { g.file as u64 } else { g.file as u64 + 1 },
                        line: g.line,
                        column: g.column,
                        is_stmt: g.is_stmt,
                        basic_block: g.bb,
                        end_sequence: false,
                        prologue_end: g.pe,
                        epilogue_begin: g.eb,
                        isa: g.isa,
                        discriminator: g.disc,
                    },
                    false,
                ));
            }
            Act::End { off, op_index } => {
                cur = cur.wrapping_add(off.wrapping_sub(prev_off));
                out.push((Row { address: cur, op_index: *op_index, end_sequence: true, ..Row::default() }, true));
                cur = 0;
                prev_off = 0;
            }
        }
    }
    out
}

// ---------------------------------------------------------------- driving the writer

struct Tables<'a> {
    line_strings: &'a mut w::LineStringTable,
    strings: &'a mut w::StringTable,
}

fn lstr(form: SForm, b: &[u8], t: &mut Tables<'_>) -> w::LineString {
    match form {
        SForm::Inline => w::LineString::String(b.to_vec()),
        SForm::LineStrp => w::LineString::LineStringRef(t.line_strings.add(b.to_vec())),
        SForm::Strp => w::LineString::StringRef(t.strings.add(b.to_vec())),
    }
}

fn info_of(i: &InfoSpec, src_form: SForm, t: &mut Tables<'_>) -> w::FileInfo {
    w::FileInfo { timestamp: i.timestamp, size: i.size, md5: i.md5, source: i.source.as_ref().map(|s| lstr(src_form, s, t)) }
}

/// Build the `write::LineProgram` for `s`.  Returns the program and whether the ids handed
/// out by add_file/add_directory were consistent with the table model.
fn build(s: &Spec, t: &mut Tables<'_>) -> (w::LineProgram, Result<(), String>) {
    let tm0 = TableModel::default();
    let _ = tm0;
    let wd = lstr(s.dir_form, &s.working_dir, t);
    let sd = s.source_dir.as_ref().map(|d| lstr(s.dir_form, d, t));
    let sf = lstr(s.file_form, &s.source_file, t);
    let si = s.source_info.as_ref().map(|i| info_of(i, s.src_form, t));
    let mut p = w::LineProgram::new(s.enc.encoding(), s.le, wd, sd, sf, si);
    p.file_has_timestamp = s.has.0;
    p.file_has_size = s.has.1;
    p.file_has_md5 = s.has.2;
    p.file_has_source = s.has.3;
    // replay the adds against both the writer and the model
    let mut tm = TableModel::default();
    tm.add_dir(&s.working_dir);
    let mut dir_ids: Vec<w::DirectoryId> = vec![p.default_directory()];
    let mut file_ids: Vec<w::FileId> = vec![];
    let mut consistent: Result<(), String> = Ok(());
    if s.enc.version >= 5 {
        let d = match &s.source_dir {
            Some(d) => {
                let slot = tm.add_dir(d);
                let id = p.add_directory(lstr(s.dir_form, d, t));
                if slot == dir_ids.len() {
                    dir_ids.push(id);
                } else if dir_ids[slot] != id {
                    consistent = Err("add_directory(source_dir) returned a different id than LineProgram::new used".into());
                }
                slot
            }
            None => 0,
        };
        tm.add_file(&s.source_file, d, &s.source_info);
        // re-adding the primary file without info must hand back the existing entry
        let id = p.add_file(lstr(s.file_form, &s.source_file, t), dir_ids[d], None);
        file_ids.push(id);
    }
    for a in &s.adds {
        match a {
            Add::Dir(d) => {
                let slot = tm.add_dir(d);
                let id = p.add_directory(lstr(s.dir_form, d, t));
                if slot == dir_ids.len() {
                    dir_ids.push(id);
                } else if dir_ids[slot] != id {
                    consistent = Err(format!("add_directory returned a new id for an existing directory (slot {slot})"));
                }
            }
            Add::File(n, d, i) => {
                let slot = tm.add_file(n, *d, i);
                let info = i.as_ref().map(|i| info_of(i, s.src_form, t));
                let id = p.add_file(lstr(s.file_form, n, t), dir_ids[*d], info);
                if slot == file_ids.len() {
                    file_ids.push(id);
                } else if file_ids[slot] != id {
                    consistent = Err(format!("add_file returned a new id for an existing (name, directory) (slot {slot})"));
                }
            }
        }
    }
    // every other program drives `row()` lazily (see below); the choice is a function of the
    // case description only
    let lazy = (s.acts.len() + s.adds.len()) % 2 == 1;
    let initial = GRow { line: 1, is_stmt: s.le.default_is_stmt, ..GRow::default() };
    let mut shadow = initial;
    for a in &s.acts {
        match a {
            Act::Begin(x) => p.begin_sequence(x.map(w::Address::Constant)),
            Act::SetAddress(x) => p.set_address(w::Address::Constant(*x)),
            Act::Row(g) => {
                let r = p.row();
                r.file = file_ids[g.file];
                if lazy {
                    // rely on the documented state of `row()`: generate_row clears
                    // discriminator / basic_block / prologue_end / epilogue_begin and keeps the
                    // rest, end_sequence resets everything; assign only what differs from it
                    if g.off != shadow.off {
                        r.address_offset = g.off;
                    }
                    if g.op_index != shadow.op_index {
                        r.op_index = g.op_index;
                    }
                    if g.line != shadow.line {
                        r.line = g.line;
                    }
                    if g.column != shadow.column {
                        r.column = g.column;
                    }
                    if g.disc != shadow.disc {
                        r.discriminator = g.disc;
                    }
                    if g.is_stmt != shadow.is_stmt {
                        r.is_statement = g.is_stmt;
                    }
                    if g.bb != shadow.bb {
                        r.basic_block = g.bb;
                    }
                    if g.pe != shadow.pe {
                        r.prologue_end = g.pe;
                    }
                    if g.eb != shadow.eb {
                        r.epilogue_begin = g.eb;
                    }
                    if g.isa != shadow.isa {
                        r.isa = g.isa;
                    }
                } else {
                    r.address_offset = g.off;
                    r.op_index = g.op_index;
                    r.line = g.line;
                    r.column = g.column;
                    r.discriminator = g.disc;
                    r.is_statement = g.is_stmt;
                    r.basic_block = g.bb;
                    r.prologue_end = g.pe;
                    r.epilogue_begin = g.eb;
                    r.isa = g.isa;
                }
                p.generate_row();
                shadow = GRow { disc: 0, bb: false, pe: false, eb: false, ..*g };
            }
            Act::End { off, op_index } => {
                p.row().op_index = *op_index;
                p.end_sequence(*off);
                shadow = initial;
            }
        }
    }
    (p, consistent)
}

#[derive(Clone, Copy, Debug, PartialEq, Eq)]
enum Mode {
    Standalone,
    Second,
    Unit,
    DwarfPrograms,
}

#[derive(Default, Debug)]
struct Out {
    /// None = ok
    write: Option<String>,
    ids: Option<String>,
    line: Vec<u8>,
    line_str: Vec<u8>,
    str_: Vec<u8>,
    info: Vec<u8>,
    abbrev: Vec<u8>,
    offset: usize,
}

fn decoy_spec(s: &Spec) -> Spec {
    let mut d = s.clone();
    d.acts = vec![Act::Begin(Some(0x10)), Act::Row(GRow { line: 3, is_stmt: s.le.default_is_stmt, ..GRow::default() }), Act::End { off: s.le.minimum_instruction_length as u64, op_index: 0 }];
    d.adds = vec![Add::File(b"decoy.c".to_vec(), 0, None)];
    d
}

fn write_case(s: &Spec, mode: Mode) -> Out {
    let endian = s.enc.endian();
    let mut o = Out::default();
    match mode {
        Mode::Standalone | Mode::Second => {
            let mut ls = w::LineStringTable::default();
            let mut st = w::StringTable::default();
            let mut dl = w::DebugLine::from(w::EndianVec::new(endian));
            if mode == Mode::Second {
                let (p0, _) = build(&decoy_spec(s), &mut Tables { line_strings: &mut ls, strings: &mut st });
                if let Err(e) = p0.write(&mut dl, s.enc.encoding(), &mut ls, &mut st) {
                    o.write = Some(format!("decoy: {e:?}"));
                    return o;
                }
            }
            let (p, ids) = build(s, &mut Tables { line_strings: &mut ls, strings: &mut st });
            o.ids = ids.err();
            match p.write(&mut dl, s.enc.encoding(), &mut ls, &mut st) {
                Ok(off) => o.offset = off.0,
                Err(e) => {
                    o.write = Some(format!("{e:?}"));
                    return o;
                }
            }
            let mut dls = w::DebugLineStr::from(w::EndianVec::new(endian));
            let mut ds = w::DebugStr::from(w::EndianVec::new(endian));
            if let Err(e) = ls.write(&mut dls).and_then(|_| st.write(&mut ds)) {
                o.write = Some(format!("string tables: {e:?}"));
                return o;
            }
            o.line = dl.slice().to_vec();
            o.line_str = dls.slice().to_vec();
            o.str_ = ds.slice().to_vec();
        }
        Mode::Unit | Mode::DwarfPrograms => {
            let mut dwarf = w::Dwarf::new();
            if mode == Mode::Unit {
                let (p, ids) = build(s, &mut Tables { line_strings: &mut dwarf.line_strings, strings: &mut dwarf.strings });
                o.ids = ids.err();
                let id = dwarf.units.add(w::Unit::new(s.enc.encoding(), p));
                let unit = dwarf.units.get_mut(id);
                let root = unit.root();
                unit.get_mut(root).set(gimli::DW_AT_name, w::AttributeValue::String(s.source_file.clone()));
                unit.get_mut(root).set(gimli::DW_AT_comp_dir, w::AttributeValue::String(s.working_dir.clone()));
            } else {
                let (p0, _) = build(&decoy_spec(s), &mut Tables { line_strings: &mut dwarf.line_strings, strings: &mut dwarf.strings });
                let (p, ids) = build(s, &mut Tables { line_strings: &mut dwarf.line_strings, strings: &mut dwarf.strings });
                o.ids = ids.err();
                dwarf.line_programs.push(p0);
                dwarf.line_programs.push(p);
            }
            let mut sections = w::Sections::new(w::EndianVec::new(endian));
            if let Err(e) = dwarf.write(&mut sections) {
                o.write = Some(format!("{e:?}"));
                return o;
            }
            o.line = sections.debug_line.slice().to_vec();
            o.line_str = sections.debug_line_str.slice().to_vec();
            o.str_ = sections.debug_str.slice().to_vec();
            o.info = sections.debug_info.slice().to_vec();
            o.abbrev = sections.debug_abbrev.slice().to_vec();
        }
    }
    o
}

// ---------------------------------------------------------------- reading back

#[derive(Default, Debug)]
struct Back {
    err: Option<String>,
    params: (u16, bool, u8, u8, u8, bool, i8, u8),
    rows: Vec<Row>,
    dirs: Vec<Option<Vec<u8>>>,
    /// (name, directory index, timestamp, size, md5, source)
    files: Vec<(Option<Vec<u8>>, u64, u64, u64, [u8; 16], Option<Option<Vec<u8>>>)>,
    has: (bool, bool, bool, bool),
    /// directory(0) resolved
    dir0: Option<Vec<u8>>,
    /// for every distinct file index used by rows: (index, resolved name, resolved directory)
    row_files: Vec<(u64, Option<Vec<u8>>, Option<Vec<u8>>)>,
    raw_files: Vec<FileM>,
    raw_dirs: Vec<AV>,
}

fn read_back(o: &Out, s: &Spec, mode: Mode) -> Back {
    let endian = s.enc.endian();
    let mut b = Back::default();
    fn sec<'a>(v: &'a Vec<u8>, endian: RunTimeEndian) -> Rd<'a> {
        EndianSlice::new(&v[..], endian)
    }
    let mut dwarf: gimli::Dwarf<Rd<'_>> = gimli::Dwarf::default();
    dwarf.debug_str = gimli::DebugStr::from(sec(&o.str_, endian));
    dwarf.debug_line_str = gimli::DebugLineStr::from(sec(&o.line_str, endian));
    dwarf.debug_line = gimli::DebugLine::from(sec(&o.line, endian));
    dwarf.debug_info = gimli::DebugInfo::from(sec(&o.info, endian));
    dwarf.debug_abbrev = gimli::DebugAbbrev::from(sec(&o.abbrev, endian));
    let program = match mode {
        Mode::Unit => {
            let mut units = dwarf.units();
            let hdr = match units.next() {
                Ok(Some(h)) => h,
                other => {
                    b.err = Some(format!("units().next(): {other:?}"));
                    return b;
                }
            };
            let unit = match dwarf.unit(hdr) {
                Ok(u) => u,
                Err(e) => {
                    b.err = Some(format!("Dwarf::unit: {e:?}"));
                    return b;
                }
            };
            match unit.line_program.clone() {
                Some(p) => p,
                None => {
                    b.err = Some("unit has no line program (DW_AT_stmt_list missing)".into());
                    return b;
                }
            }
        }
        _ => {
            let mut off = o.offset;
            if mode == Mode::DwarfPrograms {
                // the second program follows the decoy
                match dwarf.debug_line.program(DebugLineOffset(0), s.enc.addr, None, None) {
                    Ok(p0) => off = p0.header().unit_length() + if s.enc.fmt64 { 12 } else { 4 },
                    Err(e) => {
                        b.err = Some(format!("decoy program: {e:?}"));
                        return b;
                    }
                }
            }
            match dwarf.debug_line.program(DebugLineOffset(off), s.enc.addr, None, None) {
                Ok(p) => p,
                Err(e) => {
                    b.err = Some(format!("DebugLine::program: {e:?}"));
                    return b;
                }
            }
        }
    };
    let h = program.header().clone();
    b.params = (h.version(), h.format() == gimli::Format::Dwarf64, h.address_size(), h.minimum_instruction_length(), h.maximum_operations_per_instruction(), h.default_is_stmt(), h.line_base(), h.line_range());
    let res = |v: gimli::AttributeValue<Rd<'_>>| -> Option<Vec<u8>> { dwarf.attr_line_string(v).ok().map(|x| x.slice().to_vec()) };
    for d in h.include_directories() {
        b.dirs.push(res(d.clone()));
        b.raw_dirs.push(av_of(d));
    }
    for f in h.file_names() {
        b.files.push((res(f.path_name()), f.directory_index(), f.timestamp(), f.size(), *f.md5(), f.source().map(&res)));
        b.raw_files.push(file_of(f));
    }
    b.has = (h.file_has_timestamp(), h.file_has_size(), h.file_has_md5(), h.file_has_source());
    b.dir0 = h.directory(0).and_then(&res);
    let mut rows = program.rows();
    let cap = o.line.len() + 64;
    let mut calls = 0;
    loop {
        calls += 1;
        if calls > cap {
            b.err = Some("harness: step cap".into());
            break;
        }
        match rows.next_row() {
            Ok(Some((hd, r))) => {
                let row = row_of(r);
                if !row.end_sequence && !b.row_files.iter().any(|x| x.0 == row.file) {
                    let f = r.file(hd);
                    b.row_files.push((row.file, f.and_then(|f| res(f.path_name())), f.and_then(|f| f.directory(hd)).and_then(&res)));
                }
                b.rows.push(row);
            }
            Ok(None) => break,
            Err(e) => {
                b.err = Some(format!("next_row: {e:?}"));
                break;
            }
        }
    }
    b
}

// ---------------------------------------------------------------- comparison

fn spec_json(s: &Spec, mode: Mode) -> Value {
    json!({"enc": s.enc.label(), "mode": format!("{mode:?}"), "line_encoding": format!("{:?}", s.le), "forms": format!("{:?}/{:?}/{:?}", s.dir_form, s.file_form, s.src_form), "has": format!("{:?}", s.has),
        "working_dir": hex(&s.working_dir), "source_dir": s.source_dir.as_ref().map(|d| hex(d)), "source_file": hex(&s.source_file), "source_info": format!("{:?}", s.source_info),
        "adds": format!("{:?}", s.adds.iter().take(24).collect::<Vec<_>>()), "acts": format!("{:?}", s.acts.iter().take(40).collect::<Vec<_>>()), "n_acts": s.acts.len()})
}

/// Write, read back, compare.  Returns false if the case could not be evaluated.
fn run_spec(ctx: &mut Ctx, stream: &str, s: &Spec, mode: Mode, tables: bool) -> bool {
    ctx.eval();
    let input0 = || spec_json(s, mode);
    let Some(o) = ctx.guard(&format!("write.{stream}"), &input0, || write_case(s, mode)) else {
        return false;
    };
    let input = || {
        let mut v = spec_json(s, mode);
        v["debug_line"] = json!(hex(&o.line));
        v["offset"] = json!(o.offset);
        v
    };
    if let Some(e) = &o.write {
        ctx.fail(&format!("{stream}.write.err"), &format!("writer refused a valid program: {e}"), &input);
        return false;
    }
    if let Some(e) = &o.ids {
        ctx.fail(&format!("{stream}.ids"), e, &input);
    }
    let Some(b) = ctx.guard(&format!("read.{stream}"), &input, || read_back(&o, s, mode)) else {
        return false;
    };
    if let Some(e) = &b.err {
        ctx.fail(&format!("{stream}.readback.err"), &format!("reading the written program failed: {e}"), &input);
        return false;
    }
    let want_params = (s.enc.version, s.enc.fmt64, s.enc.addr, s.le.minimum_instruction_length, s.le.maximum_operations_per_instruction, s.le.default_is_stmt, s.le.line_base, s.le.line_range);
    ctx.check_eq(&format!("{stream}.header.params"), &want_params, &b.params, &input);
    // ---- rows
    let exp = expected_rows(s);
    if exp.len() != b.rows.len() {
        ctx.check_eq(&format!("{stream}.rows.count"), &exp.len(), &b.rows.len(), &input);
    } else {
        for (k, ((e, is_end), g)) in exp.iter().zip(b.rows.iter()).enumerate() {
            let diff = if *is_end {
                if e.address != g.address {
                    Some("address")
                } else if e.op_index != g.op_index {
                    Some("op_index")
                } else if !g.end_sequence {
                    Some("end_sequence")
                } else {
                    None
                }
            } else {
                e.first_diff(g)
            };
            if let Some(f) = diff {
                let tag = if *is_end { "end_row" } else { "row" };
                ctx.check_eq(&format!("{stream}.{tag}.{f}"), &format!("row {k}: {e:?}"), &format!("row {k}: {g:?}"), &input);
                break;
            }
        }
    }
    if !tables {
        return true;
    }
    // ---- tables
    let tm = TableModel::of(s);
    let v5 = s.enc.version >= 5;
    let exp_dirs: Vec<Option<Vec<u8>>> = if v5 { tm.dirs.iter().map(|d| Some(d.clone())).collect() } else { tm.dirs.iter().skip(1).map(|d| Some(d.clone())).collect() };
    ctx.check_eq(&format!("{stream}.tables.directories"), &exp_dirs, &b.dirs, &input);
    let has = if v5 { s.has } else { (true, true, false, false) };
    ctx.check_eq(&format!("{stream}.tables.file_has"), &has, &b.has, &input);
    let exp_files: Vec<_> = tm
        .files
        .iter()
        .map(|(n, d, i)| {
            (
                Some(n.clone()),
                *d as u64,
                if has.0 { i.timestamp } else { 0 },
                if has.1 { i.size } else { 0 },
                if has.2 { i.md5 } else { [0; 16] },
                if has.3 { Some(Some(i.source.clone().unwrap_or_default())) } else { None },
            )
        })
        .collect();
    if exp_files != b.files {
        let k = exp_files.iter().zip(b.files.iter()).position(|(a, b)| a != b).unwrap_or(exp_files.len().min(b.files.len()));
        let field = match (exp_files.get(k), b.files.get(k)) {
            (Some(a), Some(g)) => {
                if a.0 != g.0 {
                    "name"
                } else if a.1 != g.1 {
                    "directory"
                } else if a.2 != g.2 {
                    "timestamp"
                } else if a.3 != g.3 {
                    "size"
                } else if a.4 != g.4 {
                    "md5"
                } else {
                    "source"
                }
            }
            _ => "count",
        };
        ctx.check_eq(&format!("{stream}.tables.files.{field}"), &format!("file {k}: {:?}", exp_files.get(k)), &format!("file {k}: {:?}", b.files.get(k)), &input);
    }
    // string forms as written
    let form_ok = |v: &AV, f: SForm| matches!((v, f), (AV::Str(_), SForm::Inline) | (AV::LineStrp(_), SForm::LineStrp) | (AV::Strp(_), SForm::Strp));
    if v5 {
        if let Some(d) = b.raw_dirs.iter().find(|d| !form_ok(d, s.dir_form)) {
            ctx.fail(&format!("{stream}.tables.dir_form"), &format!("directory read back as {d:?}, written with {:?}", s.dir_form), &input);
        }
        if let Some(f) = b.raw_files.iter().find(|f| !form_ok(&f.path, s.file_form)) {
            ctx.fail(&format!("{stream}.tables.file_form"), &format!("file read back as {:?}, written with {:?}", f.path, s.file_form), &input);
        }
    }
    // the file each row refers to, resolved through the header
    for (idx, name, dir) in &b.row_files {
        let slot = if v5 { *idx as usize } else { (*idx as usize).wrapping_sub(1) };
        let want = tm.files.get(slot);
        let want_name = want.map(|f| f.0.clone());
        let want_dir = want.and_then(|f| if !v5 && f.1 == 0 { if mode == Mode::Unit { Some(s.working_dir.clone()) } else { None } } else { tm.dirs.get(f.1).cloned() });
        ctx.check_eq(&format!("{stream}.row_file.name"), &want_name, name, &input);
        ctx.check_eq(&format!("{stream}.row_file.directory"), &want_dir, dir, &input);
    }
    if mode == Mode::Unit || v5 {
        ctx.check_eq(&format!("{stream}.tables.directory0"), &Some(s.working_dir.clone()), &b.dir0, &input);
    }
    true
}

// ---------------------------------------------------------------- generators

fn gname(r: &mut Rng, allow_empty: bool) -> Vec<u8> {
    if allow_empty && r.chance(1, 20) {
        return vec![];
    }
    let n = 1 + r.usize(8);
    (0..n).map(|_| if r.chance(1, 8) { 1 + (r.next() % 255) as u8 } else { b'a' + (r.next() % 26) as u8 }).collect()
}

fn ginfo(r: &mut Rng) -> InfoSpec {
    let mut md5 = [0u8; 16];
    for b in md5.iter_mut() {
        *b = r.next() as u8;
    }
    InfoSpec {
        timestamp: r.boundary(),
        size: r.boundary(),
        md5,
        source: if r.chance(1, 2) {
            let mut s = gname(r, false);
            s.push(b'\n');
            Some(s)
        } else {
            None
        },
    }
}

fn valid_pairs() -> Vec<(i8, u8)> {
    let mut v = vec![];
    for lb in [-128i16, -5, -3, -1, 0] {
        for lr in [1i16, 2, 12, 14, 127, 128, 255] {
            if lb + lr > 0 {
                v.push((lb as i8, lr as u8));
            }
        }
    }
    v
}

fn gen_line_encoding(r: &mut Rng, version: u16) -> LineEncoding {
    let (line_base, line_range) = if r.chance(2, 3) {
        *r.pick(&valid_pairs())
    } else {
        let lb = -(r.below(129) as i16);
        let lr = r.range((1 - lb) as u64, 255) as u8;
        (lb as i8, lr)
    };
    LineEncoding {
        minimum_instruction_length: if r.chance(3, 4) { *r.pick(&[1u8, 1, 2, 4]) } else { r.range(1, 255) as u8 },
        maximum_operations_per_instruction: if version < 4 || r.chance(1, 2) {
            1
        } else if r.chance(3, 4) {
            *r.pick(&[2u8, 3, 4, 8])
        } else {
            r.range(2, 255) as u8
        },
        default_is_stmt: r.bool(),
        line_base,
        line_range,
    }
}

/// KNOWN GENUINE DEFECTS of the tree under test (reported to the coordinator, not repaired
/// when this was written).  While they are open the generator stays just outside their
/// trigger condition; set GV_C13_NOSKIP=1 to generate them (the check then reports them).
///
/// 1. write/line.rs LineProgram::generate_row: `special + op_advance * line_range` (and
///    `special_op_advance * line_range`) overflow u64 when one row advances by
///    >= 2^64 / line_range operations: debug build panics ("attempt to multiply with
///    overflow"), release build wraps and the address advance is silently lost.
/// 2. write/line.rs LineProgram::set_address in the middle of a sequence with
///    maximum_operations_per_instruction > 1 and a non-zero op_index in the previous row:
///    DW_LNE_set_address resets the reader's op_index to 0 but the writer keeps computing
///    the operation advance from prev_row.op_index, so the next row reads back with the
///    wrong op_index (and address).
///
/// Both were repaired in /repo (c27c80d, f6d3e34); the generator no longer avoids them.
fn skip_known() -> bool {
    false
}

/// Largest per-row advance (in units of min_inst_len) the generator uses.
fn cap_units(le: &LineEncoding, big: bool) -> u64 {
    let max_ops = le.maximum_operations_per_instruction as u64;
    if !big {
        (1u64 << 40) / max_ops
    } else if skip_known() {
        // op_advance <= units * max_ops + max_ops must keep 255 + op_advance * line_range inside u64
        ((u64::MAX - 255) / le.line_range as u64).saturating_sub(max_ops) / max_ops
    } else {
        u64::MAX / max_ops - 1
    }
}

/// `big`: allow per-row advances up to the largest operation advance that is representable.
fn gen_spec(r: &mut Rng, enc: Enc, big: bool) -> Spec {
    let mid_any = !skip_known();
    let v5 = enc.version >= 5;
    let le = gen_line_encoding(r, enc.version);
    let forms = [SForm::Inline, SForm::LineStrp, SForm::Strp];
    let (dir_form, file_form, src_form) = if v5 { (*r.pick(&forms), *r.pick(&forms), *r.pick(&forms)) } else { (SForm::Inline, SForm::Inline, SForm::Inline) };
    let mut s = Spec {
        enc,
        le,
        dir_form,
        file_form,
        src_form,
        working_dir: gname(r, false),
        source_dir: if r.chance(1, 2) { Some(gname(r, false)) } else { None },
        source_file: gname(r, false),
        source_info: if r.chance(1, 2) { Some(ginfo(r)) } else { None },
        has: (r.bool(), r.bool(), r.bool(), r.bool()),
        adds: vec![],
        acts: vec![],
    };
    // ---- tables: names from a small pool so that duplicates happen
    let pool: Vec<Vec<u8>> = (0..4).map(|_| gname(r, false)).collect();
    let mut tm = TableModel::of(&s);
    let n_adds = 1 + r.usize(8);
    for _ in 0..n_adds {
        if r.chance(1, 3) {
            let d = if r.chance(1, 4) { s.working_dir.clone() } else if r.chance(1, 2) { r.pick(&pool).clone() } else { gname(r, false) };
            tm.add_dir(&d);
            s.adds.push(Add::Dir(d));
        } else {
            let n = if r.chance(1, 6) { s.source_file.clone() } else if r.chance(1, 2) { r.pick(&pool).clone() } else { gname(r, v5 && file_form != SForm::Inline) };
            let d = r.usize(tm.dirs.len());
            let i = if r.chance(1, 2) { Some(ginfo(r)) } else { None };
            tm.add_file(&n, d, &i);
            s.adds.push(Add::File(n, d, i));
        }
    }
    if tm.files.is_empty() {
        let n = gname(r, false);
        tm.add_file(&n, 0, &None);
        s.adds.push(Add::File(n, 0, None));
    }
    let nfiles = tm.files.len();
    // ---- rows
    let mask = enc.addr_mask();
    let top = mask.wrapping_sub(2); // highest non-tombstone address
    let min = le.minimum_instruction_length as u64;
    let max_ops = le.maximum_operations_per_instruction as u64;
    let nseq = 1 + r.usize(4);
    for _ in 0..nseq {
        let base = match r.below(6) {
            0 => 0,
            1 => r.below(0x100) & mask,
            2 => (top / 2) & mask,
            3 => top.saturating_sub(r.below(64 * min)),
            _ => r.boundary() & mask,
        }
        .min(top);
        let base = match r.below(4) {
            0 => {
                s.acts.push(Act::Begin(Some(base)));
                base
            }
            1 => {
                s.acts.push(Act::Begin(None));
                0
            }
            2 => {
                s.acts.push(Act::SetAddress(base));
                base
            }
            _ => 0,
        };
        // budget in units of min_inst_len
        let mut cur = base; // current address
        let mut off: u64 = 0;
        let mut k: u64 = 0; // op_index
        let mut g = GRow { file: if v5 { 1.min(nfiles - 1) } else { 0 }, line: 1, is_stmt: le.default_is_stmt, ..GRow::default() };
        let nrows = r.usize(13);
        let cap_units: u64 = cap_units(&le, big);
        for _ in 0..nrows {
            if r.chance(1, if mid_any { 3 } else { 12 }) && (k == 0 || mid_any) {
                // set_address in the middle of the sequence
                let room = top - cur;
                let gap = match r.below(3) {
                    0 => 0,
                    1 => r.below(0x40).min(room),
                    _ => (r.boundary() % (room / 2 + 1)).min(room),
                };
                cur += gap;
                s.acts.push(Act::SetAddress(cur));
            }
            let room_units = ((top - cur) / min).min(cap_units);
            let adv_units = match r.below(10) {
                0..=2 => 0,
                3..=6 => r.below(4).min(room_units),
                7 => r.below(300).min(room_units),
                8 => room_units / 2,
                _ => (r.boundary() % (room_units + 1)).min(room_units),
            };
            let new_k = if max_ops == 1 {
                0
            } else if adv_units == 0 {
                r.range(k, max_ops - 1)
            } else {
                r.below(max_ops)
            };
            off += adv_units * min;
            cur += adv_units * min;
            k = new_k;
            g.off = off;
            g.op_index = k;
            // line: small moves, boundary jumps
            g.line = match r.below(12) {
                0..=2 => g.line,
                3..=6 => (g.line as i128 + r.irange(-6, 14) as i128).clamp(0, i64::MAX as i128) as u64,
                7 => (g.line as i128 + r.irange(-300, 300) as i128).clamp(0, i64::MAX as i128) as u64,
                8 => 0,
                9 => i64::MAX as u64,
                10 => r.boundary() & (i64::MAX as u64),
                _ => r.below(100_000),
            };
            if r.chance(1, 3) {
                g.file = r.usize(nfiles);
            }
            if r.chance(1, 3) {
                g.column = if r.chance(1, 4) { r.boundary() } else { r.below(200) };
            }
            if r.chance(1, 5) {
                g.is_stmt = !g.is_stmt;
            }
            if r.chance(1, 6) {
                g.isa = if r.chance(1, 3) { r.boundary() } else { r.below(5) };
            }
            g.disc = if r.chance(1, 4) { if r.chance(1, 4) { r.boundary() } else { 1 + r.below(20) } } else { 0 };
            g.bb = r.chance(1, 5);
            g.pe = r.chance(1, 6);
            g.eb = r.chance(1, 6);
            s.acts.push(Act::Row(g));
        }
        let room_units = ((top - cur) / min).min(cap_units);
        let adv_units = match r.below(4) {
            0 => 0,
            1 => 1.min(room_units),
            2 => r.below(50).min(room_units),
            _ => (r.boundary() % (room_units + 1)).min(room_units),
        };
        let end_k = if max_ops == 1 {
            0
        } else if adv_units == 0 {
            r.range(k, max_ops - 1)
        } else if r.chance(1, 2) {
            0
        } else {
            r.below(max_ops)
        };
        s.acts.push(Act::End { off: off + adv_units * min, op_index: end_k });
    }
    s
}

fn obs_spec(ctx: &mut Ctx, s: &Spec, mode: Mode) {
    ctx.obs(&format!("version.{}", s.enc.version));
    ctx.obs(match mode {
        Mode::Standalone => "mode.standalone",
        Mode::Second => "mode.second_program",
        Mode::Unit => "mode.unit",
        Mode::DwarfPrograms => "mode.dwarf_line_programs",
    });
    for f in [s.dir_form, s.file_form, s.src_form] {
        ctx.obs(match f {
            SForm::Inline => "form.inline",
            SForm::LineStrp => "form.line_strp",
            SForm::Strp => "form.strp",
        });
    }
    if s.enc.version >= 5 {
        if s.has.0 {
            ctx.obs("flag.timestamp");
        }
        if s.has.1 {
            ctx.obs("flag.size");
        }
        if s.has.2 {
            ctx.obs("flag.md5");
        }
        if s.has.3 {
            ctx.obs("flag.source");
        }
    }
    if s.le.line_range >= 128 {
        ctx.obs("line_range.ge128");
    }
    if s.le.maximum_operations_per_instruction > 1 {
        ctx.obs("max_ops.gt1");
    }
    let tm = TableModel::of(s);
    if tm.dup_dir {
        ctx.obs("dup.dir");
    }
    if tm.dup_file {
        ctx.obs("dup.file");
    }
    let mut in_seq = false;
    let mut rows_in_seq = 0;
    for a in &s.acts {
        match a {
            Act::Begin(Some(_)) => {
                ctx.obs("start.begin_some");
                in_seq = true;
            }
            Act::Begin(None) => {
                ctx.obs("start.begin_none");
                in_seq = true;
            }
            Act::SetAddress(_) => {
                if !in_seq {
                    ctx.obs("start.set_address");
                } else if rows_in_seq > 0 {
                    ctx.obs("mid.set_address");
                }
                in_seq = true;
            }
            Act::Row(g) => {
                if !in_seq {
                    ctx.obs("start.implicit");
                }
                in_seq = true;
                rows_in_seq += 1;
                ctx.obs("rand.rows");
                if g.op_index != 0 {
                    ctx.obs("op_index.nonzero");
                }
            }
            Act::End { op_index, .. } => {
                if !in_seq {
                    ctx.obs("start.implicit");
                }
                ctx.obs("rand.sequences");
                if *op_index != 0 {
                    ctx.obs("end.op_index");
                }
                in_seq = false;
                rows_in_seq = 0;
            }
        }
    }
}

fn rand_stream(ctx: &mut Ctx, stream: &str, n: u64) {
    for i in 0..n {
        if !ctx.want(stream, i) {
            continue;
        }
        let mut r = ctx.rng(stream, i);
        let enc = Enc::nth(i);
        let big = r.chance(1, 4);
        if big && enc.addr == 8 {
            ctx.obs("advance.big");
        }
        let s = gen_spec(&mut r, enc, big);
        let mode = match r.below(8) {
            0..=2 => Mode::Standalone,
            3 | 4 => Mode::Second,
            5 | 6 => Mode::Unit,
            _ => Mode::DwarfPrograms,
        };
        // write::Dwarf units need version-compatible line programs: same encoding is used
        obs_spec(ctx, &s, mode);
        if run_spec(ctx, stream, &s, mode, true) && s.acts.iter().any(|a| matches!(a, Act::Row(_))) {
            ctx.nontrivial(crate::rt::fnv(format!("{s:?}{mode:?}").as_bytes()));
        }
        if i < 48 && s.acts.len() > 4 {
            let sj = spec_json(&s, mode);
            let rows = expected_rows(&s);
            ctx.sample(stream, || json!({"spec": sj, "expected_rows": format!("{:?}", rows.iter().take(4).collect::<Vec<_>>())}));
        }
    }
}

fn grid(ctx: &mut Ctx) {
    let quick = ctx.quick();
    let (lmax, amax): (i64, u64) = if quick { (40, 300) } else { (300, 600) };
    let (lmax, amax) = if ctx.dbg() { (lmax.min(if quick { 12 } else { 60 }), amax) } else { (lmax, amax) };
    let pairs = valid_pairs();
    let ntuples: u64 = if quick { 12 } else { 48 };
    let combos: [(u8, u8); 9] = [(1, 1), (2, 1), (4, 1), (1, 2), (1, 4), (2, 2), (4, 4), (2, 4), (4, 2)];
    let nl = (2 * lmax + 1) as u64;
    for t in 0..ntuples {
        // rotate through the (line_base, line_range) pairs by seed so that successive seeds
        // cover all 24 pairs in the quick tier as well
        let pi = (t + ctx.seed * ntuples) % pairs.len() as u64;
        let (line_base, line_range) = pairs[pi as usize];
        let (min, max_ops) = combos[((t + ctx.seed + pi / 3) % 9) as usize];
        let version = if max_ops > 1 { 4 + (t % 2) as u16 } else { 2 + (t % 4) as u16 };
        let enc = Enc::new(t % 2 == 0, t % 3 == 0, version, if t % 4 == 1 { 4 } else { 8 });
        for li in 0..nl {
            let idx = t * nl + li;
            if !ctx.want("grid", idx) {
                continue;
            }
            let la = li as i64 - lmax;
            let le = LineEncoding { minimum_instruction_length: min, maximum_operations_per_instruction: max_ops, default_is_stmt: t % 2 == 1, line_base, line_range };
            let mut s = Spec {
                enc,
                le,
                dir_form: SForm::Inline,
                file_form: SForm::Inline,
                src_form: SForm::Inline,
                working_dir: b"/w".to_vec(),
                source_dir: None,
                source_file: b"f.c".to_vec(),
                source_info: None,
                has: (false, false, false, false),
                adds: vec![Add::File(b"g.c".to_vec(), 0, None)],
                acts: vec![],
            };
            let base_line = 1000u64;
            for a in 0..=amax {
                let b = if a % 2 == 0 { 0 } else { max_ops as u64 - 1 };
                let tot = b + a;
                let base_row = GRow { off: 0, op_index: b, file: 0, line: base_line, is_stmt: le.default_is_stmt, ..GRow::default() };
                let adv_row = GRow { off: (tot / max_ops as u64) * min as u64, op_index: tot % max_ops as u64, line: (base_line as i64 + la) as u64, ..base_row };
                s.acts.push(Act::SetAddress(0x1000 + a * 8));
                s.acts.push(Act::Row(base_row));
                s.acts.push(Act::Row(adv_row));
                s.acts.push(Act::End { off: adv_row.off, op_index: adv_row.op_index });
            }
            ctx.obs_n("grid.pairs", amax + 1);
            ctx.obs(&format!("version.{}", version));
            if line_range >= 128 {
                ctx.obs("line_range.ge128");
            }
            if max_ops > 1 {
                ctx.obs("max_ops.gt1");
                ctx.obs("op_index.nonzero");
            }
            if run_spec(ctx, "grid", &s, Mode::Standalone, false) {
                ctx.counted_distinct += amax + 1;
                ctx.evals(amax);
            }
            if li == 0 && t < 2 {
                ctx.sample("grid", || json!({"enc": enc.label(), "line_encoding": format!("{le:?}"), "line_advance": la, "operation_advances": format!("0..={amax}")}));
            }
        }
    }
}

/// Configurations the writer cannot represent: it must refuse them (Err), not emit a
/// program that reads back differently.
fn reject(ctx: &mut Ctx) {
    let n = ctx.size(400, 4000, 4);
    for i in 0..n {
        if !ctx.want("reject", i) {
            continue;
        }
        let mut r = ctx.rng("reject", i);
        let mut enc = Enc::nth(i);
        let kind = i % 2;
        // the version is fixed before the case is generated so that table slots are consistent
        enc.version = if kind == 0 { 2 + (i / 2 % 2) as u16 } else { 2 + (i / 2 % 3) as u16 };
        let mut s = gen_spec(&mut r, enc, false);
        for a in s.acts.iter_mut() {
            match a {
                Act::Row(g) => g.op_index = 0,
                Act::End { op_index, .. } => *op_index = 0,
                _ => {}
            }
        }
        let expect = if kind == 0 {
            // max_ops > 1 needs the version 4 header field
            s.le.maximum_operations_per_instruction = 2 + r.below(6) as u8;
            ctx.obs("reject.need_version4");
            "NeedVersion(4)"
        } else {
            s.le.maximum_operations_per_instruction = 1;
            s.file_form = if r.bool() { SForm::LineStrp } else { SForm::Strp };
            ctx.obs("reject.need_version5");
            "NeedVersion(5)"
        };
        ctx.eval();
        let input = || spec_json(&s, Mode::Standalone);
        let Some(o) = ctx.guard("write.reject", &input, || write_case(&s, Mode::Standalone)) else { continue };
        match &o.write {
            // before version 5 the string is written with DW_FORM_string, so a reference is
            // refused either as a form mismatch or as needing version 5
            Some(e) if e.contains(expect) || (kind == 1 && e.contains("LineStringFormMismatch")) => {}
            other => ctx.fail(&format!("reject.{expect}"), &format!("expected Err({expect}), writer returned {other:?}"), &input),
        }
        ctx.counted_distinct += 1;
    }
}

pub fn run(ctx: &mut Ctx) {
    grid(ctx);
    let n = ctx.size(40_000, 600_000, 10);
    rand_stream(ctx, "rand", n);
    reject(ctx);
}

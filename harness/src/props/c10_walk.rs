//! C10 — whole-section agreement: one walker, generic over the reader kind, renders
//! everything gimli reports for a set of sections (units, DIEs, attributes, strings,
//! expressions, lists, line programs, CFI, aranges, pub*, macros).  Every reader handed
//! back is rendered as `section+offset:len` (located through its view pointer, so a copy or
//! an out-of-buffer view is visible), errors by kind with the position their offset id maps
//! back to.  The renderings under all reader kinds must be identical.

use super::kinds::{Ext, Ident, MyBuf, BufStats, KINDS};
use crate::asm::Enc;
use crate::gen::{mutate, seeds};
use crate::mon::entries::Secs;
use crate::rt::{hex, Ctx, Profile};
use gimli::read::{EndianReader, EndianSlice, Reader, RelocateReader, UnwindSection};
use gimli::{RunTimeEndian, SectionId};
use serde_json::json;
use std::collections::HashMap;
use std::rc::Rc;
use std::sync::Arc;

const MAX_LINES: usize = 6000;

pub struct Render {
    pub lines: Vec<String>,
    /// (section, base pointer, length)
    table: Vec<(SectionId, usize, usize)>,
    pub problems: Vec<(String, String)>,
    pub ok_items: u64,
    pub subreaders: u64,
    pub errors: u64,
}

impl Render {
    fn line(&mut self, s: String) {
        if self.lines.len() < MAX_LINES {
            self.lines.push(s);
        }
    }
    fn full(&self) -> bool {
        self.lines.len() >= MAX_LINES
    }
    fn problem(&mut self, sig: &str, what: String) {
        if self.problems.len() < 4 {
            self.problems.push((sig.to_string(), what));
        }
    }
    fn locate_ptr(&self, p: usize, n: usize) -> Option<(SectionId, usize)> {
        for &(id, b, l) in &self.table {
            if p >= b && p - b <= l && n <= l - (p - b) {
                return Some((id, p - b));
            }
        }
        None
    }
    /// Render a reader handed back by gimli: where its view lies.
    fn rd<R: Ext>(&mut self, r: &R) -> String {
        let raw = r.raw();
        let n = raw.len();
        if r.len() != n {
            self.problem("walk.view.len", format!("len() = {} but the view has {} bytes", r.len(), n));
        }
        if n == 0 {
            return "<empty>".to_string();
        }
        self.subreaders += 1;
        match self.locate_ptr(raw.as_ptr() as usize, n) {
            Some((id, off)) => format!("{}+{:#x}:{}", id.name(), off, n),
            None => {
                self.problem("walk.view.outside", format!("a reader of {} bytes ({}) handed back by gimli is not a view of any section buffer", n, hex(&raw[..n.min(16)])));
                format!("OUTSIDE:{}:{}", n, hex(&raw[..n.min(16)]))
            }
        }
    }
    fn err(&mut self, e: gimli::Error) -> String {
        self.errors += 1;
        match e {
            gimli::Error::UnexpectedEof(id) => match self.locate_ptr(id.0 as usize, 0) {
                Some((sec, off)) => format!("Err(UnexpectedEof@{}+{:#x})", sec.name(), off),
                None => "Err(UnexpectedEof@?)".to_string(),
            },
            e => format!("Err({e:?})"),
        }
    }
}

/// Dwarf::lookup_offset_id must map the offset id of a handed-back reader to its position.
fn check_lookup<R: Ext>(out: &mut Render, dwarf: &gimli::Dwarf<R>, r: &R) {
    let raw = r.raw();
    if raw.is_empty() {
        return;
    }
    let p = raw.as_ptr() as usize;
    match dwarf.lookup_offset_id(r.offset_id()) {
        Some((sup, id, off)) => {
            let ok = !sup && out.table.iter().any(|&(tid, b, l)| tid == id && off <= l && b.wrapping_add(off) == p);
            if !ok {
                out.problem("walk.lookup_offset_id", format!("Dwarf::lookup_offset_id maps a reader's id to {}+{:#x}, which is not where its view lies", id.name(), off));
            }
        }
        None => {
            // only sections held by `Dwarf` can be found
            if let Some((id, _)) = out.locate_ptr(p, raw.len()) {
                if dwarf_holds(id) {
                    out.problem("walk.lookup_offset_id", format!("Dwarf::lookup_offset_id does not find the id of a reader inside {}", id.name()));
                }
            }
        }
    }
}

fn dwarf_holds(id: SectionId) -> bool {
    matches!(
        id,
        SectionId::DebugAbbrev
            | SectionId::DebugAddr
            | SectionId::DebugAranges
            | SectionId::DebugInfo
            | SectionId::DebugLine
            | SectionId::DebugLineStr
            | SectionId::DebugStr
            | SectionId::DebugStrOffsets
            | SectionId::DebugTypes
            | SectionId::DebugLoc
            | SectionId::DebugLocLists
            | SectionId::DebugRanges
            | SectionId::DebugRngLists
    )
}

fn ops<R: Ext>(out: &mut Render, e: &gimli::Expression<R>, enc: gimli::Encoding) {
    let mut it = e.clone().operations(enc);
    for _ in 0..2000 {
        if out.full() {
            return;
        }
        match it.next() {
            Ok(Some(op)) => {
                out.ok_items += 1;
                let off = it.offset_from(e);
                let s = match &op {
                    gimli::Operation::ImplicitValue { data } => format!("ImplicitValue({})", out.rd(data)),
                    gimli::Operation::EntryValue { expression } => format!("EntryValue({})", out.rd(expression)),
                    gimli::Operation::TypedLiteral { base_type, value } => format!("TypedLiteral({:?}, {})", base_type, out.rd(value)),
                    other => format!("{other:?}"),
                };
                out.line(format!("      op {s} next@{off}"));
            }
            Ok(None) => return,
            Err(e) => {
                let s = out.err(e);
                out.line(format!("      op {s}"));
                return;
            }
        }
    }
}

fn attr_value<R: Ext>(out: &mut Render, dwarf: &gimli::Dwarf<R>, unit: &gimli::Unit<R>, v: &gimli::AttributeValue<R>) -> String {
    match v {
        gimli::AttributeValue::Block(r) => {
            check_lookup(out, dwarf, r);
            format!("Block({})", out.rd(r))
        }
        gimli::AttributeValue::Exprloc(e) => {
            check_lookup(out, dwarf, &e.0);
            format!("Exprloc({})", out.rd(&e.0))
        }
        gimli::AttributeValue::String(r) => {
            check_lookup(out, dwarf, r);
            format!("String({})", out.rd(r))
        }
        other => {
            let mut s = format!("{other:?}");
            if let Ok(r) = dwarf.attr_string(unit, other.clone()) {
                check_lookup(out, dwarf, &r);
                s.push_str(&format!(" -> {}", out.rd(&r)));
                if let Ok(t) = r.to_string_lossy() {
                    s.push_str(&format!(" {:?}", t.chars().take(24).collect::<String>()));
                }
            }
            s
        }
    }
}

fn unit_walk<R: Ext>(out: &mut Render, dwarf: &gimli::Dwarf<R>, unit: &gimli::Unit<R>) {
    let enc = unit.encoding();
    if let Some(n) = &unit.name {
        let s = out.rd(n);
        out.line(format!("  name {s}"));
    }
    if let Some(n) = &unit.comp_dir {
        let s = out.rd(n);
        out.line(format!("  comp_dir {s}"));
    }
    out.line(format!("  bases low_pc={:#x} str_off={:?} addr={:?} loclists={:?} rnglists={:?}", unit.low_pc, unit.str_offsets_base, unit.addr_base, unit.loclists_base, unit.rnglists_base));
    let mut cur = unit.entries();
    for _ in 0..4000 {
        if out.full() {
            return;
        }
        let entry = match cur.next_dfs() {
            Ok(Some(e)) => e.clone(),
            Ok(None) => break,
            Err(e) => {
                let s = out.err(e);
                out.line(format!("  die {s}"));
                break;
            }
        };
        out.ok_items += 1;
        out.line(format!("  die depth={} off={:#x} tag={:?} children={}", entry.depth(), entry.offset().0, entry.tag(), entry.has_children()));
        for attr in entry.attrs() {
            let v = attr.value();
            let s = attr_value(out, dwarf, unit, &v);
            out.line(format!("    {:?} {:?} = {}", attr.name(), attr.form(), s));
            let raw = attr.raw_value();
            if let gimli::AttributeValue::Block(r) = &raw {
                let s = out.rd(r);
                out.line(format!("      raw Block({s})"));
            }
            if let gimli::AttributeValue::Exprloc(e) = &v {
                ops(out, e, enc);
            }
            match dwarf.attr_ranges(unit, v.clone()) {
                Ok(Some(mut it)) => {
                    for _ in 0..200 {
                        match it.next() {
                            Ok(Some(r)) => {
                                out.ok_items += 1;
                                out.line(format!("      range {:#x}..{:#x}", r.begin, r.end));
                            }
                            Ok(None) => break,
                            Err(e) => {
                                let s = out.err(e);
                                out.line(format!("      range {s}"));
                                break;
                            }
                        }
                    }
                }
                Ok(None) => {}
                Err(e) => {
                    let s = out.err(e);
                    out.line(format!("      ranges {s}"));
                }
            }
            match dwarf.attr_locations(unit, v.clone()) {
                Ok(Some(mut it)) => {
                    for _ in 0..200 {
                        match it.next() {
                            Ok(Some(l)) => {
                                out.ok_items += 1;
                                check_lookup(out, dwarf, &l.data.0);
                                let s = out.rd(&l.data.0);
                                out.line(format!("      loc {:#x}..{:#x} {}", l.range.begin, l.range.end, s));
                                ops(out, &l.data, enc);
                            }
                            Ok(None) => break,
                            Err(e) => {
                                let s = out.err(e);
                                out.line(format!("      loc {s}"));
                                break;
                            }
                        }
                    }
                }
                Ok(None) => {}
                Err(e) => {
                    let s = out.err(e);
                    out.line(format!("      locs {s}"));
                }
            }
        }
    }
    if let Some(prog) = unit.line_program.clone() {
        line_walk(out, dwarf, unit, prog);
    }
}

fn line_walk<R: Ext>(out: &mut Render, dwarf: &gimli::Dwarf<R>, unit: &gimli::Unit<R>, prog: gimli::IncompleteLineProgram<R>) {
    {
        let h = prog.header();
        out.line(format!(
            "  line off={:#x} len={:#x} ver={} hlen={:#x} min_inst={} max_ops={} is_stmt={} base={} range={} opbase={}",
            h.offset().0,
            h.unit_length(),
            h.version(),
            h.header_length(),
            h.minimum_instruction_length(),
            h.maximum_operations_per_instruction(),
            h.default_is_stmt(),
            h.line_base(),
            h.line_range(),
            h.opcode_base()
        ));
        let s = out.rd(h.standard_opcode_lengths());
        out.line(format!("    std_opcode_lengths {s}"));
        let s = out.rd(&h.raw_program_buf());
        out.line(format!("    program {s}"));
        for d in h.include_directories() {
            let s = attr_value(out, dwarf, unit, d);
            out.line(format!("    dir {s}"));
        }
        for f in h.file_names() {
            let s = attr_value(out, dwarf, unit, &f.path_name());
            out.line(format!("    file {} dir={} time={} size={} md5={}", s, f.directory_index(), f.timestamp(), f.size(), hex(f.md5())));
        }
    }
    let mut rows = prog.rows();
    for _ in 0..4000 {
        if out.full() {
            return;
        }
        match rows.next_row() {
            Ok(Some((_, row))) => {
                out.ok_items += 1;
                out.line(format!("    row {row:?}"));
            }
            Ok(None) => break,
            Err(e) => {
                let s = out.err(e);
                out.line(format!("    row {s}"));
                break;
            }
        }
    }
}

fn cfi_walk<R: Ext, Sec>(out: &mut Render, sec: &Sec, name: &str)
where
    Sec: UnwindSection<R> + Clone,
    Sec::Offset: gimli::UnwindOffset<usize>,
{
    let bases = gimli::BaseAddresses::default().set_eh_frame(0x1000).set_text(0x2000).set_got(0x3000);
    let mut ctx = gimli::UnwindContext::new();
    let mut entries = sec.entries(&bases);
    for _ in 0..400 {
        if out.full() {
            return;
        }
        match entries.next() {
            Ok(Some(gimli::CieOrFde::Cie(cie))) => {
                out.ok_items += 1;
                out.line(format!(
                    "{name} cie off={:#x} len={:#x} ver={} code={} data={} ra={:?} aug={:?} lsda={:?} pers={:?} fde_enc={:?}",
                    cie.offset(),
                    cie.entry_len(),
                    cie.version(),
                    cie.code_alignment_factor(),
                    cie.data_alignment_factor(),
                    cie.return_address_register(),
                    cie.augmentation().is_some(),
                    cie.lsda_encoding(),
                    cie.personality(),
                    cie.fde_address_encoding()
                ));
                let mut it = cie.instructions(sec, &bases);
                for _ in 0..400 {
                    match it.next() {
                        Ok(Some(i)) => out.line(format!("  insn {i:?}")),
                        Ok(None) => break,
                        Err(e) => {
                            let s = out.err(e);
                            out.line(format!("  insn {s}"));
                            break;
                        }
                    }
                }
            }
            Ok(Some(gimli::CieOrFde::Fde(partial))) => match partial.parse(Sec::cie_from_offset) {
                Ok(fde) => {
                    out.ok_items += 1;
                    out.line(format!(
                        "{name} fde off={:#x} len={:#x} cie={:#x} start={:#x} size={:#x} lsda={:?}",
                        fde.offset(),
                        fde.entry_len(),
                        fde.cie().offset(),
                        fde.initial_address(),
                        fde.len(),
                        fde.lsda()
                    ));
                    let mut it = fde.instructions(sec, &bases);
                    for _ in 0..400 {
                        match it.next() {
                            Ok(Some(i)) => out.line(format!("  insn {i:?}")),
                            Ok(None) => break,
                            Err(e) => {
                                let s = out.err(e);
                                out.line(format!("  insn {s}"));
                                break;
                            }
                        }
                    }
                    match fde.rows(sec, &bases, &mut ctx) {
                        Ok(mut table) => {
                            for _ in 0..400 {
                                match table.next_row() {
                                    Ok(Some(row)) => {
                                        let regs: Vec<String> = row.registers().map(|(r, rule)| format!("{}={:?}", r.0, rule)).collect();
                                        out.line(format!("  row {:#x}..{:#x} cfa={:?} args={} {}", row.start_address(), row.end_address(), row.cfa(), row.saved_args_size(), regs.join(" ")));
                                    }
                                    Ok(None) => break,
                                    Err(e) => {
                                        let s = out.err(e);
                                        out.line(format!("  row {s}"));
                                        break;
                                    }
                                }
                            }
                        }
                        Err(e) => {
                            let s = out.err(e);
                            out.line(format!("  rows {s}"));
                        }
                    }
                }
                Err(e) => {
                    let s = out.err(e);
                    out.line(format!("{name} fde {s}"));
                }
            },
            Ok(None) => break,
            Err(e) => {
                let s = out.err(e);
                out.line(format!("{name} entry {s}"));
                break;
            }
        }
    }
}

fn macro_walk<R: Ext>(out: &mut Render, it: gimli::Result<gimli::MacroIter<R>>, name: &str) {
    let mut it = match it {
        Ok(it) => it,
        Err(e) => {
            let s = out.err(e);
            out.line(format!("{name} {s}"));
            return;
        }
    };
    for _ in 0..400 {
        match it.next() {
            Ok(Some(e)) => {
                out.ok_items += 1;
                let s = match &e {
                    gimli::MacroEntry::Define { line, text: gimli::MacroString::Direct(r) } => format!("Define {line} {}", out.rd(r)),
                    gimli::MacroEntry::Undef { line, name: gimli::MacroString::Direct(r) } => format!("Undef {line} {}", out.rd(r)),
                    gimli::MacroEntry::VendorExt { numeric, string } => format!("VendorExt {numeric} {}", out.rd(string)),
                    gimli::MacroEntry::Define { line, text: gimli::MacroString::StringPointer(o) } => format!("Define {line} strp {:#x}", o.0),
                    gimli::MacroEntry::Undef { line, name: gimli::MacroString::StringPointer(o) } => format!("Undef {line} strp {:#x}", o.0),
                    gimli::MacroEntry::StartFile { line, file } => format!("StartFile {line} {file}"),
                    gimli::MacroEntry::EndFile => "EndFile".to_string(),
                    gimli::MacroEntry::Import { offset } => format!("Import {:#x}", offset.0),
                    gimli::MacroEntry::ImportSup { offset } => format!("ImportSup {:#x}", offset.0),
                    _ => "other".to_string(),
                };
                out.line(format!("{name} {s}"));
            }
            Ok(None) => break,
            Err(e) => {
                let s = out.err(e);
                out.line(format!("{name} {s}"));
                break;
            }
        }
    }
}

/// The walker.  `load` produces the reader for a section; `table` says where each section's
/// buffer lies (for locating handed-back readers).
pub fn walk<R: Ext>(load: &dyn Fn(SectionId) -> R, table: Vec<(SectionId, usize, usize)>, addr_size: u8) -> Render {
    let mut out = Render { lines: vec![], table, problems: vec![], ok_items: 0, subreaders: 0, errors: 0 };
    let dwarf: gimli::Dwarf<R> = match gimli::Dwarf::load(|id| Ok::<R, ()>(load(id))) {
        Ok(d) => d,
        Err(()) => return out,
    };
    let mut units = dwarf.units();
    for _ in 0..64 {
        if out.full() {
            break;
        }
        match units.next() {
            Ok(Some(h)) => {
                out.ok_items += 1;
                out.line(format!(
                    "unit off={:?} len={:#x} ver={} fmt={:?} addr={} type={:?} abbrev={:#x}",
                    h.offset(),
                    h.unit_length(),
                    h.version(),
                    h.format(),
                    h.address_size(),
                    h.type_(),
                    h.debug_abbrev_offset().0
                ));
                match dwarf.unit(h) {
                    Ok(u) => unit_walk(&mut out, &dwarf, &u),
                    Err(e) => {
                        let s = out.err(e);
                        out.line(format!("  unit {s}"));
                    }
                }
            }
            Ok(None) => break,
            Err(e) => {
                let s = out.err(e);
                out.line(format!("unit {s}"));
                break;
            }
        }
    }
    // strings by offset
    for off in [0usize, 1, 5, 17] {
        match dwarf.string(gimli::DebugStrOffset(off)) {
            Ok(r) => {
                check_lookup(&mut out, &dwarf, &r);
                let s = out.rd(&r);
                out.line(format!("str@{off} {s}"));
            }
            Err(e) => {
                let s = out.err(e);
                out.line(format!("str@{off} {s}"));
            }
        }
        match dwarf.line_string(gimli::DebugLineStrOffset(off)) {
            Ok(r) => {
                let s = out.rd(&r);
                out.line(format!("line_str@{off} {s}"));
            }
            Err(e) => {
                let s = out.err(e);
                out.line(format!("line_str@{off} {s}"));
            }
        }
    }
    // aranges
    {
        let mut hs = dwarf.debug_aranges.headers();
        for _ in 0..64 {
            match hs.next() {
                Ok(Some(h)) => {
                    out.ok_items += 1;
                    out.line(format!("aranges off={:#x} info={:#x} len={:#x}", h.offset().0, h.debug_info_offset().0, h.length()));
                    let mut es = h.entries();
                    for _ in 0..200 {
                        match es.next() {
                            Ok(Some(e)) => out.line(format!("  arange {e:?}")),
                            Ok(None) => break,
                            Err(e) => {
                                let s = out.err(e);
                                out.line(format!("  arange {s}"));
                                break;
                            }
                        }
                    }
                }
                Ok(None) => break,
                Err(e) => {
                    let s = out.err(e);
                    out.line(format!("aranges {s}"));
                    break;
                }
            }
        }
    }
    // macros
    macro_walk(&mut out, dwarf.macros(gimli::DebugMacroOffset(0)), "macro");
    macro_walk(&mut out, dwarf.macinfo(gimli::DebugMacinfoOffset(0)), "macinfo");
    // pubnames / pubtypes
    {
        let pn = gimli::DebugPubNames::from(load(SectionId::DebugPubNames));
        let mut it = pn.items();
        for _ in 0..200 {
            match it.next() {
                Ok(Some(e)) => {
                    out.ok_items += 1;
                    let s = out.rd(e.name());
                    out.line(format!("pubname {} unit={:#x} die={:#x}", s, e.unit_header_offset().0, e.die_offset().0));
                }
                Ok(None) => break,
                Err(e) => {
                    let s = out.err(e);
                    out.line(format!("pubname {s}"));
                    break;
                }
            }
        }
        let pt = gimli::DebugPubTypes::from(load(SectionId::DebugPubTypes));
        let mut it = pt.items();
        for _ in 0..200 {
            match it.next() {
                Ok(Some(e)) => {
                    out.ok_items += 1;
                    let s = out.rd(e.name());
                    out.line(format!("pubtype {} unit={:#x} die={:#x}", s, e.unit_header_offset().0, e.die_offset().0));
                }
                Ok(None) => break,
                Err(e) => {
                    let s = out.err(e);
                    out.line(format!("pubtype {s}"));
                    break;
                }
            }
        }
    }
    // CFI
    {
        let mut df = gimli::DebugFrame::from(load(SectionId::DebugFrame));
        df.set_address_size(addr_size);
        cfi_walk(&mut out, &df, "debug_frame");
        let mut eh = gimli::EhFrame::from(load(SectionId::EhFrame));
        eh.set_address_size(addr_size);
        cfi_walk(&mut out, &eh, "eh_frame");
    }
    out
}

// ---------------------------------------------------------------- per-kind loaders

static EMPTY: [u8; 0] = [];

pub fn walk_kind(k: usize, secs: &Secs, enc: Enc) -> Render {
    let en: RunTimeEndian = enc.endian();
    let ids: Vec<SectionId> = secs.map.keys().copied().collect();
    match k {
        0 | 4 => {
            let table: Vec<_> = ids.iter().map(|id| (*id, secs.map[id].as_ptr() as usize, secs.map[id].len())).collect();
            let get = |id: SectionId| -> &[u8] { secs.map.get(&id).map(|v| &v[..]).unwrap_or(&EMPTY) };
            if k == 0 {
                walk(&|id| EndianSlice::new(get(id), en), table, enc.addr)
            } else {
                walk(&|id| RelocateReader::new(EndianSlice::new(get(id), en), Ident), table, enc.addr)
            }
        }
        1 | 5 => {
            let m: HashMap<SectionId, Rc<[u8]>> = ids.iter().map(|id| (*id, Rc::from(&secs.map[id][..]))).collect();
            let empty: Rc<[u8]> = Rc::from(&EMPTY[..]);
            let table: Vec<_> = m.iter().map(|(id, b)| (*id, b.as_ptr() as usize, b.len())).collect();
            if k == 1 {
                walk(&|id| EndianReader::new(m.get(&id).unwrap_or(&empty).clone(), en), table, enc.addr)
            } else {
                walk(&|id| RelocateReader::new(EndianReader::new(m.get(&id).unwrap_or(&empty).clone(), en), Ident), table, enc.addr)
            }
        }
        2 => {
            let m: HashMap<SectionId, Arc<[u8]>> = ids.iter().map(|id| (*id, Arc::from(&secs.map[id][..]))).collect();
            let empty: Arc<[u8]> = Arc::from(&EMPTY[..]);
            let table: Vec<_> = m.iter().map(|(id, b)| (*id, b.as_ptr() as usize, b.len())).collect();
            walk(&|id| EndianReader::new(m.get(&id).unwrap_or(&empty).clone(), en), table, enc.addr)
        }
        _ => {
            let stats = Rc::new(BufStats::default());
            let m: HashMap<SectionId, MyBuf> = ids.iter().map(|id| (*id, MyBuf::new(&secs.map[id], stats.clone()))).collect();
            let empty = MyBuf::new(&EMPTY, stats.clone());
            let table: Vec<_> = m.iter().map(|(id, b)| (*id, b.as_ptr() as usize, b.len())).collect();
            walk(&|id| EndianReader::new(m.get(&id).unwrap_or(&empty).clone(), en), table, enc.addr)
        }
    }
}

// ---------------------------------------------------------------- workload

fn merge(a: &mut Secs, b: Secs) {
    for (k, v) in b.map {
        a.map.entry(k).or_insert(v);
    }
}

fn one_case(ctx: &mut Ctx, secs: &Secs, enc: Enc, what: &str) {
    ctx.eval();
    let input = || json!({"enc": enc.label(), "mutation": what, "sections": secs.json()});
    let mut renders: Vec<Option<Render>> = vec![];
    for k in 0..KINDS.len() {
        let r = ctx.guard(&format!("walk.{}", KINDS[k]), &input, || walk_kind(k, secs, enc));
        if let Some(r) = &r {
            for (sig, w) in &r.problems {
                ctx.fail(&format!("{}|{}", sig, KINDS[k]), &format!("[{}] {}", KINDS[k], w), &input);
            }
        }
        renders.push(r);
    }
    let Some(Some(first)) = renders.first() else { return };
    for k in 1..KINDS.len() {
        let Some(Some(o)) = renders.get(k) else { continue };
        if o.lines != first.lines {
            let i = (0..first.lines.len().min(o.lines.len())).find(|&i| first.lines[i] != o.lines[i]);
            let what = match i {
                Some(i) => format!("line {i}: {} renders {:?}, {} renders {:?}", KINDS[0], first.lines[i], KINDS[k], o.lines[i]),
                None => format!("{} renders {} lines, {} renders {} lines", KINDS[0], first.lines.len(), KINDS[k], o.lines.len()),
            };
            ctx.fail(&format!("walk.agree|{}", KINDS[k]), &what, &input);
        }
    }
    ctx.obs("walk.cases");
    ctx.obs_n("walk.subreaders", first.subreaders);
    ctx.obs_n("walk.errors", first.errors);
    ctx.obs_n("walk.items", first.ok_items);
    ctx.obs_max("walk.lines", first.lines.len() as u64);
    if first.ok_items > 0 {
        ctx.nontrivial(secs.digest() ^ crate::rt::fnv(enc.label().as_bytes()));
    }
    ctx.sample("walk", || json!({"enc": enc.label(), "mutation": what, "lines": first.lines.iter().take(12).collect::<Vec<_>>(), "total_lines": first.lines.len()}));
}

pub fn run(ctx: &mut Ctx) {
    let n = match ctx.profile {
        // one valid and one mutated set of sections per shard
        Profile::Miri => 2 * ctx.nshards,
        _ => ctx.size(1_600, 16_000, 8),
    };
    for i in 0..n {
        if !ctx.want("walk", i) {
            continue;
        }
        let mut r = ctx.rng("walk", i);
        let enc = Enc::nth(i);
        let mut secs = seeds::dwarf_seed(enc, &mut r).unwrap_or_default();
        merge(&mut secs, seeds::frame_seed(enc, &mut r));
        merge(&mut secs, seeds::misc_seed(enc, &mut r));
        secs.map.retain(|_, v| !v.is_empty());
        // case 0 of each group of 8 is the valid seed, the others carry one mutation
        let mut what = "none".to_string();
        if i % 8 != 0 && !secs.map.is_empty() {
            let mut ids: Vec<SectionId> = secs.map.keys().copied().collect();
            ids.sort_by_key(|k| k.name());
            // prefer the sections the walker reads most
            let id = if r.chance(2, 3) {
                *r.pick(&[SectionId::DebugInfo, SectionId::DebugAbbrev, SectionId::DebugLine, SectionId::DebugFrame, SectionId::EhFrame, SectionId::DebugStr])
            } else {
                *r.pick(&ids)
            };
            if let Some(b) = secs.map.get(&id).cloned() {
                if !b.is_empty() {
                    let k = r.below(mutate::count(b.len()));
                    let (nb, desc) = mutate::nth(&b, k);
                    what = format!("{}:{}", id.name(), desc);
                    secs.map.insert(id, nb);
                }
            }
        }
        one_case(ctx, &secs, enc, &what);
    }
}

//! C17 corpus complement: accelerator tables and split-DWARF packages built by the
//! compilers and packagers, gimli's view compared with llvm-dwarfdump's dumps (the external
//! tool is the oracle):
//!
//! * `.debug_names` (clang -gdwarf-5 -gpubnames): header fields, CU / TU lists, abbreviation
//!   table, every bucket (name index + hash), every name (string offset, string, every entry:
//!   abbreviation code, tag, every DW_IDX_* value), `find_by_hash` of every hash;
//! * `.debug_aranges`: every set header and tuple;
//! * `.debug_pubnames` / `.debug_pubtypes`: every (unit offset, entry offset, name);
//! * `.dwp` packages made by `llvm-dwp` (DWARF 4 and 5) and binutils `dwp` (DWARF 4) from
//!   three `-gsplit-dwarf` objects: `.debug_cu_index` / `.debug_tu_index` header and every
//!   row (signature -> `UnitIndex::find` -> `sections(row)` vs the printed contributions),
//!   absent signatures; `DwarfPackage::find_cu(dwo_id)` / `find_tu(signature)` for every
//!   unit of every standalone `.dwo`: entry count and root name as llvm-dwarfdump prints
//!   them for the `.dwo`, and an entry-by-entry fingerprint (offsets, tags, attribute names,
//!   values, resolved strings, resolved range / location lists) equal to the fingerprint of
//!   the same unit read from the standalone `.dwo`.
//!
//! Tool failures are *inconclusive*, never violations.

use crate::rt::Ctx;
use gimli::Section;
use serde_json::json;
use std::collections::{BTreeMap, HashMap};

#[path = "corpus_b.rs"]
mod cb;
use cb::{Built, Cfg, Slice, LE};

pub fn configs(quick: bool) -> Vec<Cfg> {
    let mut v = vec![
        Cfg::new("clang", 5, "-O1", &["-gpubnames", "-gdwarf-aranges"]),
        Cfg::new("gcc", 4, "-O1", &["-gpubnames"]),
        Cfg::split("clang", 5, "-O2", &[]),
        Cfg::split("clang", 4, "-O1", &["-fdebug-types-section"]),
    ];
    if !quick {
        v.push(Cfg::new("clang", 4, "-O1", &["-gpubnames", "-gdwarf-aranges"]));
        v.push(Cfg::new("clang", 5, "-O0", &["-gpubnames", "-gdwarf-aranges"]));
        v.push(Cfg::new("clang", 4, "-O2", &["-mllvm", "-accel-tables=Dwarf", "-gdwarf-aranges"]));
        v.push(Cfg::new("gcc", 5, "-O2", &["-gpubnames"]));
        v.push(Cfg::new("gcc", 2, "-O2", &["-gpubnames"]));
        v.push(Cfg::new("gcc", 4, "-O2", &["-gdwarf64", "-gpubnames"]));
        for c in cb::matrix().into_iter().chain(cb::specials()).chain(cb::splits()) {
            if !v.contains(&c) {
                v.push(c);
            }
        }
    }
    v
}

// ================================================================ .debug_names

#[derive(Clone, Debug, Default, PartialEq, Eq)]
struct NEntry {
    /// llvm: section offset; gimli: offset in the entry pool (compared by difference)
    off: u64,
    abbrev: u64,
    tag: String,
    attrs: Vec<(String, u64)>,
}

#[derive(Clone, Debug, Default, PartialEq, Eq)]
struct NName {
    str_off: u64,
    string: Vec<u8>,
    entries: Vec<NEntry>,
}

#[derive(Clone, Debug, Default, PartialEq, Eq)]
struct NIndex {
    offset: u64,
    length: u64,
    fmt64: bool,
    version: u64,
    cu_count: u64,
    local_tu_count: u64,
    foreign_tu_count: u64,
    bucket_count: u64,
    name_count: u64,
    abbrev_size: u64,
    augmentation: Vec<u8>,
    cus: Vec<u64>,
    local_tus: Vec<u64>,
    foreign_tus: Vec<u64>,
    abbrevs: Vec<(u64, String, Vec<(String, String)>)>,
    /// bucket -> [(1-based name index, hash)]
    buckets: Vec<Vec<(u64, u64)>>,
    /// 1-based name index -> name
    names: BTreeMap<u64, NName>,
}

fn any_hex(t: &str) -> Option<u64> {
    let t = t.trim();
    let t = t.strip_prefix("0x").unwrap_or(t);
    let end = t.find(|c: char| !c.is_ascii_hexdigit()).unwrap_or(t.len());
    if end == 0 {
        return None;
    }
    u64::from_str_radix(&t[..end], 16).ok()
}

fn parse_names(text: &str) -> Result<Vec<NIndex>, String> {
    let mut out: Vec<NIndex> = vec![];
    #[derive(PartialEq)]
    enum Sec {
        None,
        Header,
        Cus,
        LocalTus,
        ForeignTus,
        Abbrevs,
    }
    let mut sec = Sec::None;
    let mut bucket: Option<usize> = None;
    let mut name: Option<u64> = None;
    let mut in_entry = false;
    let mut in_abbrev = false;
    for line in text.lines() {
        let t = line.trim();
        if let Some(r) = t.strip_prefix("Name Index @ ") {
            out.push(NIndex { offset: any_hex(r).ok_or("index offset")?, ..Default::default() });
            sec = Sec::None;
            bucket = None;
            name = None;
            continue;
        }
        let Some(ix) = out.last_mut() else { continue };
        let val = |key: &str| t.strip_prefix(key).map(|r| r.trim());
        if t == "Header {" {
            sec = Sec::Header;
            continue;
        }
        if t.starts_with("Compilation Unit offsets [") {
            sec = Sec::Cus;
            continue;
        }
        if t.starts_with("Local Type Unit offsets [") {
            sec = Sec::LocalTus;
            continue;
        }
        if t.starts_with("Foreign Type Unit signatures [") {
            sec = Sec::ForeignTus;
            continue;
        }
        if t == "Abbreviations [" {
            sec = Sec::Abbrevs;
            continue;
        }
        if t == "]" {
            if bucket.is_some() && name.is_none() {
                bucket = None;
            }
            if !in_abbrev {
                sec = Sec::None;
            }
            continue;
        }
        if t == "}" {
            if in_entry {
                in_entry = false;
            } else if in_abbrev {
                in_abbrev = false;
            } else if name.is_some() {
                name = None;
            } else if sec == Sec::Header {
                sec = Sec::None;
            }
            continue;
        }
        match sec {
            Sec::Header => {
                let dec = |r: &str| r.parse::<u64>().map_err(|e| format!("{t}: {e}"));
                if let Some(r) = val("Length:") {
                    ix.length = any_hex(r).ok_or("Length")?;
                } else if let Some(r) = val("Format:") {
                    ix.fmt64 = r == "DWARF64";
                } else if let Some(r) = val("Version:") {
                    ix.version = dec(r)?;
                } else if let Some(r) = val("CU count:") {
                    ix.cu_count = dec(r)?;
                } else if let Some(r) = val("Local TU count:") {
                    ix.local_tu_count = dec(r)?;
                } else if let Some(r) = val("Foreign TU count:") {
                    ix.foreign_tu_count = dec(r)?;
                } else if let Some(r) = val("Bucket count:") {
                    ix.bucket_count = dec(r)?;
                    ix.buckets = vec![vec![]; ix.bucket_count as usize];
                } else if let Some(r) = val("Name count:") {
                    ix.name_count = dec(r)?;
                } else if let Some(r) = val("Abbreviations table size:") {
                    ix.abbrev_size = any_hex(r).ok_or("abbrev size")?;
                } else if let Some(r) = val("Augmentation:") {
                    ix.augmentation = r.trim_matches('\'').as_bytes().to_vec();
                }
                continue;
            }
            Sec::Cus | Sec::LocalTus | Sec::ForeignTus => {
                let Some(c) = t.find("]: ") else { return Err(format!("unit list line: {t}")) };
                let v = any_hex(&t[c + 3..]).ok_or_else(|| format!("unit list line: {t}"))?;
                match sec {
                    Sec::Cus => ix.cus.push(v),
                    Sec::LocalTus => ix.local_tus.push(v),
                    _ => ix.foreign_tus.push(v),
                }
                continue;
            }
            Sec::Abbrevs => {
                if let Some(r) = t.strip_prefix("Abbreviation ") {
                    ix.abbrevs.push((any_hex(r).ok_or("abbrev code")?, String::new(), vec![]));
                    in_abbrev = true;
                } else if let Some(r) = val("Tag:") {
                    if let Some(a) = ix.abbrevs.last_mut() {
                        a.1 = r.to_string();
                    }
                } else if let Some((k, v)) = t.split_once(": ") {
                    if let Some(a) = ix.abbrevs.last_mut() {
                        a.2.push((k.to_string(), v.trim().to_string()));
                    }
                }
                continue;
            }
            Sec::None => {}
        }
        if let Some(r) = t.strip_prefix("Bucket ") {
            let n: usize = r.trim_end_matches('[').trim().parse().map_err(|e| format!("{t}: {e}"))?;
            bucket = Some(n);
            continue;
        }
        if t == "EMPTY" {
            continue;
        }
        if let Some(r) = t.strip_prefix("Name ") {
            let n: u64 = r.trim_end_matches('{').trim().parse().map_err(|e| format!("{t}: {e}"))?;
            name = Some(n);
            ix.names.insert(n, NName::default());
            continue;
        }
        let Some(n) = name else { continue };
        if let Some(r) = val("Hash:") {
            let h = any_hex(r).ok_or("hash")?;
            if let Some(b) = bucket {
                ix.buckets.get_mut(b).ok_or("bucket number out of range")?.push((n, h));
            }
            continue;
        }
        let nm = ix.names.get_mut(&n).unwrap();
        if let Some(r) = val("String:") {
            nm.str_off = any_hex(r).ok_or("string offset")?;
            nm.string = cb::quoted(r).ok_or("string text")?;
            continue;
        }
        if let Some(r) = t.strip_prefix("Entry @ ") {
            nm.entries.push(NEntry { off: any_hex(r).ok_or("entry offset")?, ..Default::default() });
            in_entry = true;
            continue;
        }
        if in_entry {
            let e = nm.entries.last_mut().unwrap();
            if let Some(r) = val("Abbrev:") {
                e.abbrev = any_hex(r).ok_or("abbrev")?;
            } else if let Some(r) = val("Tag:") {
                e.tag = r.to_string();
            } else if let Some((k, v)) = t.split_once(": ") {
                let v = cb::lead_num(v.trim()).ok_or_else(|| format!("entry attribute value: {t}"))?;
                e.attrs.push((k.to_string(), v as u64));
            }
        }
    }
    Ok(out)
}

fn gimli_names(debug_names: &[u8], debug_str: &[u8]) -> Result<(Vec<NIndex>, Vec<String>), String> {
    let dn = gimli::DebugNames::new(debug_names, LE);
    let ds = gimli::DebugStr::new(debug_str, LE);
    let mut out = vec![];
    // problems of the lookup paths (find_by_hash) found while walking
    let mut problems = vec![];
    let mut hs = dn.headers();
    loop {
        let h = match hs.next() {
            Ok(Some(h)) => h,
            Ok(None) => break,
            Err(e) => return Err(format!("headers: {e:?}")),
        };
        let mut ix = NIndex {
            offset: h.offset().0 as u64,
            length: h.length() as u64,
            fmt64: h.format() == gimli::Format::Dwarf64,
            version: h.version() as u64,
            cu_count: h.compile_unit_count() as u64,
            local_tu_count: h.local_type_unit_count() as u64,
            foreign_tu_count: h.foreign_type_unit_count() as u64,
            bucket_count: h.bucket_count() as u64,
            name_count: h.name_count() as u64,
            abbrev_size: h.abbrev_table_size() as u64,
            augmentation: h.augmentation_string().map(|s| s.slice().to_vec()).unwrap_or_default(),
            ..Default::default()
        };
        while ix.augmentation.last() == Some(&0) {
            ix.augmentation.pop();
        }
        let index = h.index().map_err(|e| format!("index at 0x{:x}: {e:?}", ix.offset))?;
        for i in 0..index.compile_unit_count() {
            ix.cus.push(index.compile_unit(i).map_err(|e| format!("compile_unit({i}): {e:?}"))?.0 as u64);
        }
        for i in 0..index.local_type_unit_count() {
            ix.local_tus.push(index.local_type_unit(i).map_err(|e| format!("local_type_unit({i}): {e:?}"))?.0 as u64);
        }
        for i in 0..index.foreign_type_unit_count() {
            ix.foreign_tus.push(index.foreign_type_unit(i).map_err(|e| format!("foreign_type_unit({i}): {e:?}"))?.0);
        }
        for a in index.abbreviations().abbreviations() {
            ix.abbrevs.push((
                a.code(),
                a.tag().static_string().unwrap_or("?").to_string(),
                a.attributes().iter().map(|s| (s.name().static_string().unwrap_or("?").to_string(), s.form().static_string().unwrap_or("?").to_string())).collect(),
            ));
        }
        let mut hash_of: HashMap<u64, u64> = HashMap::new();
        for b in 0..index.bucket_count() {
            let mut v = vec![];
            if let Some(mut it) = index.find_by_bucket(b).map_err(|e| format!("find_by_bucket({b}): {e:?}"))? {
                while let Some((n, hash)) = it.next().map_err(|e| format!("bucket {b}: {e:?}"))? {
                    v.push((n.0 as u64 + 1, hash as u64));
                    hash_of.insert(n.0 as u64 + 1, hash as u64);
                    if v.len() > 1_000_000 {
                        return Err("bucket runaway".into());
                    }
                }
            }
            ix.buckets.push(v);
        }
        for n in index.names() {
            let str_off = index.name_string_offset(n).map_err(|e| format!("name_string_offset({}): {e:?}", n.0))?.0 as u64;
            let string = index.name_string(n, &ds).map_err(|e| format!("name_string({}): {e:?}", n.0))?.slice().to_vec();
            let mut entries = vec![];
            let mut it = index.name_entries(n).map_err(|e| format!("name_entries({}): {e:?}", n.0))?;
            while let Some(e) = it.next().map_err(|e| format!("name {} entry: {e:?}", n.0))? {
                let mut attrs = vec![];
                for a in &e.attrs {
                    let v = match a.value() {
                        gimli::NameAttributeValue::Unsigned(u) => *u,
                        gimli::NameAttributeValue::Offset(o) => *o as u64,
                        gimli::NameAttributeValue::Flag(b) => *b as u64,
                    };
                    attrs.push((a.name().static_string().unwrap_or("?").to_string(), v));
                }
                // the typed accessors agree with the raw attribute list
                if let Ok(Some(d)) = e.die_offset() {
                    if !attrs.iter().any(|(k, v)| k == "DW_IDX_die_offset" && *v == d.0 as u64) {
                        problems.push(format!("name {}: die_offset() = 0x{:x} is not the DW_IDX_die_offset attribute", n.0, d.0));
                    }
                }
                match e.compile_unit(&index) {
                    Ok(Some(cu)) => {
                        let i = attrs.iter().find(|(k, _)| k == "DW_IDX_compile_unit").map(|x| x.1);
                        if i.and_then(|i| ix.cus.get(i as usize)).copied() != Some(cu.0 as u64) {
                            problems.push(format!("name {}: compile_unit() = 0x{:x} is not CU[{i:?}] of the index", n.0, cu.0));
                        }
                    }
                    Ok(None) => {}
                    Err(e) => problems.push(format!("name {}: compile_unit(): {e:?}", n.0)),
                }
                entries.push(NEntry { off: e.offset.0 as u64, abbrev: e.abbrev_code, tag: e.tag.static_string().unwrap_or("?").to_string(), attrs });
                if entries.len() > 1_000_000 {
                    return Err("entry runaway".into());
                }
            }
            ix.names.insert(n.0 as u64 + 1, NName { str_off, string, entries });
        }
        // find_by_hash of every hash: exactly the names with that hash
        if index.has_hash_table() {
            let mut by_hash: BTreeMap<u64, Vec<u64>> = BTreeMap::new();
            for (n, h) in &hash_of {
                by_hash.entry(*h).or_default().push(*n);
            }
            for (h, want) in by_hash.iter_mut() {
                want.sort();
                let mut got = vec![];
                match index.find_by_hash(*h as u32) {
                    Err(e) => problems.push(format!("find_by_hash(0x{h:x}): {e:?}")),
                    Ok(mut it) => loop {
                        match it.next() {
                            Ok(Some(n)) => got.push(n.0 as u64 + 1),
                            Ok(None) => break,
                            Err(e) => {
                                problems.push(format!("find_by_hash(0x{h:x}): {e:?}"));
                                break;
                            }
                        }
                        if got.len() > 1_000_000 {
                            break;
                        }
                    },
                }
                got.sort();
                if got != *want {
                    problems.push(format!("find_by_hash(0x{h:x}) yields names {got:?}, the buckets hold {want:?}"));
                }
            }
            // a hash that no name has
            let mut absent = 0x1234_5678u64;
            while by_hash.contains_key(&absent) {
                absent += 1;
            }
            if let Ok(mut it) = index.find_by_hash(absent as u32) {
                if let Ok(Some(n)) = it.next() {
                    problems.push(format!("find_by_hash(0x{absent:x}) (absent) yields name {}", n.0 + 1));
                }
            }
        }
        out.push(ix);
    }
    Ok((out, problems))
}

fn check_names(ctx: &mut Ctx, b: &Built, obj: &cb::Obj, label: &str) {
    let sec = obj.sec(".debug_names");
    if sec.is_empty() {
        return;
    }
    let text = match b.dump(&["--debug-names"], "prog") {
        Ok(t) => t,
        Err(e) => return ctx.inconclusive(&format!("corpus: {label}: {e}")),
    };
    let mut expect = match parse_names(&text) {
        Ok(v) if !v.is_empty() => v,
        Ok(_) => return ctx.inconclusive(&format!("corpus: {label}: llvm-dwarfdump printed no name index")),
        Err(e) => return ctx.inconclusive(&format!("corpus: {label}: cannot parse --debug-names output: {e}")),
    };
    let dir = b.dir.display().to_string();
    let input = || json!({"corpus": label, "build_dir": dir, "oracle": "llvm-dwarfdump --debug-names prog"});
    ctx.eval();
    let Some(got) = ctx.guard("corpus.names", &input, || gimli_names(sec, obj.sec(".debug_str"))) else { return };
    let (mut got, problems) = match got {
        Ok(g) => g,
        Err(e) => return ctx.fail("corpus.names.err", &format!("{label}: gimli rejected the compiler's .debug_names: {e}"), &input),
    };
    for p in problems {
        ctx.fail("corpus.names.lookup", &format!("{label}: {p}"), &input);
    }
    if expect.len() != got.len() {
        ctx.check_eq("corpus.names.index_count", &expect.len(), &got.len(), &input);
        return;
    }
    if expect.len() > 1 {
        ctx.obs("corpus.names.multi");
    }
    for (e, g) in expect.iter_mut().zip(got.iter_mut()) {
        ctx.obs("corpus.names.index");
        // entry offsets: llvm prints section offsets, gimli entry-pool offsets; the difference
        // must be the same for every entry of an index
        let mut delta: Option<u64> = None;
        let mut delta_ok = true;
        for (k, en) in e.names.iter_mut() {
            if let Some(gn) = g.names.get_mut(k) {
                for (ee, ge) in en.entries.iter_mut().zip(gn.entries.iter_mut()) {
                    let d = ee.off.wrapping_sub(ge.off);
                    if *delta.get_or_insert(d) != d {
                        delta_ok = false;
                    }
                    ee.off = 0;
                    ge.off = 0;
                }
            }
        }
        if !delta_ok {
            ctx.fail("corpus.names.entry_offset", &format!("{label}: index 0x{:x}: entry offsets are not a constant distance from llvm-dwarfdump's", e.offset), &input);
        }
        let (en, gn) = (std::mem::take(&mut e.names), std::mem::take(&mut g.names));
        let (eb, gb) = (std::mem::take(&mut e.buckets), std::mem::take(&mut g.buckets));
        ctx.check_eq("corpus.names.header", &*e, &*g, &input);
        if eb != gb {
            let k = eb.iter().zip(gb.iter()).position(|(a, b)| a != b).unwrap_or(eb.len().min(gb.len()));
            ctx.check_eq("corpus.names.bucket", &(eb.len(), k, eb.get(k)), &(gb.len(), k, gb.get(k)), &input);
        }
        ctx.obs_n("corpus.names.bucket", eb.len() as u64);
        if eb.iter().any(|b| b.len() > 1) {
            ctx.obs("corpus.names.chain");
        }
        if eb.iter().any(|b| b.is_empty()) {
            ctx.obs("corpus.names.bucket.empty");
        }
        if en.len() != gn.len() {
            ctx.check_eq("corpus.names.name_count", &en.len(), &gn.len(), &input);
        }
        for (k, n) in &en {
            ctx.obs("corpus.names.name");
            ctx.obs_n("corpus.names.entry", n.entries.len() as u64);
            if n.entries.len() > 1 {
                ctx.obs("corpus.names.multi_entry");
            }
            if n.entries.iter().any(|e| e.attrs.iter().any(|a| a.0 == "DW_IDX_compile_unit")) {
                ctx.obs("corpus.names.idx_compile_unit");
            }
            match gn.get(k) {
                Some(g) if g == n => {}
                g => {
                    ctx.check_eq("corpus.names.name", &(k, Some(n)), &(k, g), &input);
                }
            }
        }
    }
    ctx.nontrivial_bytes("names", sec);
    ctx.sample("corpus.names", || json!({"config": label, "indexes": got.len(), "first_index_header": format!("{:?}", got.first())}));
}

// ================================================================ .debug_aranges

#[derive(Clone, Debug, PartialEq, Eq)]
struct ASet {
    length: u64,
    fmt64: bool,
    version: u64,
    cu_offset: u64,
    addr_size: u64,
    tuples: Vec<(u64, u64)>,
}

fn parse_aranges(text: &str) -> Vec<ASet> {
    let mut out: Vec<ASet> = vec![];
    for line in text.lines() {
        if let Some(r) = line.strip_prefix("Address Range Header: ") {
            out.push(ASet {
                length: cb::hex_after(r, "length = ").unwrap_or(u64::MAX),
                fmt64: r.contains("format = DWARF64"),
                version: cb::hex_after(r, "version = ").unwrap_or(u64::MAX),
                cu_offset: cb::hex_after(r, "cu_offset = ").unwrap_or(u64::MAX),
                addr_size: cb::hex_after(r, "addr_size = ").unwrap_or(u64::MAX),
                tuples: vec![],
            });
        } else if let Some((b, e, _)) = cb::bracket_range(line) {
            if let Some(s) = out.last_mut() {
                s.tuples.push((b, e));
            }
        }
    }
    out
}

fn gimli_aranges(sec: &[u8]) -> Result<Vec<ASet>, String> {
    let da = gimli::DebugAranges::new(sec, LE);
    let mut out = vec![];
    let mut hs = da.headers();
    while let Some(h) = hs.next().map_err(|e| format!("headers: {e:?}"))? {
        let enc = h.encoding();
        let mut tuples = vec![];
        let mut it = h.entries();
        while let Some(e) = it.next().map_err(|e| format!("entries of set 0x{:x}: {e:?}", h.offset().0))? {
            let r = e.range();
            if r.begin != e.address() || r.end != e.address().wrapping_add(e.length()) {
                return Err(format!("ArangeEntry::range {:x?} is not address {:x} + length {:x}", r, e.address(), e.length()));
            }
            tuples.push((r.begin, r.end));
            if tuples.len() > 1_000_000 {
                return Err("runaway".into());
            }
        }
        out.push(ASet { length: h.length() as u64, fmt64: enc.format == gimli::Format::Dwarf64, version: enc.version as u64, cu_offset: h.debug_info_offset().0 as u64, addr_size: enc.address_size as u64, tuples });
    }
    Ok(out)
}

fn check_aranges(ctx: &mut Ctx, b: &Built, obj: &cb::Obj, label: &str) {
    let sec = obj.sec(".debug_aranges");
    if sec.is_empty() {
        return;
    }
    let text = match b.dump(&["--debug-aranges"], "prog") {
        Ok(t) => t,
        Err(e) => return ctx.inconclusive(&format!("corpus: {label}: {e}")),
    };
    let expect = parse_aranges(&text);
    if expect.is_empty() {
        return ctx.inconclusive(&format!("corpus: {label}: llvm-dwarfdump printed no address range set"));
    }
    let dir = b.dir.display().to_string();
    let input = || json!({"corpus": label, "build_dir": dir, "oracle": "llvm-dwarfdump --debug-aranges prog"});
    ctx.eval();
    let Some(got) = ctx.guard("corpus.aranges", &input, || gimli_aranges(sec)) else { return };
    let got = match got {
        Ok(g) => g,
        Err(e) => return ctx.fail("corpus.aranges.err", &format!("{label}: gimli rejected the compiler's .debug_aranges: {e}"), &input),
    };
    if expect.len() != got.len() {
        ctx.check_eq("corpus.aranges.set_count", &expect.len(), &got.len(), &input);
        return;
    }
    for (e, g) in expect.iter().zip(got.iter()) {
        ctx.obs("corpus.aranges.set");
        ctx.obs_n("corpus.aranges.tuple", e.tuples.len() as u64);
        if e.fmt64 {
            ctx.obs("corpus.aranges.dwarf64");
        }
        ctx.check_eq("corpus.aranges.set", e, g, &input);
    }
    ctx.nontrivial_bytes("aranges", sec);
}

// ================================================================ .debug_pubnames / .debug_pubtypes

type Pub = Vec<(u64, u64, Vec<u8>)>;

fn parse_pub(text: &str, section: &str) -> Pub {
    let mut out = vec![];
    let mut on = false;
    let mut unit = 0u64;
    for line in text.lines() {
        if line.starts_with(".debug_") && line.ends_with("contents:") {
            on = line.starts_with(&format!("{section} contents:"));
            continue;
        }
        if !on {
            continue;
        }
        if line.starts_with("length = ") {
            unit = cb::hex_after(line, "unit_offset = ").unwrap_or(u64::MAX);
        } else if let (Some(off), Some(name)) = (cb::lead_hex(line), cb::quoted(line)) {
            out.push((unit, off, name));
        }
    }
    out
}

fn check_pub(ctx: &mut Ctx, b: &Built, obj: &cb::Obj, label: &str) {
    let pn = obj.sec(".debug_pubnames");
    let pt = obj.sec(".debug_pubtypes");
    if pn.is_empty() && pt.is_empty() {
        return;
    }
    let text = match b.dump(&["--debug-pubnames", "--debug-pubtypes"], "prog") {
        Ok(t) => t,
        Err(e) => return ctx.inconclusive(&format!("corpus: {label}: {e}")),
    };
    let dir = b.dir.display().to_string();
    let input = || json!({"corpus": label, "build_dir": dir, "oracle": "llvm-dwarfdump --debug-pubnames --debug-pubtypes prog"});
    for (sec, bytes, types) in [(".debug_pubnames", pn, false), (".debug_pubtypes", pt, true)] {
        if bytes.is_empty() {
            continue;
        }
        let expect = parse_pub(&text, sec);
        if expect.is_empty() {
            ctx.inconclusive(&format!("corpus: {label}: llvm-dwarfdump printed no {sec} entries"));
            continue;
        }
        ctx.eval();
        let got = ctx.guard("corpus.pub", &input, || -> Result<Pub, String> {
            let mut v = vec![];
            if types {
                let mut it = gimli::DebugPubTypes::new(bytes, LE).items();
                while let Some(e) = it.next().map_err(|e| format!("{e:?}"))? {
                    v.push((e.unit_header_offset().0 as u64, e.die_offset().0 as u64, e.name().slice().to_vec()));
                    if v.len() > 1_000_000 {
                        return Err("runaway".into());
                    }
                }
            } else {
                let mut it = gimli::DebugPubNames::new(bytes, LE).items();
                while let Some(e) = it.next().map_err(|e| format!("{e:?}"))? {
                    v.push((e.unit_header_offset().0 as u64, e.die_offset().0 as u64, e.name().slice().to_vec()));
                    if v.len() > 1_000_000 {
                        return Err("runaway".into());
                    }
                }
            }
            Ok(v)
        });
        let Some(got) = got else { continue };
        let got = match got {
            Ok(g) => g,
            Err(e) => {
                ctx.fail("corpus.pub.err", &format!("{label}: gimli rejected the compiler's {sec}: {e}"), &input);
                continue;
            }
        };
        let key = if types { "corpus.pubtypes" } else { "corpus.pubnames" };
        ctx.obs_n(&format!("{key}.entry"), expect.len() as u64);
        if expect != got {
            let k = expect.iter().zip(got.iter()).position(|(a, b)| a != b).unwrap_or(expect.len().min(got.len()));
            let show = |p: Option<&(u64, u64, Vec<u8>)>| p.map(|p| (p.0, p.1, String::from_utf8_lossy(&p.2).to_string()));
            ctx.check_eq(key, &(expect.len(), k, show(expect.get(k))), &(got.len(), k, show(got.get(k))), &input);
        }
        ctx.nontrivial_bytes(sec, bytes);
    }
}

// ================================================================ packages

#[derive(Clone, Debug, Default, PartialEq, Eq)]
struct UIndex {
    version: u64,
    units: u64,
    slots: u64,
    /// signature -> column name -> (begin, end)
    rows: BTreeMap<u64, BTreeMap<String, (u64, u64)>>,
}

fn parse_unit_index(text: &str, section: &str) -> Option<UIndex> {
    let mut on = false;
    let mut ix: Option<UIndex> = None;
    let mut cols: Vec<String> = vec![];
    for line in text.lines() {
        if line.starts_with(".debug_") && line.ends_with("contents:") {
            on = line.starts_with(&format!("{section} contents:"));
            continue;
        }
        if !on {
            continue;
        }
        if line.starts_with("version = ") {
            let dec = |k: &str| line.find(k).and_then(|i| line[i + k.len()..].split(|c: char| !c.is_ascii_digit()).next().and_then(|t| t.parse::<u64>().ok()));
            ix = Some(UIndex { version: dec("version = ")?, units: dec("units = ")?, slots: dec("slots = ")?, rows: BTreeMap::new() });
        } else if line.starts_with("Index Signature") {
            cols = line.split_whitespace().skip(2).map(|s| s.to_string()).collect();
        } else if let Some(ix) = ix.as_mut() {
            let mut p = line.split_whitespace();
            let (Some(slot), Some(sig)) = (p.next(), p.next()) else { continue };
            if slot.parse::<u64>().is_err() {
                continue;
            }
            let Some(sig) = cb::lead_hex(sig) else { continue };
            let rest = line[line.find(" [").unwrap_or(line.len())..].trim();
            let mut row = BTreeMap::new();
            let mut r = rest;
            for c in &cols {
                let Some((b, e, after)) = cb::bracket_range(r.trim_start()) else { break };
                row.insert(c.clone(), (b, e));
                r = after;
            }
            ix.rows.insert(sig, row);
        }
    }
    ix
}

fn col_name(id: gimli::IndexSectionId) -> &'static str {
    use gimli::IndexSectionId::*;
    match id {
        DebugAbbrev => "ABBREV",
        DebugInfo => "INFO",
        DebugLine => "LINE",
        DebugLoc => "LOC",
        DebugLocLists => "LOCLISTS",
        DebugMacinfo => "MACINFO",
        DebugMacro => "MACRO",
        DebugRngLists => "RNGLISTS",
        DebugStrOffsets => "STR_OFFSETS",
        DebugTypes => "TYPES",
    }
}

fn gimli_unit_index(index: &gimli::UnitIndex<Slice<'_>>, sigs: &[u64]) -> Result<UIndex, String> {
    let mut out = UIndex { version: index.version() as u64, units: index.unit_count() as u64, slots: index.slot_count() as u64, rows: BTreeMap::new() };
    for &sig in sigs {
        let Some(row) = index.find(sig) else { continue };
        let mut m = BTreeMap::new();
        for s in index.sections(row).map_err(|e| format!("sections({row}) of signature 0x{sig:x}: {e:?}"))? {
            m.insert(col_name(s.section).to_string(), (s.offset as u64, s.offset as u64 + s.size as u64));
        }
        out.rows.insert(sig, m);
    }
    Ok(out)
}

/// Entry-by-entry fingerprint of one unit: everything gimli reports, with strings and lists
/// resolved (so that the package's merged string table and re-based list sections compare
/// equal to the standalone object's).
fn fingerprint<'a>(dwarf: &gimli::Dwarf<Slice<'a>>, unit: &gimli::Unit<Slice<'a>>) -> Result<Vec<String>, String> {
    let mut out = vec![];
    let mut c = unit.entries();
    while c.next_entry().map_err(|e| format!("next_entry: {e:?}"))? {
        let Some(e) = c.current() else {
            out.push(format!("{:x} NULL", c.offset().0));
            continue;
        };
        let mut line = format!("{:x} d{} {}", e.offset().0, c.depth(), e.tag());
        for a in e.attrs() {
            let v = a.raw_value();
            let s = match &v {
                gimli::AttributeValue::DebugStrOffsetsIndex(_) | gimli::AttributeValue::DebugStrRef(_) | gimli::AttributeValue::String(_) => match dwarf.attr_string(unit, v.clone()) {
                    Ok(s) => format!("str {:?}", String::from_utf8_lossy(s.slice())),
                    Err(e) => format!("str Err({e:?})"),
                },
                gimli::AttributeValue::DebugAddrIndex(i) => format!("addrx {} -> {:x?}", i.0, dwarf.attr_address(unit, v.clone()).map_err(|e| format!("{e:?}"))),
                gimli::AttributeValue::Exprloc(x) => format!("expr {:02x?}", x.0.slice()),
                gimli::AttributeValue::Block(x) => format!("block {:02x?}", x.slice()),
                other => format!("{other:?}"),
            };
            line.push_str(&format!(" | {} {} {}", a.name(), a.form(), s));
            let val = a.value();
            if a.name() == gimli::DW_AT_ranges {
                match dwarf.attr_ranges(unit, val.clone()) {
                    Ok(Some(mut it)) => {
                        let mut n = 0;
                        loop {
                            match it.next() {
                                Ok(Some(r)) => line.push_str(&format!(" [{:x},{:x})", r.begin, r.end)),
                                Ok(None) => break,
                                Err(e) => {
                                    line.push_str(&format!(" Err({e:?})"));
                                    break;
                                }
                            }
                            n += 1;
                            if n > 100_000 {
                                break;
                            }
                        }
                    }
                    Ok(None) => {}
                    Err(e) => line.push_str(&format!(" ranges Err({e:?})")),
                }
            }
            match dwarf.attr_locations(unit, val) {
                Ok(Some(mut it)) => {
                    let mut n = 0;
                    loop {
                        match it.next() {
                            Ok(Some(l)) => line.push_str(&format!(" [{:x},{:x}):{:02x?}", l.range.begin, l.range.end, l.data.0.slice())),
                            Ok(None) => break,
                            Err(e) => {
                                line.push_str(&format!(" Err({e:?})"));
                                break;
                            }
                        }
                        n += 1;
                        if n > 100_000 {
                            break;
                        }
                    }
                }
                Ok(None) => {}
                Err(e) => line.push_str(&format!(" locs Err({e:?})")),
            }
        }
        out.push(line);
    }
    Ok(out)
}

/// (entry count without nulls, root name, fingerprint) of the first unit of `dwarf` whose
/// header matches `want_sig` (type units) or of the first compile unit.
fn unit_facts<'a>(dwarf: &gimli::Dwarf<Slice<'a>>, parent: &gimli::Dwarf<Slice<'a>>, want_sig: Option<u64>) -> Result<(usize, Option<Vec<u8>>, Vec<String>), String> {
    for h in cb::headers(dwarf)? {
        let sig = match h.type_() {
            gimli::UnitType::Type { type_signature, .. } | gimli::UnitType::SplitType { type_signature, .. } => Some(type_signature.0),
            _ => None,
        };
        if sig != want_sig {
            continue;
        }
        let mut unit = dwarf.unit(h).map_err(|e| format!("Dwarf::unit: {e:?}"))?;
        if let Some(id) = unit.dwo_id {
            if let Some(sk) = cb::skeleton_for(parent, id.0) {
                unit.copy_relocated_attributes(&sk);
            }
        }
        let fp = fingerprint(dwarf, &unit)?;
        let count = fp.iter().filter(|l| !l.ends_with(" NULL")).count();
        let mut c = unit.entries();
        let mut name = None;
        if c.next_entry().map_err(|e| format!("{e:?}"))? {
            if let Some(root) = c.current() {
                if let Some(a) = root.attr(gimli::DW_AT_name) {
                    name = Some(dwarf.attr_string(&unit, a.value()).map_err(|e| format!("root name: {e:?}"))?.slice().to_vec());
                }
            }
        }
        return Ok((count, name, fp));
    }
    Err(format!("no unit with type signature {want_sig:x?}"))
}

fn check_package(ctx: &mut Ctx, b: &Built, pkg_file: &str, prog: &cb::Obj) {
    let label = format!("{} :: {}", b.cfg.label(), pkg_file);
    macro_rules! tool {
        ($e:expr) => {
            match $e {
                Ok(x) => x,
                Err(e) => return ctx.inconclusive(&format!("corpus: {label}: {e}")),
            }
        };
    }
    let pobj = tool!(b.load(pkg_file));
    let text = tool!(b.dump(&["--debug-cu-index", "--debug-tu-index"], pkg_file));
    let dir = b.dir.display().to_string();
    let input = || json!({"corpus": label, "build_dir": dir, "oracle": "llvm-dwarfdump --debug-cu-index --debug-tu-index (package), -v --debug-info (standalone .dwo)"});
    let Some(pkg) = ctx.guard("corpus.pkg.load", &input, || pobj.package()) else { return };
    let pkg = match pkg {
        Ok(p) => p,
        Err(e) => return ctx.fail("corpus.pkg.err", &format!("{label}: DwarfPackage::load rejected the packager's output: {e:?}"), &input),
    };
    ctx.obs("corpus.pkg");
    ctx.obs(&format!("corpus.pkg.{}", pkg_file.trim_end_matches(".dwp")));
    // ---- index rows
    for (sec, is_tu) in [(".debug_cu_index", false), (".debug_tu_index", true)] {
        if pobj.sec(sec).is_empty() {
            continue;
        }
        let Some(expect) = parse_unit_index(&text, sec) else {
            // binutils dwp writes an empty .debug_tu_index (header only) that llvm-dwarfdump
            // does not print: gimli must see no units in it
            let index = if is_tu { &pkg.tu_index } else { &pkg.cu_index };
            if index.unit_count() == 0 {
                ctx.obs("corpus.pkg.index.empty");
            } else {
                ctx.inconclusive(&format!("corpus: {label}: llvm-dwarfdump printed no {sec}"));
            }
            continue;
        };
        ctx.eval();
        let sigs: Vec<u64> = expect.rows.keys().copied().collect();
        let index = if is_tu { &pkg.tu_index } else { &pkg.cu_index };
        let Some(got) = ctx.guard("corpus.pkg.index", &input, || gimli_unit_index(index, &sigs)) else { continue };
        let got = match got {
            Ok(g) => g,
            Err(e) => {
                ctx.fail("corpus.pkg.index.err", &format!("{label}: {sec}: {e}"), &input);
                continue;
            }
        };
        ctx.obs(if is_tu { "corpus.pkg.tu_index" } else { "corpus.pkg.cu_index" });
        ctx.obs(&format!("corpus.pkg.index.v{}", expect.version));
        ctx.obs_n("corpus.pkg.index.row", expect.rows.len() as u64);
        ctx.check_eq(if is_tu { "corpus.pkg.tu_index" } else { "corpus.pkg.cu_index" }, &expect, &got, &input);
        // absent signatures (never 0: the empty-slot marker)
        for &s in &sigs {
            for probe in [s ^ 1, s.wrapping_add(1 << 32), !s] {
                if probe != 0 && !expect.rows.contains_key(&probe) {
                    ctx.obs("corpus.pkg.index.absent");
                    if let Some(Some(row)) = ctx.guard("corpus.pkg.index.find", &input, || index.find(probe)) {
                        ctx.fail("corpus.pkg.index.absent", &format!("{label}: {sec}: find(0x{probe:x}) = row {row} for a signature llvm-dwarfdump does not list"), &input);
                    }
                }
            }
        }
    }
    // ---- every unit of every standalone .dwo, fetched from the package
    let parent = prog.dwarf();
    for dwo in b.dwos() {
        let units = tool!(cb::info_dump(b, dwo));
        let dobj = tool!(b.load(dwo));
        for u in &units {
            let sig = u.type_signature;
            let id = if sig.is_some() { None } else { u.any_dwo_id() };
            if sig.is_none() && id.is_none() {
                ctx.obs("corpus.unjudged.pkg_unit_without_id");
                continue;
            }
            if id == Some(0) || sig == Some(0) {
                continue;
            }
            let e_count = u.dies.iter().filter(|d| d.tag != "NULL").count();
            let e_name = u.root().and_then(|r| r.attr("DW_AT_name")).and_then(|a| cb::quoted(&a.text));
            ctx.eval();
            let what = if let Some(s) = sig { format!("{dwo}: type unit 0x{s:x}") } else { format!("{dwo}: compile unit with DWO id 0x{:x}", id.unwrap_or(0)) };
            let got = ctx.guard("corpus.pkg.find", &input, || -> Result<_, String> {
                let found = match (sig, id) {
                    (Some(s), _) => pkg.find_tu(gimli::DebugTypeSignature(s), &parent),
                    (None, Some(i)) => pkg.find_cu(gimli::DwoId(i), &parent),
                    _ => unreachable!(),
                }
                .map_err(|e| format!("find: {e:?}"))?;
                let Some(found) = found else { return Ok(None) };
                let standalone = dobj.dwarf_dwo(&parent);
                Ok(Some((unit_facts(&found, &parent, sig)?, unit_facts(&standalone, &parent, sig)?)))
            });
            let Some(got) = got else { continue };
            match got {
                Err(e) => ctx.fail("corpus.pkg.unit.err", &format!("{label}: {what}: {e}"), &input),
                Ok(None) => ctx.fail("corpus.pkg.find.missing", &format!("{label}: {what}: not found in the package"), &input),
                Ok(Some((p, s))) => {
                    ctx.obs(if sig.is_some() { "corpus.pkg.find_tu" } else { "corpus.pkg.find_cu" });
                    ctx.check_eq("corpus.pkg.unit.entry_count", &e_count, &p.0, &input);
                    if sig.is_none() {
                        ctx.check_eq("corpus.pkg.unit.root_name", &e_name.as_ref().map(|n| String::from_utf8_lossy(n).to_string()), &p.1.as_ref().map(|n| String::from_utf8_lossy(n).to_string()), &input);
                    }
                    if p.2 != s.2 {
                        let k = p.2.iter().zip(s.2.iter()).position(|(a, b)| a != b).unwrap_or(p.2.len().min(s.2.len()));
                        ctx.check_eq("corpus.pkg.unit.fingerprint", &(s.2.len(), s.2.get(k)), &(p.2.len(), p.2.get(k)), &input);
                    } else {
                        ctx.obs("corpus.pkg.unit.equal");
                        ctx.obs_n("corpus.pkg.unit.entries", p.0 as u64);
                    }
                }
            }
        }
    }
    ctx.nontrivial(pobj.digest());
    ctx.sample("corpus.pkg", || json!({"config": label, "cu_index": format!("{:?}", parse_unit_index(&text, ".debug_cu_index"))}));
}

pub fn run(ctx: &mut Ctx) {
    if ctx.slow() {
        return;
    }
    let cfgs = configs(ctx.quick());
    for (i, cfg) in cfgs.iter().enumerate() {
        if !ctx.want("corpus", i as u64) {
            continue;
        }
        let b = match cb::build(ctx, cfg) {
            Ok(b) => b,
            Err(e) => {
                ctx.inconclusive(&format!("corpus: {e}"));
                continue;
            }
        };
        let label = format!("{} :: prog", cfg.label());
        let obj = match b.load("prog") {
            Ok(o) => o,
            Err(e) => {
                ctx.inconclusive(&format!("corpus: {label}: {e}"));
                continue;
            }
        };
        ctx.obs("corpus.object");
        check_names(ctx, &b, &obj, &label);
        check_aranges(ctx, &b, &obj, &label);
        check_pub(ctx, &b, &obj, &label);
        for p in b.packages() {
            check_package(ctx, &b, p, &obj);
        }
        if cfg.split && b.packages().is_empty() {
            ctx.inconclusive(&format!("corpus: {}: no packager produced a .dwp ({})", cfg.label(), std::fs::read_to_string(b.path("notes")).unwrap_or_default().trim()));
        }
    }
}

//! C06 corpus complement: for every FDE of `.eh_frame` / `.debug_frame` of every
//! compiler-built executable (see mon/corpus.rs) the unwind rows gimli produces are
//! compared with the table printed by `readelf --debug-dump=frames-interp` (`-wF`): row
//! start addresses, the CFA rule (register+offset or "expression"), and the rule of every
//! register that readelf has a column for or that gimli mentions.  Row ends must chain
//! (row[i].end == row[i+1].start) and the last row must end at the FDE's end address.
//! As a second, purely syntactic comparison the decoded instruction list of every CIE and
//! FDE (`instructions()`) is compared with the instruction list printed by
//! `llvm-dwarfdump --eh-frame` (mnemonic class, registers, offsets after applying the
//! alignment factors).  The external tools are the oracle; every tool failure is
//! `inconclusive`.

use crate::mon::corpus::{self, parse_hex, reg_number, LEntry, Obj};
use crate::rt::Ctx;
use gimli::{BaseAddresses, CieOrFde, EndianSlice, RunTimeEndian, UnwindSection};
use serde_json::json;
use std::collections::BTreeMap;

type Rd<'a> = EndianSlice<'a, RunTimeEndian>;

#[derive(Debug, Clone, PartialEq, Eq)]
enum Cfa {
    RegOff(u16, i64),
    Exp,
}

#[derive(Debug, Clone, PartialEq, Eq)]
enum Rule {
    /// undefined, or never mentioned (readelf: "u" or no column; gimli: None or Some(Undefined))
    U,
    S,
    C(i64),
    V(i64),
    Reg(u16),
    Exp,
    Vexp,
    Other(String),
}

#[derive(Debug, Clone, PartialEq, Eq)]
struct Row {
    start: u64,
    cfa: Cfa,
    /// only non-`U` rules
    rules: BTreeMap<u16, Rule>,
}

#[derive(Debug, Clone, Default)]
struct RTable {
    cols: Vec<u16>,
    rows: Vec<Row>,
}

#[derive(Debug, Clone)]
enum REntry {
    Cie { offset: u64, table: RTable },
    Fde { offset: u64, cie: u64, pc_begin: u64, pc_end: u64, table: RTable },
}

#[derive(Debug, Clone, Default)]
struct RFrames {
    eh_frame: Vec<REntry>,
    debug_frame: Vec<REntry>,
}

fn parse_cfa(s: &str, is64: bool) -> Result<Cfa, String> {
    if s == "exp" {
        return Ok(Cfa::Exp);
    }
    let k = s.rfind(['+', '-']).ok_or_else(|| format!("CFA cell {s}"))?;
    let reg = reg_number(&s[..k], is64).ok_or_else(|| format!("CFA register {s}"))?;
    let off: i64 = s[k..].trim_start_matches('+').parse().map_err(|_| format!("CFA offset {s}"))?;
    Ok(Cfa::RegOff(reg, off))
}

fn parse_rule(s: &str, is64: bool) -> Result<Rule, String> {
    Ok(match s {
        "u" => Rule::U,
        "s" => Rule::S,
        "exp" => Rule::Exp,
        "vexp" => Rule::Vexp,
        _ => {
            if let Some(n) = s.strip_prefix('c').and_then(|n| n.trim_start_matches('+').parse::<i64>().ok()) {
                Rule::C(n)
            } else if let Some(n) = s.strip_prefix('v').and_then(|n| n.trim_start_matches('+').parse::<i64>().ok()) {
                Rule::V(n)
            } else {
                // DW_CFA_register: "rN (name)" (already merged into one token "rN") or a name
                Rule::Reg(reg_number(s, is64).ok_or_else(|| format!("rule cell {s}"))?)
            }
        }
    })
}

/// Parse `readelf --debug-dump=frames-interp` (binutils 2.40 layout).
fn parse_readelf(text: &str, is64: bool) -> Result<RFrames, String> {
    let mut out = RFrames::default();
    let mut cur: Option<&mut Vec<REntry>> = None;
    let mut ra: u16 = 0;
    let mut cie_ra: BTreeMap<u64, u16> = BTreeMap::new();
    for line in text.lines() {
        if let Some(rest) = line.strip_prefix("Contents of the ") {
            cur = if rest.starts_with(".eh_frame section") {
                Some(&mut out.eh_frame)
            } else if rest.starts_with(".debug_frame section") {
                Some(&mut out.debug_frame)
            } else {
                None
            };
            cie_ra.clear();
            continue;
        }
        let Some(list) = cur.as_deref_mut() else { continue };
        let t = line.trim_end();
        if t.trim().is_empty() {
            continue;
        }
        let toks: Vec<&str> = t.split_whitespace().collect();
        if toks.len() >= 2 && toks[1] == "ZERO" {
            continue;
        }
        if toks.len() >= 4 && toks[3] == "CIE" {
            let offset = parse_hex(toks[0]).ok_or_else(|| format!("CIE offset: {line}"))?;
            let r = toks.iter().find_map(|x| x.strip_prefix("ra=")).and_then(|x| x.parse::<u16>().ok()).ok_or_else(|| format!("CIE ra: {line}"))?;
            cie_ra.insert(offset, r);
            ra = r;
            list.push(REntry::Cie { offset, table: RTable::default() });
            continue;
        }
        if toks.len() >= 6 && toks[3] == "FDE" {
            let offset = parse_hex(toks[0]).ok_or_else(|| format!("FDE offset: {line}"))?;
            let cie = toks[4].strip_prefix("cie=").and_then(parse_hex).ok_or_else(|| format!("FDE cie: {line}"))?;
            let pc = toks[5].strip_prefix("pc=").ok_or_else(|| format!("FDE pc: {line}"))?;
            let (a, b) = pc.split_once("..").ok_or_else(|| format!("FDE pc range: {line}"))?;
            ra = *cie_ra.get(&cie).ok_or_else(|| format!("FDE of an unknown CIE: {line}"))?;
            list.push(REntry::Fde { offset, cie, pc_begin: parse_hex(a).ok_or_else(|| format!("pc begin: {line}"))?, pc_end: parse_hex(b).ok_or_else(|| format!("pc end: {line}"))?, table: RTable::default() });
            continue;
        }
        let Some(last) = list.last_mut() else { return Err(format!("text before the first entry: {line}")) };
        let table = match last {
            REntry::Cie { table, .. } => table,
            REntry::Fde { table, .. } => table,
        };
        if toks[0] == "LOC" {
            if toks.get(1) != Some(&"CFA") {
                return Err(format!("column header: {line}"));
            }
            // a new header inside one entry (readelf re-prints it when the column set grows)
            let mut cols = vec![];
            for c in &toks[2..] {
                if *c == "ra" {
                    cols.push(ra);
                } else {
                    cols.push(reg_number(c, is64).ok_or_else(|| format!("column {c}: {line}"))?);
                }
            }
            if !table.rows.is_empty() && cols != table.cols {
                return Err(format!("column set changes inside an entry: {line}"));
            }
            table.cols = cols;
            continue;
        }
        // a row: LOC CFA cells...   ("rN (name)" cells are two tokens)
        let mut cells: Vec<String> = vec![];
        for tk in &toks {
            if tk.starts_with('(') && tk.ends_with(')') && !cells.is_empty() {
                continue; // the "(name)" part of "rN (name)"
            }
            cells.push(tk.to_string());
        }
        if cells.len() != table.cols.len() + 2 {
            return Err(format!("row with {} cells for {} columns: {line}", cells.len(), table.cols.len()));
        }
        let start = parse_hex(&cells[0]).ok_or_else(|| format!("row LOC: {line}"))?;
        let cfa = parse_cfa(&cells[1], is64).map_err(|e| format!("{e}: {line}"))?;
        let mut rules = BTreeMap::new();
        for (k, c) in cells[2..].iter().enumerate() {
            let r = parse_rule(c, is64).map_err(|e| format!("{e}: {line}"))?;
            if r != Rule::U {
                rules.insert(table.cols[k], r);
            }
        }
        table.rows.push(Row { start, cfa, rules });
    }
    Ok(out)
}

// ---------------------------------------------------------------- instruction lists

type Ins = (String, Vec<i128>);

fn llvm_ins(text: &str, is64: bool) -> Result<Ins, String> {
    let (name, rest) = text.split_once(':').ok_or_else(|| format!("instruction {text}"))?;
    let name = name.strip_prefix("DW_CFA_").ok_or_else(|| format!("instruction {text}"))?;
    let class = match name {
        "advance_loc1" | "advance_loc2" | "advance_loc4" => "advance_loc",
        "offset_extended" => "offset",
        "restore_extended" => "restore",
        n => n,
    };
    let toks: Vec<&str> = rest.split_whitespace().collect();
    let reg = |k: usize| -> Result<i128, String> { toks.get(k).and_then(|t| reg_number(t, is64)).map(|r| r as i128).ok_or_else(|| format!("register operand {k} of {text}")) };
    let num = |k: usize| -> Result<i128, String> { toks.get(k).and_then(|t| t.trim_start_matches('+').parse::<i128>().ok()).ok_or_else(|| format!("numeric operand {k} of {text}")) };
    let ops = match class {
        "nop" | "remember_state" | "restore_state" | "def_cfa_expression" | "AARCH64_negate_ra_state" | "GNU_window_save" => vec![],
        "advance_loc" | "def_cfa_offset" | "def_cfa_offset_sf" | "GNU_args_size" => vec![num(0)?],
        "set_loc" => vec![toks.first().and_then(|t| parse_hex(t)).map(|v| v as i128).ok_or_else(|| format!("set_loc operand of {text}"))?],
        "def_cfa" | "def_cfa_sf" | "offset" | "offset_extended_sf" | "val_offset" | "val_offset_sf" => vec![reg(0)?, num(1)?],
        "def_cfa_register" | "undefined" | "same_value" | "restore" | "expression" | "val_expression" => vec![reg(0)?],
        "register" => vec![reg(0)?, reg(1)?],
        other => return Err(format!("unknown instruction DW_CFA_{other}")),
    };
    Ok((class.to_string(), ops))
}

fn gimli_ins(i: &gimli::CallFrameInstruction<usize>, ca: u64, da: i64) -> Ins {
    use gimli::CallFrameInstruction as I;
    let ca = ca as i128;
    let da = da as i128;
    let r = |r: &gimli::Register| r.0 as i128;
    let (n, v): (&str, Vec<i128>) = match i {
        I::SetLoc { address } => ("set_loc", vec![*address as i128]),
        I::AdvanceLoc { delta } => ("advance_loc", vec![*delta as i128 * ca]),
        I::DefCfa { register, offset } => ("def_cfa", vec![r(register), *offset as i128]),
        I::DefCfaSf { register, factored_offset } => ("def_cfa_sf", vec![r(register), *factored_offset as i128 * da]),
        I::DefCfaRegister { register } => ("def_cfa_register", vec![r(register)]),
        I::DefCfaOffset { offset } => ("def_cfa_offset", vec![*offset as i128]),
        I::DefCfaOffsetSf { factored_offset } => ("def_cfa_offset_sf", vec![*factored_offset as i128 * da]),
        I::DefCfaExpression { .. } => ("def_cfa_expression", vec![]),
        I::Undefined { register } => ("undefined", vec![r(register)]),
        I::SameValue { register } => ("same_value", vec![r(register)]),
        I::Offset { register, factored_offset } => ("offset", vec![r(register), *factored_offset as i128 * da]),
        I::OffsetExtendedSf { register, factored_offset } => ("offset_extended_sf", vec![r(register), *factored_offset as i128 * da]),
        I::ValOffset { register, factored_offset } => ("val_offset", vec![r(register), *factored_offset as i128 * da]),
        I::ValOffsetSf { register, factored_offset } => ("val_offset_sf", vec![r(register), *factored_offset as i128 * da]),
        I::Register { dest_register, src_register } => ("register", vec![r(dest_register), r(src_register)]),
        I::Expression { register, .. } => ("expression", vec![r(register)]),
        I::ValExpression { register, .. } => ("val_expression", vec![r(register)]),
        I::Restore { register } => ("restore", vec![r(register)]),
        I::RememberState => ("remember_state", vec![]),
        I::RestoreState => ("restore_state", vec![]),
        I::ArgsSize { size } => ("GNU_args_size", vec![*size as i128]),
        I::NegateRaState => ("AARCH64_negate_ra_state", vec![]),
        I::Nop => ("nop", vec![]),
        _ => ("unknown", vec![]),
    };
    (n.to_string(), v)
}

// ---------------------------------------------------------------- gimli side

#[derive(Debug, Clone)]
struct GRow {
    start: u64,
    end: u64,
    cfa: Cfa,
    /// non-U rules from registers()
    listed: BTreeMap<u16, Rule>,
    /// register(r) for every probed register number (0..=max column), as a Rule
    probed: BTreeMap<u16, Rule>,
}

#[derive(Debug, Clone)]
struct GFde {
    offset: u64,
    pc_begin: u64,
    pc_end: u64,
    rows: Result<Vec<GRow>, String>,
    ins: Result<Vec<Ins>, String>,
}

#[derive(Debug, Clone)]
struct GCie {
    offset: u64,
    ins: Result<Vec<Ins>, String>,
}

#[derive(Debug, Clone, Default)]
struct Got {
    cies: Vec<GCie>,
    fdes: Vec<GFde>,
}

fn rule_of(r: &gimli::RegisterRule<usize>) -> Rule {
    use gimli::RegisterRule as R;
    match r {
        R::Undefined => Rule::U,
        R::SameValue => Rule::S,
        R::Offset(n) => Rule::C(*n),
        R::ValOffset(n) => Rule::V(*n),
        R::Register(r) => Rule::Reg(r.0),
        R::Expression(_) => Rule::Exp,
        R::ValExpression(_) => Rule::Vexp,
        other => Rule::Other(format!("{other:?}")),
    }
}

fn walk<'a, S>(sec: &S, bases: &BaseAddresses, probe_max: u16) -> Result<Got, String>
where
    S: UnwindSection<Rd<'a>>,
{
    let mut got = Got::default();
    let mut uctx = gimli::UnwindContext::new();
    let mut it = sec.entries(bases);
    let mut n = 0;
    loop {
        n += 1;
        if n > 1_000_000 {
            return Err("too many entries".into());
        }
        match it.next() {
            Ok(None) => break,
            Err(e) => return Err(format!("entries().next(): {e:?}")),
            Ok(Some(CieOrFde::Cie(c))) => {
                let (ca, da) = (c.code_alignment_factor(), c.data_alignment_factor());
                let mut ins: Result<Vec<Ins>, String> = Ok(vec![]);
                let mut ii = c.instructions(sec, bases);
                loop {
                    match ii.next() {
                        Ok(Some(i)) => {
                            if let Ok(v) = &mut ins {
                                v.push(gimli_ins(&i, ca, da));
                            }
                        }
                        Ok(None) => break,
                        Err(e) => {
                            ins = Err(format!("{e:?}"));
                            break;
                        }
                    }
                }
                got.cies.push(GCie { offset: c.offset() as u64, ins });
            }
            Ok(Some(CieOrFde::Fde(p))) => {
                let off = p.offset();
                let f = p.parse(|s, b, o| s.cie_from_offset(b, o)).map_err(|e| format!("FDE at {off:#x}: {e:?}"))?;
                let (ca, da) = (f.cie().code_alignment_factor(), f.cie().data_alignment_factor());
                let mut ins: Result<Vec<Ins>, String> = Ok(vec![]);
                let mut ii = f.instructions(sec, bases);
                loop {
                    match ii.next() {
                        Ok(Some(i)) => {
                            if let Ok(v) = &mut ins {
                                v.push(gimli_ins(&i, ca, da));
                            }
                        }
                        Ok(None) => break,
                        Err(e) => {
                            ins = Err(format!("{e:?}"));
                            break;
                        }
                    }
                }
                let rows = (|| -> Result<Vec<GRow>, String> {
                    let mut out = vec![];
                    let mut t = f.rows(sec, bases, &mut uctx).map_err(|e| format!("rows(): {e:?}"))?;
                    loop {
                        match t.next_row() {
                            Ok(Some(r)) => {
                                let cfa = match r.cfa() {
                                    gimli::CfaRule::RegisterAndOffset { register, offset } => Cfa::RegOff(register.0, *offset),
                                    gimli::CfaRule::Expression(_) => Cfa::Exp,
                                };
                                let mut listed = BTreeMap::new();
                                for (reg, rule) in r.registers() {
                                    let ru = rule_of(rule);
                                    if ru != Rule::U {
                                        listed.insert(reg.0, ru);
                                    }
                                }
                                let mut probed = BTreeMap::new();
                                for k in 0..=probe_max {
                                    let ru = r.register(gimli::Register(k)).map(|x| rule_of(&x)).unwrap_or(Rule::U);
                                    if ru != Rule::U {
                                        probed.insert(k, ru);
                                    }
                                }
                                out.push(GRow { start: r.start_address(), end: r.end_address(), cfa, listed, probed });
                            }
                            Ok(None) => break,
                            Err(e) => return Err(format!("next_row: {e:?}")),
                        }
                        if out.len() > 1_000_000 {
                            return Err("too many rows".into());
                        }
                    }
                    Ok(out)
                })();
                got.fdes.push(GFde { offset: f.offset() as u64, pc_begin: f.initial_address(), pc_end: f.end_address(), rows, ins });
            }
        }
    }
    Ok(got)
}

fn check_section(ctx: &mut Ctx, label: &str, obj: &Obj, kind: &str, rlist: &[REntry], llist: &[LEntry]) {
    let is_eh = kind == "eh_frame";
    let name = if is_eh { ".eh_frame" } else { ".debug_frame" };
    let data = obj.data(name);
    let input = || json!({"corpus": label, "section": name, "len": data.len()});
    let bases = BaseAddresses::default().set_eh_frame(obj.addr(".eh_frame")).set_eh_frame_hdr(obj.addr(".eh_frame_hdr")).set_text(obj.addr(".text")).set_got(obj.addr(".got"));
    let mut probe_max: u16 = if obj.is64 { 32 } else { 16 };
    for e in rlist {
        let t = match e {
            REntry::Cie { table, .. } => table,
            REntry::Fde { table, .. } => table,
        };
        for c in &t.cols {
            probe_max = probe_max.max(*c);
        }
    }
    ctx.eval();
    let r = ctx.guard(&format!("corpus.unwind.{kind}"), &input, || {
        if is_eh {
            let mut eh = gimli::EhFrame::new(data, obj.endian());
            eh.set_address_size(obj.address_size());
            walk(&eh, &bases, probe_max)
        } else {
            let mut df = gimli::DebugFrame::new(data, obj.endian());
            df.set_address_size(obj.address_size());
            walk(&df, &bases, probe_max)
        }
    });
    let Some(r) = r else { return };
    let got = match r {
        Ok(g) => g,
        Err(e) => {
            ctx.fail(&format!("corpus.unwind.{kind}.err"), &format!("{label}: gimli failed on a compiler-built {name}: {e}"), &input);
            return;
        }
    };
    ctx.obs(&format!("corpus.unwind.{kind}"));
    if !obj.is64 {
        ctx.obs("corpus.unwind.addr4");
    }

    // ---- rows against readelf -wF
    let mut cie_tables: BTreeMap<u64, &RTable> = BTreeMap::new();
    for e in rlist {
        if let REntry::Cie { offset, table } = e {
            cie_tables.insert(*offset, table);
        }
    }
    let rfdes: Vec<&REntry> = rlist.iter().filter(|e| matches!(e, REntry::Fde { .. })).collect();
    let want_offsets: Vec<u64> = rfdes
        .iter()
        .map(|e| match e {
            REntry::Fde { offset, .. } => *offset,
            REntry::Cie { offset, .. } => *offset,
        })
        .collect();
    let got_offsets: Vec<u64> = got.fdes.iter().map(|f| f.offset).collect();
    if !ctx.check_eq(&format!("corpus.unwind.{kind}.fde_list"), &want_offsets, &got_offsets, &input) {
        return;
    }
    for (e, g) in rfdes.iter().zip(got.fdes.iter()) {
        let REntry::Fde { offset, cie, pc_begin, pc_end, table } = e else { continue };
        let off = *offset;
        let input = || json!({"corpus": label, "section": name, "fde_offset": off, "len": data.len()});
        ctx.check_eq(&format!("corpus.unwind.{kind}.pc_range"), &(*pc_begin, *pc_end), &(g.pc_begin, g.pc_end), &input);
        let grows = match &g.rows {
            Ok(r) => r,
            Err(e) => {
                ctx.fail(&format!("corpus.unwind.{kind}.rows_err"), &format!("{label}: FDE {off:#x}: gimli could not evaluate a compiler-built FDE: {e}"), &input);
                continue;
            }
        };
        // expected rows
        let mut want: Vec<Row> = table.rows.clone();
        let mut cols: Vec<u16> = table.cols.clone();
        if want.is_empty() {
            // readelf prints no table when every instruction of the FDE is DW_CFA_nop: the
            // table then is the CIE's row, starting at the FDE's initial location
            match cie_tables.get(cie).and_then(|t| t.rows.last().map(|r| (t, r))) {
                Some((t, r)) => {
                    want.push(Row { start: *pc_begin, cfa: r.cfa.clone(), rules: r.rules.clone() });
                    cols = t.cols.clone();
                    ctx.obs("corpus.unwind.fde.all_nops");
                }
                None => {
                    ctx.obs("corpus.unwind.fde.no_table_skipped");
                    continue;
                }
            }
        }
        ctx.obs("corpus.unwind.fde");
        ctx.obs_n("corpus.unwind.rows", want.len() as u64);
        // row starts
        let ws: Vec<u64> = want.iter().map(|r| r.start).collect();
        let gs: Vec<u64> = grows.iter().map(|r| r.start).collect();
        if !ctx.check_eq(&format!("corpus.unwind.{kind}.row_starts"), &ws, &gs, &input) {
            continue;
        }
        // contiguity and the end of the last row
        let mut chain_ok = true;
        for k in 0..grows.len() {
            let next = if k + 1 < grows.len() { grows[k + 1].start } else { *pc_end };
            if grows[k].end != next || grows[k].start > grows[k].end {
                chain_ok = false;
            }
        }
        ctx.check_eq(&format!("corpus.unwind.{kind}.row_chain"), &true, &chain_ok, &input);
        for (w, gr) in want.iter().zip(grows.iter()) {
            if !ctx.check_eq(&format!("corpus.unwind.{kind}.cfa"), &(w.start, &w.cfa), &(gr.start, &gr.cfa), &input) {
                break;
            }
            // every register: readelf's cell (or U when it has no column) == gimli's rule,
            // through registers() and through register(r)
            if !ctx.check_eq(&format!("corpus.unwind.{kind}.rules"), &(w.start, &w.rules), &(gr.start, &gr.listed), &input) {
                break;
            }
            // register(r) can only be compared for the probed range
            let listed_in_range: BTreeMap<u16, Rule> = gr.listed.iter().filter(|(k, _)| **k <= probe_max).map(|(k, v)| (*k, v.clone())).collect();
            if !ctx.check_eq(&format!("corpus.unwind.{kind}.register_accessor"), &(w.start, &listed_in_range), &(gr.start, &gr.probed), &input) {
                break;
            }
            match &w.cfa {
                Cfa::Exp => ctx.obs("corpus.unwind.cfa.exp"),
                Cfa::RegOff(..) => ctx.obs("corpus.unwind.cfa.regoff"),
            }
            for r in w.rules.values() {
                ctx.obs(match r {
                    Rule::C(_) => "corpus.unwind.rule.offset",
                    Rule::V(_) => "corpus.unwind.rule.val_offset",
                    Rule::S => "corpus.unwind.rule.same",
                    Rule::Reg(_) => "corpus.unwind.rule.register",
                    Rule::Exp => "corpus.unwind.rule.exp",
                    Rule::Vexp => "corpus.unwind.rule.vexp",
                    _ => "corpus.unwind.rule.other",
                });
            }
            if cols.len() > w.rules.len() {
                ctx.obs("corpus.unwind.rule.undefined");
            }
        }
    }

    // ---- instruction lists against llvm-dwarfdump
    let mut gi: BTreeMap<u64, &Result<Vec<Ins>, String>> = BTreeMap::new();
    for c in &got.cies {
        gi.insert(c.offset, &c.ins);
    }
    for f in &got.fdes {
        gi.insert(f.offset, &f.ins);
    }
    for e in llist {
        let (off, text) = match e {
            LEntry::Cie(c) => (c.offset, &c.instructions),
            LEntry::Fde(f) => (f.offset, &f.instructions),
        };
        let input = || json!({"corpus": label, "section": name, "entry_offset": off, "len": data.len()});
        let mut want: Vec<Ins> = vec![];
        let mut bad = None;
        for t in text {
            match llvm_ins(t, obj.is64) {
                Ok(i) => want.push(i),
                Err(e) => {
                    bad = Some(e);
                    break;
                }
            }
        }
        if let Some(e) = bad {
            ctx.inconclusive(&format!("corpus: {label}: {name} entry {off:#x}: llvm instruction text not understood: {e}"));
            continue;
        }
        let Some(g) = gi.get(&off) else {
            ctx.fail(&format!("corpus.unwind.{kind}.ins_missing_entry"), &format!("{label}: llvm lists an entry at {off:#x} that gimli did not iterate"), &input);
            continue;
        };
        match g {
            Ok(gv) => {
                if &want != gv {
                    let k = want.iter().zip(gv.iter()).position(|(a, b)| a != b).unwrap_or(want.len().min(gv.len()));
                    ctx.check_eq(&format!("corpus.unwind.{kind}.instructions"), &(want.len(), k, want.get(k)), &(gv.len(), k, gv.get(k)), &input);
                }
                ctx.obs_n("corpus.unwind.ins", want.len() as u64);
                for (n, _) in &want {
                    if matches!(n.as_str(), "remember_state" | "restore_state" | "restore" | "def_cfa_expression" | "expression" | "GNU_args_size" | "def_cfa_register" | "advance_loc" | "offset" | "def_cfa" | "def_cfa_offset") {
                        ctx.obs(&format!("corpus.unwind.ins.{n}"));
                    }
                }
            }
            Err(e) => ctx.fail(&format!("corpus.unwind.{kind}.ins_err"), &format!("{label}: entry {off:#x}: instructions(): {e}"), &input),
        }
    }
    ctx.nontrivial_bytes(&format!("c06.corpus.{kind}"), data);
}

pub fn run(ctx: &mut Ctx) {
    if ctx.slow() {
        return;
    }
    let cfgs = corpus::configs(ctx.quick());
    for (i, cfg) in cfgs.iter().enumerate() {
        if !ctx.want("corpus", i as u64) {
            continue;
        }
        let label = cfg.label();
        let Some(prog) = corpus::build(ctx, cfg) else { continue };
        let Some(obj) = corpus::load_obj(ctx, &prog) else { continue };
        let Some(rtext) = corpus::dump(ctx, &prog, "frames-interp", "readelf", &["--debug-dump=frames-interp"]) else { continue };
        let Some(ltext) = corpus::dump(ctx, &prog, "frames", "llvm-dwarfdump", &["--eh-frame"]) else { continue };
        let rframes = match parse_readelf(&rtext, obj.is64) {
            Ok(f) => f,
            Err(e) => {
                ctx.inconclusive(&format!("corpus: {label}: cannot parse readelf -wF output: {e}"));
                continue;
            }
        };
        let lframes = match corpus::parse_llvm_frames(&ltext) {
            Ok(f) => f,
            Err(e) => {
                ctx.inconclusive(&format!("corpus: {label}: cannot parse llvm-dwarfdump --eh-frame output: {e}"));
                continue;
            }
        };
        if rframes.eh_frame.is_empty() && rframes.debug_frame.is_empty() {
            ctx.inconclusive(&format!("corpus: {label}: readelf printed no CFI entries"));
            continue;
        }
        ctx.obs("corpus.object");
        ctx.obs(&format!("corpus.cc.{}", cfg.cc));
        ctx.obs(if cfg.lang == corpus::Lang::C { "corpus.lang.c" } else { "corpus.lang.cpp" });
        if !rframes.eh_frame.is_empty() {
            check_section(ctx, &label, &obj, "eh_frame", &rframes.eh_frame, &lframes.eh_frame);
        }
        if !rframes.debug_frame.is_empty() {
            check_section(ctx, &label, &obj, "debug_frame", &rframes.debug_frame, &lframes.debug_frame);
        }
        if i < 2 {
            ctx.sample("corpus", || {
                let first = rframes.eh_frame.iter().chain(rframes.debug_frame.iter()).find(|e| matches!(e, REntry::Fde { table, .. } if table.rows.len() > 1));
                json!({"config": label, "eh_frame_entries": rframes.eh_frame.len(), "debug_frame_entries": rframes.debug_frame.len(), "an_fde": format!("{first:?}").chars().take(700).collect::<String>()})
            });
        }
    }
}

//! C15 core: description of built expressions (`B`), the expected decode (`X`), building
//! them through `gimli::write`, hosting them in DIE attributes / location lists / CFI,
//! reading everything back with `gimli::read` and converting the read-back operations into
//! `X` (references resolved to entry identities, branches resolved to operation indices
//! computed from the read-back operation start offsets), plus a small stack-machine model
//! for the evaluable subset.
//!
//! The expectations are written from DWARF 5 §2.5/§7.7 and DESIGN.md Appendix A.6, not
//! from gimli's writer.

use crate::asm::{sleb_bytes, uleb_bytes, Enc};
use crate::rt::hex;
use gimli::constants as dw;
use gimli::write as w;
use gimli::write::Writer;
use gimli::UnwindSection;
use serde_json::{json, Value};
use std::collections::BTreeMap;

pub type Slice<'a> = gimli::EndianSlice<'a, gimli::RunTimeEndian>;

pub fn endian(le: bool) -> gimli::RunTimeEndian {
    if le {
        gimli::RunTimeEndian::Little
    } else {
        gimli::RunTimeEndian::Big
    }
}

// ================================================================ built program

/// A reference to an entry of the plan: unit index, entry index (0 = root).
#[derive(Clone, Copy, Debug, PartialEq, Eq, Hash)]
pub struct ERef {
    pub unit: usize,
    pub entry: usize,
}

/// One operation of raw bytecode whose meaning is known to the harness.
#[derive(Clone, Debug, PartialEq)]
pub struct RawOp {
    pub bytes: Vec<u8>,
    pub x: X,
}

/// One call of a `write::Expression` builder.
#[derive(Clone, Debug, PartialEq)]
pub enum B {
    /// `Expression::op(DwOp)`
    Simple(u8),
    Addr(u64),
    Constu(u64),
    Consts(i64),
    ConstType(ERef, Vec<u8>),
    Fbreg(i64),
    Breg(u16, i64),
    RegvalType(u16, ERef),
    Pick(u8),
    Deref,
    Xderef,
    DerefSize(u8),
    XderefSize(u8),
    DerefType(u8, ERef),
    XderefType(u8, ERef),
    PlusUconst(u64),
    /// target = index of a built operation (len = end)
    Skip(usize),
    Bra(usize),
    Call(ERef),
    CallRef(ERef),
    VariableValue(ERef),
    Convert(Option<ERef>),
    Reinterpret(Option<ERef>),
    EntryValue(Vec<B>),
    Reg(u16),
    ImplicitValue(Vec<u8>),
    ImplicitPointer(ERef, i64),
    Piece(u64),
    BitPiece(u64, u64),
    ParameterRef(ERef),
    WasmLocal(u32),
    WasmGlobal(u32),
    WasmStack(u32),
    /// `Expression::raw(bytes)`; only possible as the first operation
    Raw(Vec<RawOp>),
}

pub fn identity(r: ERef) -> u64 {
    (r.unit as u64 + 1) * 1000 + r.entry as u64
}

/// Expected decode of one operation.  Entry references are entry identities (0 = the
/// generic type), branch targets are indices into the decoded operation list (len = end).
#[derive(Clone, Debug, PartialEq)]
pub enum X {
    /// operations without operands, by the reader's variant name
    S(&'static str),
    Deref { base: u64, size: u8, space: bool },
    Pick(u8),
    PlusConstant(u64),
    Bra(usize),
    Skip(usize),
    UConst(u64),
    SConst(i64),
    Register(u16),
    RegisterOffset { reg: u16, off: i64, base: u64 },
    FrameOffset(i64),
    CallUnit(u64),
    CallInfo(u64),
    VariableValue(u64),
    Piece { bits: u64, off: Option<u64> },
    ImplicitValue(Vec<u8>),
    ImplicitPointer { id: u64, off: i64 },
    EntryValue(Vec<X>),
    ParameterRef(u64),
    Address(u64),
    TypedLiteral { base: u64, value: Vec<u8> },
    Convert(u64),
    Reinterpret(u64),
    WasmLocal(u32),
    WasmGlobal(u32),
    WasmStack(u32),
    /// unresolvable reference / branch, or an operation the writer cannot have meant
    Bad(String),
}

/// The operand-less opcodes accepted by `Expression::op` and what they mean.
pub fn simple_table() -> Vec<(u8, X)> {
    let mut v = vec![
        (dw::DW_OP_deref.0, X::S("DEREF")),
        (dw::DW_OP_xderef.0, X::S("XDEREF")),
        (dw::DW_OP_dup.0, X::Pick(0)),
        (dw::DW_OP_over.0, X::Pick(1)),
        (dw::DW_OP_drop.0, X::S("Drop")),
        (dw::DW_OP_swap.0, X::S("Swap")),
        (dw::DW_OP_rot.0, X::S("Rot")),
        (dw::DW_OP_abs.0, X::S("Abs")),
        (dw::DW_OP_and.0, X::S("And")),
        (dw::DW_OP_div.0, X::S("Div")),
        (dw::DW_OP_minus.0, X::S("Minus")),
        (dw::DW_OP_mod.0, X::S("Mod")),
        (dw::DW_OP_mul.0, X::S("Mul")),
        (dw::DW_OP_neg.0, X::S("Neg")),
        (dw::DW_OP_not.0, X::S("Not")),
        (dw::DW_OP_or.0, X::S("Or")),
        (dw::DW_OP_plus.0, X::S("Plus")),
        (dw::DW_OP_shl.0, X::S("Shl")),
        (dw::DW_OP_shr.0, X::S("Shr")),
        (dw::DW_OP_shra.0, X::S("Shra")),
        (dw::DW_OP_xor.0, X::S("Xor")),
        (dw::DW_OP_eq.0, X::S("Eq")),
        (dw::DW_OP_ge.0, X::S("Ge")),
        (dw::DW_OP_gt.0, X::S("Gt")),
        (dw::DW_OP_le.0, X::S("Le")),
        (dw::DW_OP_lt.0, X::S("Lt")),
        (dw::DW_OP_ne.0, X::S("Ne")),
        (dw::DW_OP_nop.0, X::S("Nop")),
        (dw::DW_OP_push_object_address.0, X::S("PushObjectAddress")),
        (dw::DW_OP_form_tls_address.0, X::S("TLS")),
        (dw::DW_OP_GNU_push_tls_address.0, X::S("TLS")),
        (dw::DW_OP_call_frame_cfa.0, X::S("CallFrameCFA")),
        (dw::DW_OP_stack_value.0, X::S("StackValue")),
        (dw::DW_OP_GNU_uninit.0, X::S("Uninitialized")),
    ];
    for k in 0..32u8 {
        v.push((dw::DW_OP_lit0.0 + k, X::UConst(k as u64)));
        v.push((dw::DW_OP_reg0.0 + k, X::Register(k as u16)));
    }
    v
}

fn simple_x(op: u8, addr: u8) -> X {
    if op == dw::DW_OP_deref.0 {
        return X::Deref { base: 0, size: addr, space: false };
    }
    if op == dw::DW_OP_xderef.0 {
        return X::Deref { base: 0, size: addr, space: true };
    }
    for (o, x) in simple_table() {
        if o == op {
            return x;
        }
    }
    X::Bad(format!("harness: opcode {op:#x} is not in the simple table"))
}

/// Expected decode of a built program.
pub fn expect(bs: &[B], addr: u8) -> Vec<X> {
    // built index -> decoded index
    let mut map = Vec::with_capacity(bs.len() + 1);
    let mut n = 0usize;
    for b in bs {
        map.push(n);
        n += match b {
            B::Raw(ops) => ops.len(),
            _ => 1,
        };
    }
    map.push(n);
    let tgt = |t: usize| map.get(t).copied().unwrap_or(usize::MAX);
    let mut out = Vec::with_capacity(n);
    for b in bs {
        let x = match b {
            B::Simple(op) => simple_x(*op, addr),
            B::Addr(v) => X::Address(*v),
            B::Constu(v) => X::UConst(*v),
            B::Consts(v) => X::SConst(*v),
            B::ConstType(r, d) => X::TypedLiteral { base: identity(*r), value: d.clone() },
            B::Fbreg(o) => X::FrameOffset(*o),
            B::Breg(r, o) => X::RegisterOffset { reg: *r, off: *o, base: 0 },
            B::RegvalType(r, e) => X::RegisterOffset { reg: *r, off: 0, base: identity(*e) },
            B::Pick(i) => X::Pick(*i),
            B::Deref => X::Deref { base: 0, size: addr, space: false },
            B::Xderef => X::Deref { base: 0, size: addr, space: true },
            B::DerefSize(s) => X::Deref { base: 0, size: *s, space: false },
            B::XderefSize(s) => X::Deref { base: 0, size: *s, space: true },
            B::DerefType(s, e) => X::Deref { base: identity(*e), size: *s, space: false },
            B::XderefType(s, e) => X::Deref { base: identity(*e), size: *s, space: true },
            B::PlusUconst(v) => X::PlusConstant(*v),
            B::Skip(t) => X::Skip(tgt(*t)),
            B::Bra(t) => X::Bra(tgt(*t)),
            B::Call(e) => X::CallUnit(identity(*e)),
            B::CallRef(e) => X::CallInfo(identity(*e)),
            B::VariableValue(e) => X::VariableValue(identity(*e)),
            B::Convert(e) => X::Convert(e.map(identity).unwrap_or(0)),
            B::Reinterpret(e) => X::Reinterpret(e.map(identity).unwrap_or(0)),
            B::EntryValue(inner) => X::EntryValue(expect(inner, addr)),
            B::Reg(r) => X::Register(*r),
            B::ImplicitValue(d) => X::ImplicitValue(d.clone()),
            B::ImplicitPointer(e, o) => X::ImplicitPointer { id: identity(*e), off: *o },
            B::Piece(n) => X::Piece { bits: n.wrapping_mul(8), off: None },
            B::BitPiece(s, o) => X::Piece { bits: *s, off: Some(*o) },
            B::ParameterRef(e) => X::ParameterRef(identity(*e)),
            B::WasmLocal(i) => X::WasmLocal(*i),
            B::WasmGlobal(i) => X::WasmGlobal(*i),
            B::WasmStack(i) => X::WasmStack(*i),
            B::Raw(ops) => {
                for o in ops {
                    out.push(o.x.clone());
                }
                continue;
            }
        };
        out.push(x);
    }
    out
}

/// Facts about a built program that decide which outcomes the property permits.
#[derive(Default, Debug, Clone)]
pub struct Facts {
    /// references encoded as ULEB128 unit offsets (need an already assigned offset)
    pub uleb_refs: Vec<ERef>,
    /// call4 / GNU_parameter_ref (4-byte unit offset)
    pub fixed_refs: Vec<ERef>,
    /// call_ref / variable_value / implicit_pointer
    pub info_refs: Vec<ERef>,
    pub has_implicit_pointer: bool,
    /// an address constant that does not fit the address size, a const_type block > 255 bytes
    pub too_large: bool,
    pub n_ops: usize,
    pub n_branches: usize,
    pub depth: usize,
}

pub fn facts(bs: &[B], addr_mask: u64, f: &mut Facts, depth: usize) {
    f.depth = f.depth.max(depth);
    for b in bs {
        f.n_ops += 1;
        match b {
            B::ConstType(e, d) => {
                f.uleb_refs.push(*e);
                if d.len() > 255 {
                    f.too_large = true;
                }
            }
            B::RegvalType(_, e) | B::DerefType(_, e) | B::XderefType(_, e) => f.uleb_refs.push(*e),
            B::Convert(Some(e)) | B::Reinterpret(Some(e)) => f.uleb_refs.push(*e),
            B::Call(e) | B::ParameterRef(e) => f.fixed_refs.push(*e),
            B::CallRef(e) | B::VariableValue(e) => f.info_refs.push(*e),
            B::ImplicitPointer(e, _) => {
                f.info_refs.push(*e);
                f.has_implicit_pointer = true;
            }
            B::Addr(v) => {
                if *v & !addr_mask != 0 {
                    f.too_large = true;
                }
            }
            B::Skip(_) | B::Bra(_) => f.n_branches += 1,
            B::EntryValue(inner) => facts(inner, addr_mask, f, depth + 1),
            _ => {}
        }
    }
}

/// Exchange units 0 and 1 in every reference of a program.
pub fn swap_units(bs: &[B]) -> Vec<B> {
    let m = |e: &ERef| ERef { unit: if e.unit < 2 { 1 - e.unit } else { e.unit }, entry: e.entry };
    bs.iter()
        .map(|b| match b {
            B::ConstType(e, d) => B::ConstType(m(e), d.clone()),
            B::RegvalType(r, e) => B::RegvalType(*r, m(e)),
            B::DerefType(s, e) => B::DerefType(*s, m(e)),
            B::XderefType(s, e) => B::XderefType(*s, m(e)),
            B::Convert(Some(e)) => B::Convert(Some(m(e))),
            B::Reinterpret(Some(e)) => B::Reinterpret(Some(m(e))),
            B::Call(e) => B::Call(m(e)),
            B::ParameterRef(e) => B::ParameterRef(m(e)),
            B::CallRef(e) => B::CallRef(m(e)),
            B::VariableValue(e) => B::VariableValue(m(e)),
            B::ImplicitPointer(e, o) => B::ImplicitPointer(m(e), *o),
            B::EntryValue(inner) => B::EntryValue(swap_units(inner)),
            other => other.clone(),
        })
        .collect()
}

pub fn has_refs(f: &Facts) -> bool {
    !(f.uleb_refs.is_empty() && f.fixed_refs.is_empty() && f.info_refs.is_empty())
}

pub fn b_json(bs: &[B]) -> Value {
    json!(bs.iter().map(|b| format!("{b:?}").chars().take(160).collect::<String>()).collect::<Vec<_>>())
}

// ================================================================ building

pub struct Ids {
    pub units: Vec<w::UnitId>,
    pub entries: Vec<Vec<w::UnitEntryId>>,
}

pub fn build(bs: &[B], ids: Option<&Ids>) -> Result<w::Expression, String> {
    let uid = |e: &ERef| -> Result<w::UnitEntryId, String> {
        let ids = ids.ok_or("harness: reference without ids")?;
        ids.entries.get(e.unit).and_then(|u| u.get(e.entry)).copied().ok_or_else(|| "harness: bad ERef".to_string())
    };
    let dref = |e: &ERef| -> Result<w::DebugInfoRef, String> {
        let ids = ids.ok_or("harness: reference without ids")?;
        let u = ids.units.get(e.unit).copied().ok_or("harness: bad ERef unit")?;
        Ok(w::DebugInfoRef::Entry(u, uid(e)?))
    };
    let mut ex = w::Expression::new();
    let mut branches = vec![];
    for (i, b) in bs.iter().enumerate() {
        match b {
            B::Raw(ops) => {
                if i != 0 {
                    return Err("harness: Raw not first".into());
                }
                let mut bytes = vec![];
                for o in ops {
                    bytes.extend_from_slice(&o.bytes);
                }
                ex = w::Expression::raw(bytes);
            }
            B::Simple(op) => ex.op(gimli::DwOp(*op)),
            B::Addr(v) => ex.op_addr(w::Address::Constant(*v)),
            B::Constu(v) => ex.op_constu(*v),
            B::Consts(v) => ex.op_consts(*v),
            B::ConstType(e, d) => ex.op_const_type(uid(e)?, d.clone().into_boxed_slice()),
            B::Fbreg(o) => ex.op_fbreg(*o),
            B::Breg(r, o) => ex.op_breg(gimli::Register(*r), *o),
            B::RegvalType(r, e) => ex.op_regval_type(gimli::Register(*r), uid(e)?),
            B::Pick(i) => ex.op_pick(*i),
            B::Deref => ex.op_deref(),
            B::Xderef => ex.op_xderef(),
            B::DerefSize(s) => ex.op_deref_size(*s),
            B::XderefSize(s) => ex.op_xderef_size(*s),
            B::DerefType(s, e) => ex.op_deref_type(*s, uid(e)?),
            B::XderefType(s, e) => ex.op_xderef_type(*s, uid(e)?),
            B::PlusUconst(v) => ex.op_plus_uconst(*v),
            B::Skip(t) => {
                let idx = ex.op_skip();
                if idx != i {
                    return Err(format!("op_skip returned index {idx}, operation is number {i}"));
                }
                branches.push((idx, *t));
            }
            B::Bra(t) => {
                let idx = ex.op_bra();
                if idx != i {
                    return Err(format!("op_bra returned index {idx}, operation is number {i}"));
                }
                branches.push((idx, *t));
            }
            B::Call(e) => ex.op_call(uid(e)?),
            B::CallRef(e) => ex.op_call_ref(dref(e)?),
            B::VariableValue(e) => ex.op_variable_value(dref(e)?),
            B::Convert(e) => ex.op_convert(match e {
                Some(e) => Some(uid(e)?),
                None => None,
            }),
            B::Reinterpret(e) => ex.op_reinterpret(match e {
                Some(e) => Some(uid(e)?),
                None => None,
            }),
            B::EntryValue(inner) => ex.op_entry_value(build(inner, ids)?),
            B::Reg(r) => ex.op_reg(gimli::Register(*r)),
            B::ImplicitValue(d) => ex.op_implicit_value(d.clone().into_boxed_slice()),
            B::ImplicitPointer(e, o) => ex.op_implicit_pointer(dref(e)?, *o),
            B::Piece(n) => ex.op_piece(*n),
            B::BitPiece(s, o) => ex.op_bit_piece(*s, *o),
            B::ParameterRef(e) => ex.op_gnu_parameter_ref(uid(e)?),
            B::WasmLocal(i) => ex.op_wasm_local(*i),
            B::WasmGlobal(i) => ex.op_wasm_global(*i),
            B::WasmStack(i) => ex.op_wasm_stack(*i),
        }
        if ex.next_index() != i + 1 {
            return Err(format!("next_index() = {} after {} operations", ex.next_index(), i + 1));
        }
    }
    for (idx, t) in branches {
        if t > bs.len() || t == idx {
            return Err("harness: bad branch target".into());
        }
        ex.set_target(idx, t);
    }
    // as_raw: Some(bytes) exactly for an expression that consists of raw bytecode only
    let want_raw: Option<Vec<u8>> = match bs {
        [B::Raw(ops)] => Some(ops.iter().flat_map(|o| o.bytes.iter().copied()).collect()),
        _ => None,
    };
    if ex.as_raw().map(|b| b.to_vec()) != want_raw {
        return Err(format!("as_raw() = {:?}, expected {:?}", ex.as_raw(), want_raw));
    }
    Ok(ex)
}

// ================================================================ plans (unit host)

pub const NAMES: [gimli::DwAt; 8] = [
    dw::DW_AT_location,
    dw::DW_AT_frame_base,
    dw::DW_AT_string_length,
    dw::DW_AT_return_addr,
    dw::DW_AT_static_link,
    dw::DW_AT_use_location,
    dw::DW_AT_vtable_elem_location,
    dw::DW_AT_segment,
];

#[derive(Clone, Debug)]
pub enum AttrPlan {
    /// an `Exprloc` attribute
    Expr(Vec<B>),
    /// a location list attribute; every item is a `StartEnd` location with this expression
    LocList(Vec<Vec<B>>),
    /// a pre-serialised expression written through `Expression::raw` (used by the twin check)
    RawBytes(Vec<u8>),
}

#[derive(Clone, Debug)]
pub struct EntryPlan {
    pub parent: usize,
    pub tag: u16,
    pub sibling: bool,
    pub attrs: Vec<AttrPlan>,
}

#[derive(Clone, Debug)]
pub struct UnitPlan {
    pub enc: Enc,
    /// entries[0] is the root
    pub entries: Vec<EntryPlan>,
}

#[derive(Clone, Debug)]
pub struct Plan {
    pub le: bool,
    pub units: Vec<UnitPlan>,
}

pub fn plan_json(p: &Plan) -> Value {
    json!({
        "le": p.le,
        "units": p.units.iter().map(|u| json!({
            "enc": u.enc.label(),
            "entries": u.entries.iter().enumerate().map(|(i, e)| json!({
                "i": i, "parent": e.parent, "tag": format!("{}", gimli::DwTag(e.tag)), "sibling": e.sibling,
                "attrs": e.attrs.iter().map(|a| match a {
                    AttrPlan::Expr(b) => json!({"expr": b_json(b)}),
                    AttrPlan::LocList(l) => json!({"loclist": l.iter().map(|b| b_json(b)).collect::<Vec<_>>()}),
                    AttrPlan::RawBytes(b) => json!({"raw": hex(b)}),
                }).collect::<Vec<_>>(),
            })).collect::<Vec<_>>(),
        })).collect::<Vec<_>>(),
    })
}

/// Order in which the writer is expected to emit the entries of a unit: depth first, the
/// root's children of tag DW_TAG_base_type first (Appendix A.6 / A.10).
pub fn written_order(u: &UnitPlan) -> Vec<usize> {
    let n = u.entries.len();
    let mut children: Vec<Vec<usize>> = vec![vec![]; n];
    for i in 1..n {
        let p = u.entries[i].parent.min(i - 1);
        children[p].push(i);
    }
    let rc = std::mem::take(&mut children[0]);
    let mut first: Vec<usize> = rc.iter().copied().filter(|&c| u.entries[c].tag == dw::DW_TAG_base_type.0).collect();
    first.extend(rc.iter().copied().filter(|&c| u.entries[c].tag != dw::DW_TAG_base_type.0));
    children[0] = first;
    let mut out = vec![];
    let mut stack = vec![0usize];
    while let Some(i) = stack.pop() {
        out.push(i);
        for &c in children[i].iter().rev() {
            stack.push(c);
        }
    }
    out
}

pub struct Secs {
    pub info: Vec<u8>,
    pub abbrev: Vec<u8>,
    pub str_: Vec<u8>,
    pub line: Vec<u8>,
    pub line_str: Vec<u8>,
    pub loc: Vec<u8>,
    pub loclists: Vec<u8>,
}

impl Secs {
    fn get(&self, id: gimli::SectionId) -> &[u8] {
        match id {
            gimli::SectionId::DebugInfo => &self.info,
            gimli::SectionId::DebugAbbrev => &self.abbrev,
            gimli::SectionId::DebugStr => &self.str_,
            gimli::SectionId::DebugLine => &self.line,
            gimli::SectionId::DebugLineStr => &self.line_str,
            gimli::SectionId::DebugLoc => &self.loc,
            gimli::SectionId::DebugLocLists => &self.loclists,
            _ => &[],
        }
    }
}

pub fn sentinel_value(unit: usize, entry: usize, k: usize) -> u64 {
    0x51 + (unit as u64) * 7919 + (entry as u64) * 131 + k as u64
}

/// Begin/end addresses of the j-th item of a location list (fit one byte, begin != end,
/// never the base-address-selection marker, never (0,0)).
pub fn loc_range(j: usize) -> (u64, u64) {
    let b = 1 + 2 * (j as u64 % 100);
    (b, b + 1)
}

/// Create the units and entries of a plan (no attributes yet).
pub fn make_ids(p: &Plan) -> (w::Dwarf, Ids) {
    let mut dwarf = w::Dwarf::new();
    let mut ids = Ids { units: vec![], entries: vec![] };
    for up in &p.units {
        let mut unit = w::Unit::new(up.enc.encoding(), w::LineProgram::none());
        let mut e = vec![unit.root()];
        for i in 1..up.entries.len() {
            let ep = &up.entries[i];
            let parent = e[ep.parent.min(i - 1)];
            e.push(unit.add(parent, gimli::DwTag(ep.tag)));
        }
        ids.entries.push(e);
        ids.units.push(dwarf.units.add(unit));
    }
    (dwarf, ids)
}

/// Build the `write::Dwarf` for a plan and write it.
pub fn write_plan(p: &Plan) -> Result<Secs, String> {
    let (mut dwarf, ids) = make_ids(p);
    for (ui, up) in p.units.iter().enumerate() {
        for (ei, ep) in up.entries.iter().enumerate() {
            // expressions first (they only need ids), then mutate the unit
            let mut vals: Vec<Result<w::AttributeValue, Vec<w::Location>>> = vec![];
            for a in &ep.attrs {
                match a {
                    AttrPlan::Expr(bs) => vals.push(Ok(w::AttributeValue::Exprloc(build(bs, Some(&ids))?))),
                    AttrPlan::RawBytes(b) => vals.push(Ok(w::AttributeValue::Exprloc(w::Expression::raw(b.clone())))),
                    AttrPlan::LocList(items) => {
                        let mut v = vec![];
                        for (j, bs) in items.iter().enumerate() {
                            let (b, e) = loc_range(j);
                            v.push(w::Location::StartEnd {
                                begin: w::Address::Constant(b),
                                end: w::Address::Constant(e),
                                data: build(bs, Some(&ids))?,
                            });
                        }
                        vals.push(Err(v));
                    }
                }
            }
            let unit = dwarf.units.get_mut(ids.units[ui]);
            let id = ids.entries[ui][ei];
            let mut avs = vec![];
            for v in vals {
                avs.push(match v {
                    Ok(av) => av,
                    Err(locs) => w::AttributeValue::LocationListRef(unit.locations.add(w::LocationList(locs))),
                });
            }
            let die = unit.get_mut(id);
            die.set_sibling(ep.sibling);
            die.set(dw::DW_AT_decl_line, w::AttributeValue::Udata(identity(ERef { unit: ui, entry: ei })));
            for (k, av) in avs.into_iter().enumerate() {
                die.set(NAMES[k % NAMES.len()], av);
                die.set(gimli::DwAt(0x2100 + k as u16), w::AttributeValue::Udata(sentinel_value(ui, ei, k)));
            }
        }
    }
    let mut sections = w::Sections::new(w::EndianVec::new(endian(p.le)));
    dwarf.write(&mut sections).map_err(|e| format!("{e:?}"))?;
    Ok(Secs {
        info: sections.debug_info.slice().to_vec(),
        abbrev: sections.debug_abbrev.slice().to_vec(),
        str_: sections.debug_str.slice().to_vec(),
        line: sections.debug_line.slice().to_vec(),
        line_str: sections.debug_line_str.slice().to_vec(),
        loc: sections.debug_loc.slice().to_vec(),
        loclists: sections.debug_loclists.slice().to_vec(),
    })
}

// ================================================================ read back (unit host)

#[derive(Debug, Clone)]
pub enum RAttr {
    Udata(u16, u64),
    /// expression block: bytes (decoded later, when all identities are known)
    Expr(u16, Vec<u8>),
    /// location list: (begin, end, expression bytes) per raw item
    LocList(u16, Vec<(u64, u64, Vec<u8>)>),
    Other(u16, String),
}

#[derive(Debug, Clone)]
pub struct RDie {
    pub abs_off: usize,
    pub tag: u16,
    pub attrs: Vec<RAttr>,
}

#[derive(Debug, Clone)]
pub struct RUnit {
    pub off: usize,
    pub enc: gimli::Encoding,
    pub dies: Vec<RDie>,
}

const ITER_LIMIT: usize = 100_000;

pub fn read_units(secs: &Secs, le: bool) -> Result<Vec<RUnit>, String> {
    let en = endian(le);
    let dwarf: gimli::Dwarf<Slice<'_>> =
        gimli::Dwarf::load(|id| -> Result<Slice<'_>, gimli::Error> { Ok(gimli::EndianSlice::new(secs.get(id), en)) })
            .map_err(|e| format!("load: {e:?}"))?;
    let mut out = vec![];
    let mut headers = dwarf.units();
    loop {
        if out.len() > 64 {
            return Err("too many units".into());
        }
        let header = match headers.next() {
            Ok(Some(h)) => h,
            Ok(None) => break,
            Err(e) => return Err(format!("units().next: {e:?}")),
        };
        let unit = dwarf.unit(header).map_err(|e| format!("Dwarf::unit: {e:?}"))?;
        let unit_off = unit.header.offset().0;
        let mut ru = RUnit { off: unit_off, enc: unit.encoding(), dies: vec![] };
        let mut cursor = unit.entries();
        let mut n = 0;
        loop {
            n += 1;
            if n > ITER_LIMIT {
                return Err("entries do not end".into());
            }
            let entry = match cursor.next_dfs() {
                Ok(Some(e)) => e,
                Ok(None) => break,
                Err(e) => return Err(format!("next_dfs at entry #{n} of unit at {unit_off:#x}: {e:?}")),
            };
            let mut die = RDie { abs_off: unit_off + entry.offset().0, tag: entry.tag().0, attrs: vec![] };
            for a in entry.attrs() {
                let name = a.name();
                if name == dw::DW_AT_sibling {
                    continue;
                }
                if NAMES.contains(&name) {
                    if let Some(ex) = a.raw_value().exprloc_value() {
                        die.attrs.push(RAttr::Expr(name.0, ex.0.slice().to_vec()));
                        continue;
                    }
                    let off = dwarf.attr_locations_offset(&unit, a.value()).map_err(|e| format!("attr_locations_offset: {e:?}"))?;
                    let Some(off) = off else {
                        die.attrs.push(RAttr::Other(name.0, format!("{:?}", a.raw_value())));
                        continue;
                    };
                    let mut it = dwarf.raw_locations(&unit, off).map_err(|e| format!("raw_locations: {e:?}"))?;
                    let mut items = vec![];
                    loop {
                        let e = match it.next() {
                            Ok(Some(e)) => e,
                            Ok(None) => break,
                            Err(e) => return Err(format!("raw_locations.next (list at {:#x}, item {}): {e:?}", off.0, items.len())),
                        };
                        use gimli::RawLocListEntry as R;
                        match e {
                            R::AddressOrOffsetPair { begin, end, data } | R::StartEnd { begin, end, data } => {
                                items.push((begin, end, data.0.slice().to_vec()))
                            }
                            other => return Err(format!("unexpected location list item {other:?}")),
                        }
                        if items.len() > ITER_LIMIT {
                            return Err("location list does not end".into());
                        }
                    }
                    die.attrs.push(RAttr::LocList(name.0, items));
                } else {
                    match a.raw_value() {
                        gimli::AttributeValue::Udata(v) => die.attrs.push(RAttr::Udata(name.0, v)),
                        other => die.attrs.push(RAttr::Other(name.0, format!("{other:?}"))),
                    }
                }
            }
            ru.dies.push(die);
        }
        out.push(ru);
    }
    Ok(out)
}

// ================================================================ decode into X

pub struct Resolver<'a> {
    /// absolute .debug_info offset of every entry -> identity
    pub ids: &'a BTreeMap<usize, u64>,
    /// offset of the unit hosting the expression (None: CFI, no unit)
    pub unit_off: Option<usize>,
}

impl Resolver<'_> {
    fn unit_ref(&self, off: usize) -> Result<u64, String> {
        let Some(u) = self.unit_off else { return Err(format!("unit reference {off:#x} outside a unit")) };
        let abs = u.checked_add(off).ok_or("reference overflows")?;
        self.ids.get(&abs).copied().ok_or_else(|| format!("unit offset {off:#x} (unit at {u:#x}) is not the start of an entry"))
    }
    fn base_ref(&self, off: usize) -> Result<u64, String> {
        if off == 0 {
            Ok(0)
        } else {
            self.unit_ref(off)
        }
    }
    fn info_ref(&self, off: usize) -> Result<u64, String> {
        self.ids.get(&off).copied().ok_or_else(|| format!(".debug_info offset {off:#x} is not the start of an entry"))
    }
}

pub struct Decoded {
    pub xs: Vec<X>,
    /// start offset of every decoded operation, plus the total length
    pub starts: Vec<usize>,
}

fn bad<T>(r: Result<T, String>, f: impl FnOnce(T) -> X) -> X {
    match r {
        Ok(v) => f(v),
        Err(e) => X::Bad(e),
    }
}

/// Decode `bytes` with `gimli::read::Expression::operations`.
pub fn decode(bytes: &[u8], le: bool, enc: gimli::Encoding, res: &Resolver<'_>, depth: usize) -> Result<Decoded, String> {
    if depth > 8 {
        return Err("entry_value nesting deeper than 8".into());
    }
    let expr = gimli::Expression(Slice::new(bytes, endian(le)));
    let mut it = expr.clone().operations(enc);
    let mut raw = vec![];
    let mut starts = vec![];
    loop {
        let start = it.offset_from(&expr);
        let op = match it.next() {
            Ok(Some(op)) => op,
            Ok(None) => break,
            Err(e) => return Err(format!("operation #{} at offset {start:#x}: {e:?}", raw.len())),
        };
        let end = it.offset_from(&expr);
        if end <= start || end > bytes.len() {
            return Err(format!("operation #{} spans {start:#x}..{end:#x}", raw.len()));
        }
        starts.push(start);
        raw.push((op, end));
        if raw.len() > ITER_LIMIT {
            return Err("operations do not end".into());
        }
    }
    starts.push(bytes.len());
    let find = |end: usize, rel: i16| -> Result<usize, String> {
        let t = end as i64 + rel as i64;
        if t < 0 {
            return Err(format!("branch to {t}"));
        }
        starts.binary_search(&(t as usize)).map_err(|_| format!("branch displacement {rel} from {end:#x} lands at {t:#x}, which is not the start of an operation (starts: {:?})", &starts[..starts.len().min(40)]))
    };
    use gimli::Operation as O;
    let mut xs = Vec::with_capacity(raw.len());
    for (op, end) in raw {
        let x = match op {
            O::Deref { base_type, size, space } => bad(res.base_ref(base_type.0), |b| X::Deref { base: b, size, space }),
            O::Drop => X::S("Drop"),
            O::Pick { index } => X::Pick(index),
            O::Swap => X::S("Swap"),
            O::Rot => X::S("Rot"),
            O::Abs => X::S("Abs"),
            O::And => X::S("And"),
            O::Div => X::S("Div"),
            O::Minus => X::S("Minus"),
            O::Mod => X::S("Mod"),
            O::Mul => X::S("Mul"),
            O::Neg => X::S("Neg"),
            O::Not => X::S("Not"),
            O::Or => X::S("Or"),
            O::Plus => X::S("Plus"),
            O::PlusConstant { value } => X::PlusConstant(value),
            O::Shl => X::S("Shl"),
            O::Shr => X::S("Shr"),
            O::Shra => X::S("Shra"),
            O::Xor => X::S("Xor"),
            O::Bra { target } => bad(find(end, target), X::Bra),
            O::Eq => X::S("Eq"),
            O::Ge => X::S("Ge"),
            O::Gt => X::S("Gt"),
            O::Le => X::S("Le"),
            O::Lt => X::S("Lt"),
            O::Ne => X::S("Ne"),
            O::Skip { target } => bad(find(end, target), X::Skip),
            O::UnsignedConstant { value } => X::UConst(value),
            O::SignedConstant { value } => X::SConst(value),
            O::Register { register } => X::Register(register.0),
            O::RegisterOffset { register, offset, base_type } => bad(res.base_ref(base_type.0), |b| X::RegisterOffset { reg: register.0, off: offset, base: b }),
            O::FrameOffset { offset } => X::FrameOffset(offset),
            O::Nop => X::S("Nop"),
            O::PushObjectAddress => X::S("PushObjectAddress"),
            O::Call { offset: gimli::DieReference::UnitRef(o) } => bad(res.unit_ref(o.0), X::CallUnit),
            O::Call { offset: gimli::DieReference::DebugInfoRef(o) } => bad(res.info_ref(o.0), X::CallInfo),
            O::VariableValue { offset } => bad(res.info_ref(offset.0), X::VariableValue),
            O::TLS => X::S("TLS"),
            O::CallFrameCFA => X::S("CallFrameCFA"),
            O::Piece { size_in_bits, bit_offset } => X::Piece { bits: size_in_bits, off: bit_offset },
            O::ImplicitValue { data } => X::ImplicitValue(data.slice().to_vec()),
            O::StackValue => X::S("StackValue"),
            O::ImplicitPointer { value, byte_offset } => bad(res.info_ref(value.0), |id| X::ImplicitPointer { id, off: byte_offset }),
            O::EntryValue { expression } => match decode(expression.slice(), le, enc, res, depth + 1) {
                Ok(d) => X::EntryValue(d.xs),
                Err(e) => X::Bad(format!("entry_value: {e}")),
            },
            O::ParameterRef { offset } => bad(res.unit_ref(offset.0), X::ParameterRef),
            O::Address { address } => X::Address(address),
            O::TypedLiteral { base_type, value } => bad(res.unit_ref(base_type.0), |b| X::TypedLiteral { base: b, value: value.slice().to_vec() }),
            O::Convert { base_type } => bad(res.base_ref(base_type.0), X::Convert),
            O::Reinterpret { base_type } => bad(res.base_ref(base_type.0), X::Reinterpret),
            O::Uninitialized => X::S("Uninitialized"),
            O::WasmLocal { index } => X::WasmLocal(index),
            O::WasmGlobal { index } => X::WasmGlobal(index),
            O::WasmStack { index } => X::WasmStack(index),
            other => X::Bad(format!("unexpected operation {other:?}")),
        };
        xs.push(x);
    }
    Ok(Decoded { xs, starts })
}

/// Secondary observation: version-dependent opcodes (Appendix A.6: v < 5 uses the GNU
/// opcodes).  Returns the number of operations whose opcode family does not match.
pub fn opcode_family_mismatches(bytes: &[u8], starts: &[usize], version: u16) -> u64 {
    let mut n = 0;
    for &s in starts {
        let Some(&op) = bytes.get(s) else { continue };
        let std5 = matches!(op, 0xa0 | 0xa3 | 0xa4 | 0xa5 | 0xa6 | 0xa8 | 0xa9);
        let gnu = matches!(op, 0xf2 | 0xf3 | 0xf4 | 0xf5 | 0xf6 | 0xf7 | 0xf9);
        if (std5 && version < 5) || (gnu && version >= 5) {
            n += 1;
        }
    }
    n
}

// ================================================================ CFI host

#[derive(Clone, Debug)]
pub enum CfiI {
    CfaExpr(Vec<B>),
    Expr(u16, Vec<B>),
    ValExpr(u16, Vec<B>),
    /// DW_CFA_register r1 r2, used as a sentinel between expressions
    Sentinel(u16, u16),
}

#[derive(Clone, Debug)]
pub struct CfiPlan {
    pub le: bool,
    pub eh: bool,
    /// version here is the DWARF version (2..5); the CFI version is derived
    pub enc: Enc,
    pub cie: Vec<CfiI>,
    pub fde: Vec<(u32, CfiI)>,
}

pub fn cfi_version(eh: bool, dwarf_version: u16) -> u16 {
    if eh {
        1
    } else {
        match dwarf_version {
            2 => 1,
            3 => 3,
            _ => 4,
        }
    }
}

impl CfiPlan {
    pub fn encoding(&self) -> gimli::Encoding {
        gimli::Encoding { format: self.enc.format(), version: cfi_version(self.eh, self.enc.version), address_size: self.enc.addr }
    }
}

pub fn cfi_json(p: &CfiPlan) -> Value {
    let ins = |i: &CfiI| match i {
        CfiI::CfaExpr(b) => json!({"cfa_expression": b_json(b)}),
        CfiI::Expr(r, b) => json!({"expression": b_json(b), "reg": r}),
        CfiI::ValExpr(r, b) => json!({"val_expression": b_json(b), "reg": r}),
        CfiI::Sentinel(a, b) => json!({"register": [a, b]}),
    };
    json!({"le": p.le, "eh": p.eh, "enc": p.enc.label(), "cfi_version": cfi_version(p.eh, p.enc.version),
        "cie": p.cie.iter().map(ins).collect::<Vec<_>>(),
        "fde": p.fde.iter().map(|(o, i)| json!({"at": o, "i": ins(i)})).collect::<Vec<_>>()})
}

fn cfi_instr(i: &CfiI, ids: Option<&Ids>) -> Result<w::CallFrameInstruction, String> {
    Ok(match i {
        CfiI::CfaExpr(b) => w::CallFrameInstruction::CfaExpression(build(b, ids)?),
        CfiI::Expr(r, b) => w::CallFrameInstruction::Expression(gimli::Register(*r), build(b, ids)?),
        CfiI::ValExpr(r, b) => w::CallFrameInstruction::ValExpression(gimli::Register(*r), build(b, ids)?),
        CfiI::Sentinel(a, b) => w::CallFrameInstruction::Register(gimli::Register(*a), gimli::Register(*b)),
    })
}

/// Write the frame table; `ids` provides entry ids of some (unrelated) unit so that
/// expressions with references can be constructed at all.
pub fn write_cfi(p: &CfiPlan, ids: Option<&Ids>) -> Result<Vec<u8>, String> {
    let enc = p.encoding();
    let mut table = w::FrameTable::default();
    let mut cie = w::CommonInformationEntry::new(enc, 1, -1, gimli::Register(3));
    for i in &p.cie {
        cie.add_instruction(cfi_instr(i, ids)?);
    }
    let cid = table.add_cie(cie);
    let mut fde = w::FrameDescriptionEntry::new(w::Address::Constant(0x10), 0x40);
    for (o, i) in &p.fde {
        fde.add_instruction(*o, cfi_instr(i, ids)?);
    }
    table.add_fde(cid, fde);
    if p.eh {
        let mut s = w::EhFrame::from(w::EndianVec::new(endian(p.le)));
        table.write_eh_frame(&mut s).map_err(|e| format!("{e:?}"))?;
        Ok(s.slice().to_vec())
    } else {
        let mut s = w::DebugFrame::from(w::EndianVec::new(endian(p.le)));
        table.write_debug_frame(&mut s).map_err(|e| format!("{e:?}"))?;
        Ok(s.slice().to_vec())
    }
}

#[derive(Debug, Clone, PartialEq)]
pub enum RCfi {
    CfaExpr(Vec<u8>),
    Expr(u16, Vec<u8>),
    ValExpr(u16, Vec<u8>),
    Sentinel(u16, u16),
    Advance(u32),
    Nop,
    Other(String),
}

pub struct RCfiEntry {
    pub is_cie: bool,
    pub enc: gimli::Encoding,
    pub instrs: Vec<RCfi>,
}

fn read_instrs<'a, 'b, S>(section: &S, mut it: gimli::CallFrameInstructionIter<'b, Slice<'a>>) -> Result<Vec<RCfi>, String>
where
    S: gimli::UnwindSection<Slice<'a>>,
{
    let mut v = vec![];
    loop {
        let i = match it.next() {
            Ok(Some(i)) => i,
            Ok(None) => break,
            Err(e) => return Err(format!("instruction #{}: {e:?}", v.len())),
        };
        use gimli::CallFrameInstruction as C;
        let get = |e: gimli::UnwindExpression<usize>| -> Result<Vec<u8>, String> { e.get(section).map(|x| x.0.slice().to_vec()).map_err(|e| format!("UnwindExpression::get: {e:?}")) };
        v.push(match i {
            C::DefCfaExpression { expression } => RCfi::CfaExpr(get(expression)?),
            C::Expression { register, expression } => RCfi::Expr(register.0, get(expression)?),
            C::ValExpression { register, expression } => RCfi::ValExpr(register.0, get(expression)?),
            C::Register { dest_register, src_register } => RCfi::Sentinel(dest_register.0, src_register.0),
            C::AdvanceLoc { delta } => RCfi::Advance(delta),
            C::Nop => RCfi::Nop,
            other => RCfi::Other(format!("{other:?}")),
        });
        if v.len() > ITER_LIMIT {
            return Err("instructions do not end".into());
        }
    }
    Ok(v)
}

fn read_cfi_section<'a, S>(section: &S) -> Result<Vec<RCfiEntry>, String>
where
    S: gimli::UnwindSection<Slice<'a>>,
    S::Offset: gimli::UnwindOffset<usize>,
{
    let bases = gimli::BaseAddresses::default().set_eh_frame(0);
    let mut out = vec![];
    let mut entries = section.entries(&bases);
    loop {
        let e = match entries.next() {
            Ok(Some(e)) => e,
            Ok(None) => break,
            Err(e) => return Err(format!("entries.next (entry #{}): {e:?}", out.len())),
        };
        match e {
            gimli::CieOrFde::Cie(cie) => {
                let instrs = read_instrs(section, cie.instructions(section, &bases))?;
                out.push(RCfiEntry { is_cie: true, enc: cie.encoding(), instrs });
            }
            gimli::CieOrFde::Fde(partial) => {
                let fde = partial.parse(S::cie_from_offset).map_err(|e| format!("fde parse: {e:?}"))?;
                let instrs = read_instrs(section, fde.instructions(section, &bases))?;
                out.push(RCfiEntry { is_cie: false, enc: fde.cie().encoding(), instrs });
            }
        }
        if out.len() > 100 {
            return Err("too many CFI entries".into());
        }
    }
    Ok(out)
}

pub fn read_cfi(bytes: &[u8], p: &CfiPlan) -> Result<Vec<RCfiEntry>, String> {
    if p.eh {
        let mut s = gimli::EhFrame::new(bytes, endian(p.le));
        s.set_address_size(p.enc.addr);
        read_cfi_section(&s)
    } else {
        let mut s = gimli::DebugFrame::new(bytes, endian(p.le));
        s.set_address_size(p.enc.addr);
        read_cfi_section(&s)
    }
}

// ================================================================ evaluation model

#[derive(Debug, Clone, PartialEq)]
pub enum EvalOut {
    Addr(u64),
    Val(u64),
    /// ran out of stack items
    StackErr,
    /// some other error (gimli side only) or a nested failure
    OtherErr(String),
    /// the model does not decide (step limit, operation outside the modelled subset)
    Unknown,
}

pub fn reg_value(r: u16) -> u64 {
    (r as u64).wrapping_mul(0x0101_0101_0101_0101).wrapping_add(0x1234_5678)
}
pub const FRAME_BASE: u64 = 0x7fff_ff12_3456_7000;
pub const CFA: u64 = 0x0000_7ffe_0000_1230;
pub fn tls_value(v: u64) -> u64 {
    v ^ 0x5a5a_5a5a_5a5a_5a5a
}
pub fn mem_value(a: u64, size: u8) -> u64 {
    let v = a.wrapping_mul(3).wrapping_add(size as u64).wrapping_add(0x9e37_79b9_7f4a_7c15);
    if size >= 8 {
        v
    } else {
        v & ((1u64 << (8 * size as u32)) - 1)
    }
}

const MODEL_STEPS: usize = 4000;

/// Evaluate the expected operations on a DWARF stack machine over the generic type
/// (unsigned integers of the address size).  `steps` is shared with nested expressions.
pub fn model_eval(xs: &[X], addr: u8, steps: &mut usize, depth: usize) -> EvalOut {
    let mask = if addr >= 8 { u64::MAX } else { (1u64 << (8 * addr as u32)) - 1 };
    let bits = 8 * addr as u32;
    let sext = |v: u64| -> i64 {
        if bits >= 64 {
            v as i64
        } else {
            let s = 64 - bits;
            ((v << s) as i64) >> s
        }
    };
    let mut st: Vec<u64> = vec![];
    let mut pc = 0usize;
    macro_rules! pop {
        () => {
            match st.pop() {
                Some(v) => v,
                None => return EvalOut::StackErr,
            }
        };
    }
    while pc < xs.len() {
        *steps += 1;
        if *steps > MODEL_STEPS {
            return EvalOut::Unknown;
        }
        let x = &xs[pc];
        pc += 1;
        match x {
            X::UConst(v) => st.push(*v & mask),
            X::SConst(v) => st.push(*v as u64 & mask),
            X::Address(a) => st.push(*a & mask),
            X::Pick(i) => {
                let i = *i as usize;
                if i >= st.len() {
                    return EvalOut::StackErr;
                }
                st.push(st[st.len() - 1 - i]);
            }
            X::PlusConstant(c) => {
                let a = pop!();
                st.push(a.wrapping_add(*c) & mask);
            }
            X::Skip(t) => pc = *t,
            X::Bra(t) => {
                let v = pop!();
                if v & mask != 0 {
                    pc = *t;
                }
            }
            X::RegisterOffset { reg, off, base: 0 } => st.push(reg_value(*reg).wrapping_add(*off as u64) & mask),
            X::FrameOffset(off) => st.push(FRAME_BASE.wrapping_add(*off as u64) & mask),
            X::Deref { base: 0, size, space: false } => {
                if *size > addr || *size == 0 {
                    return EvalOut::Unknown;
                }
                let a = pop!();
                st.push(mem_value(a, *size) & mask);
            }
            X::EntryValue(inner) => {
                if depth >= 4 {
                    return EvalOut::Unknown;
                }
                match model_eval(inner, addr, steps, depth + 1) {
                    EvalOut::Addr(v) | EvalOut::Val(v) => st.push(v & mask),
                    EvalOut::Unknown => return EvalOut::Unknown,
                    _ => return EvalOut::OtherErr("nested".into()),
                }
            }
            X::S(name) => match *name {
                "Nop" => {}
                "Drop" => {
                    pop!();
                }
                "Swap" => {
                    let a = pop!();
                    let b = pop!();
                    st.push(a);
                    st.push(b);
                }
                "Rot" => {
                    // x y z (z on top) -> z x y
                    let z = pop!();
                    let y = pop!();
                    let x = pop!();
                    st.push(z);
                    st.push(x);
                    st.push(y);
                }
                "Plus" | "Minus" | "Mul" | "And" | "Or" | "Xor" | "Eq" | "Ne" | "Lt" | "Le" | "Gt" | "Ge" => {
                    let b = pop!();
                    let a = pop!();
                    let r = match *name {
                        "Plus" => a.wrapping_add(b),
                        "Minus" => a.wrapping_sub(b),
                        "Mul" => a.wrapping_mul(b),
                        "And" => a & b,
                        "Or" => a | b,
                        "Xor" => a ^ b,
                        "Eq" => (a == b) as u64,
                        "Ne" => (a != b) as u64,
                        "Lt" => (sext(a) < sext(b)) as u64,
                        "Le" => (sext(a) <= sext(b)) as u64,
                        "Gt" => (sext(a) > sext(b)) as u64,
                        _ => (sext(a) >= sext(b)) as u64,
                    };
                    st.push(r & mask);
                }
                "Not" => {
                    let a = pop!();
                    st.push(!a & mask);
                }
                "Neg" => {
                    let a = pop!();
                    st.push(a.wrapping_neg() & mask);
                }
                "CallFrameCFA" => st.push(CFA & mask),
                "TLS" => {
                    let a = pop!();
                    st.push(tls_value(a) & mask);
                }
                "StackValue" => {
                    if pc != xs.len() {
                        return EvalOut::Unknown;
                    }
                    let v = pop!();
                    return EvalOut::Val(v & mask);
                }
                _ => return EvalOut::Unknown,
            },
            _ => return EvalOut::Unknown,
        }
    }
    match st.pop() {
        Some(v) => EvalOut::Addr(v & mask),
        None => EvalOut::StackErr,
    }
}

/// Evaluate emitted bytecode with `gimli::read::Evaluation`, answering requests with the
/// same deterministic environment as the model.
pub fn gimli_eval(bytes: &[u8], le: bool, enc: gimli::Encoding, depth: usize) -> EvalOut {
    let mask = if enc.address_size >= 8 { u64::MAX } else { (1u64 << (8 * enc.address_size as u32)) - 1 };
    let mut ev = gimli::Evaluation::new(Slice::new(bytes, endian(le)), enc);
    ev.set_max_iterations(200_000);
    let mut r = ev.evaluate();
    let mut rounds = 0;
    loop {
        rounds += 1;
        if rounds > 200_000 {
            return EvalOut::OtherErr("too many requests".into());
        }
        use gimli::EvaluationResult as E;
        use gimli::Value as V;
        let next = match r {
            Err(gimli::Error::NotEnoughStackItems) => return EvalOut::StackErr,
            Err(e) => return EvalOut::OtherErr(format!("{e:?}")),
            Ok(E::Complete) => break,
            Ok(E::RequiresRegister { register, base_type }) => {
                if base_type.0 != 0 {
                    return EvalOut::OtherErr("typed register".into());
                }
                ev.resume_with_register(V::Generic(reg_value(register.0)))
            }
            Ok(E::RequiresFrameBase) => ev.resume_with_frame_base(FRAME_BASE),
            Ok(E::RequiresCallFrameCfa) => ev.resume_with_call_frame_cfa(CFA),
            Ok(E::RequiresTls(v)) => ev.resume_with_tls(tls_value(v & mask)),
            Ok(E::RequiresRelocatedAddress(a)) => ev.resume_with_relocated_address(a),
            Ok(E::RequiresMemory { address, size, space, base_type }) => {
                if space.is_some() || base_type.0 != 0 {
                    return EvalOut::OtherErr("memory with space/type".into());
                }
                ev.resume_with_memory(V::Generic(mem_value(address & mask, size)))
            }
            Ok(E::RequiresEntryValue(e)) => {
                if depth >= 4 {
                    return EvalOut::OtherErr("nesting".into());
                }
                match gimli_eval(e.0.slice(), le, enc, depth + 1) {
                    EvalOut::Addr(v) | EvalOut::Val(v) => ev.resume_with_entry_value(V::Generic(v)),
                    _ => return EvalOut::OtherErr("nested".into()),
                }
            }
            Ok(other) => return EvalOut::OtherErr(format!("unexpected request {other:?}")),
        };
        r = next;
    }
    let pieces = ev.result();
    if pieces.len() != 1 {
        return EvalOut::OtherErr(format!("{} pieces", pieces.len()));
    }
    let p = &pieces[0];
    if p.size_in_bits.is_some() || p.bit_offset.is_some() {
        return EvalOut::OtherErr("sized piece".into());
    }
    match p.location {
        gimli::Location::Address { address } => EvalOut::Addr(address & mask),
        gimli::Location::Value { value: gimli::Value::Generic(v) } => EvalOut::Val(v & mask),
        ref other => EvalOut::OtherErr(format!("location {other:?}")),
    }
}

// ================================================================ raw operations (harness encoder)

/// Operations for `Expression::raw`, encoded by the harness, incl. the fixed-size constant
/// forms that the builders never choose.
pub fn raw_op(kind: u64, v: u64, le: bool) -> RawOp {
    let fixed = |op: u8, n: usize, v: u64| -> Vec<u8> {
        let mut a = crate::asm::Asm::new(le);
        a.u8(op);
        a.uint(n, v);
        a.buf
    };
    match kind % 14 {
        0 => RawOp { bytes: vec![dw::DW_OP_nop.0], x: X::S("Nop") },
        1 => RawOp { bytes: vec![dw::DW_OP_lit0.0 + (v % 32) as u8], x: X::UConst(v % 32) },
        2 => RawOp { bytes: fixed(dw::DW_OP_const1u.0, 1, v), x: X::UConst(v & 0xff) },
        3 => RawOp { bytes: fixed(dw::DW_OP_const2u.0, 2, v), x: X::UConst(v & 0xffff) },
        4 => RawOp { bytes: fixed(dw::DW_OP_const4u.0, 4, v), x: X::UConst(v & 0xffff_ffff) },
        5 => RawOp { bytes: fixed(dw::DW_OP_const8u.0, 8, v), x: X::UConst(v) },
        6 => RawOp { bytes: fixed(dw::DW_OP_const1s.0, 1, v), x: X::SConst(v as u8 as i8 as i64) },
        7 => RawOp { bytes: fixed(dw::DW_OP_const2s.0, 2, v), x: X::SConst(v as u16 as i16 as i64) },
        8 => RawOp { bytes: fixed(dw::DW_OP_const4s.0, 4, v), x: X::SConst(v as u32 as i32 as i64) },
        9 => RawOp { bytes: fixed(dw::DW_OP_const8s.0, 8, v), x: X::SConst(v as i64) },
        10 => {
            let mut b = vec![dw::DW_OP_constu.0];
            b.extend(uleb_bytes(v));
            RawOp { bytes: b, x: X::UConst(v) }
        }
        11 => {
            let mut b = vec![dw::DW_OP_consts.0];
            b.extend(sleb_bytes(v as i64));
            RawOp { bytes: b, x: X::SConst(v as i64) }
        }
        12 => {
            let mut b = vec![dw::DW_OP_plus_uconst.0];
            b.extend(uleb_bytes(v));
            RawOp { bytes: b, x: X::PlusConstant(v) }
        }
        _ => RawOp { bytes: vec![dw::DW_OP_dup.0], x: X::Pick(0) },
    }
}

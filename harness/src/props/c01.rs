//! C01 — untrusted DWARF never panics, aborts, overflows the stack or hangs.
//!
//! Oracle: crash / step / limit monitors only (no expected values).  Every public entry
//! point (src/mon/ep_*.rs) is driven over: exhaustive short strings, valid seed sections,
//! every truncation / byte substitution / extreme-value injection of those (sampled above a
//! cap), splices, pathological shapes, random bytes, and a reader that starts failing at
//! every operation index.

use crate::asm::{Enc, Field};
use crate::gen::{mutate, seeds};
use crate::mon::entries::{FaultMk, Mk, Mon, PlainMk, Secs, P};
use crate::mon::{ep_cfi, ep_conv, ep_expr, ep_info, ep_misc};
use crate::props::PropInfo;
use crate::rt::{fnv, hex, mix64, Ctx, Rng};
use gimli::SectionId;
use serde_json::{json, Value};

pub fn info() -> PropInfo {
    PropInfo {
        id: "C01",
        level: "fault_enumeration",
        rule: "each case = (entry point, sections, caller parameters, optional reader-failure index). Families: (i) every byte string of length <=2 and length 3 over a 24-byte boundary alphabet, per entry point and input slot, alone and with valid companion sections; (ii)+(iii) valid seed sections (gimli::write output + hand-assembled sections + the generators of the other properties) and their mutations: every truncation point, single byte substitution over {0,1,0x7f,0x80,0xff} at every offset, in-place injection of ~36 extreme integers/LEB128s at every offset (strided above a per-slot cap: 2000 for the gimli::write/hand-assembled seeds, 700 for generator seeds), random splices; (iii-b) generator seeds (gen::info units with every form / unit kind and a realistic compilation unit with ranges, locations and a line program; gen::line v2-v5 headers with every opcode, VLIW and a mid-sequence set_address; gen::cfi .debug_frame/.eh_frame/.eh_frame_hdr with every CFA opcode, augmentations and pointer encodings; gen::lists every list flavour + .debug_addr + minimal unit; gen::index cu/tu index, names, aranges, pubnames/pubtypes, str_offsets, addr; gen::expr programs; encodings rotated over both byte orders, both formats, versions 2-5 and address sizes 1/2/4/8; each section a few hundred bytes) additionally get structure-aware mutations from the generator's field map: every field replaced by each hostile value of its kind (fixed-width extremes in the section's byte order, ~37 hostile LEB128 strings that may change the length), strings emptied / cut / unterminated, fields deleted / duplicated, truncation at every field boundary +-1; (iv) pathological shapes (100 KiB of 0x00/0x80/0xff, 50 000-deep DIE chain, nested entry_value, 10^5 zero aranges tuples, 4*10^5 zero .debug_frame bytes, .eh_frame_hdr with fde_count 2^63, unterminated macro list); (v) FaultSlice reader failing from operation k for every k up to the number of operations the entry performs (strided above a cap); random byte strings. Monitors: panic capture (any panic located in gimli or std on its behalf), per-iterator step bound 4*len+64 with errors ignored, 'documented sticky' iterators must return Ok(None) after an Err, worker death (stack overflow / abort / allocation failure under RLIMIT_AS) and stalls detected by the orchestrator through the per-case journal. Non-trivial = at least one input byte; distinct by digest of (entry, sections, parameters, failure index).",
        assumptions: &[
            "caller-supplied parameters stay inside their documented domains (address_size in {1,2,4,8}; Evaluation used per its documented protocol; an iteration limit is always set because an expression may legitimately loop for ever without one)",
            "EntriesRaw is used the documented way (stop at the first Err); the tree API's recursion is the caller's, so the harness caps tree depth at 400",
            "a per-case step budget bounds work on huge inputs; exhausting it is recorded, never a verdict",
        ],
        exhaustive_subspaces: &["byte strings of length <= 2 per (entry point, slot) (rel)", "length-3 strings over the 24-byte boundary alphabet (rel)", "all truncation points of every seed section <= 512 bytes"],
        must_observe: &[
            "entry.units", "entry.abbrevs", "entry.dwarf", "entry.line", "entry.aranges", "entry.tables", "entry.lists", "entry.pubs", "entry.names", "entry.index", "entry.macros",
            "entry.debug_frame", "entry.eh_frame", "entry.eh_frame_hdr", "entry.expr", "entry.conv.dwarf_from", "entry.conv.stepwise", "entry.conv.line", "entry.conv.frame",
            "family.short", "family.mut", "family.field", "family.splice", "family.patho", "family.fault", "family.rand", "ok_results", "err_results",
            "max:seeds.base", "max:seeds.gen.info", "max:seeds.gen.line", "max:seeds.gen.cfi", "max:seeds.gen.lists", "max:seeds.gen.index", "max:seeds.gen.expr",
        ],
        run,
    }
}

#[derive(Clone, Copy, PartialEq, Debug)]
pub enum Slot {
    Sec(SectionId),
    Expr,
}

pub struct Entry {
    pub name: &'static str,
    pub slots: &'static [Slot],
}

use Slot::{Expr, Sec};
use SectionId as S;

pub const ENTRIES: &[Entry] = &[
    Entry { name: "units", slots: &[Sec(S::DebugInfo), Sec(S::DebugAbbrev), Sec(S::DebugTypes)] },
    Entry { name: "abbrevs", slots: &[Sec(S::DebugAbbrev)] },
    Entry {
        name: "dwarf",
        slots: &[
            Sec(S::DebugInfo),
            Sec(S::DebugAbbrev),
            Sec(S::DebugStr),
            Sec(S::DebugLine),
            Sec(S::DebugRanges),
            Sec(S::DebugRngLists),
            Sec(S::DebugLoc),
            Sec(S::DebugLocLists),
            Sec(S::DebugAddr),
            Sec(S::DebugStrOffsets),
            Sec(S::DebugLineStr),
            Sec(S::DebugMacinfo),
            Sec(S::DebugMacro),
            Sec(S::DebugTypes),
        ],
    },
    Entry { name: "line", slots: &[Sec(S::DebugLine)] },
    Entry { name: "aranges", slots: &[Sec(S::DebugAranges)] },
    Entry { name: "tables", slots: &[Sec(S::DebugAddr), Sec(S::DebugStrOffsets), Sec(S::DebugStr), Sec(S::DebugLineStr)] },
    Entry { name: "lists", slots: &[Sec(S::DebugRanges), Sec(S::DebugRngLists), Sec(S::DebugLoc), Sec(S::DebugLocLists), Sec(S::DebugAddr)] },
    Entry { name: "pubs", slots: &[Sec(S::DebugPubNames), Sec(S::DebugPubTypes)] },
    Entry { name: "names", slots: &[Sec(S::DebugNames), Sec(S::DebugStr)] },
    Entry { name: "index", slots: &[Sec(S::DebugCuIndex), Sec(S::DebugTuIndex), Sec(S::DebugInfo)] },
    Entry { name: "macros", slots: &[Sec(S::DebugMacinfo), Sec(S::DebugMacro)] },
    Entry { name: "debug_frame", slots: &[Sec(S::DebugFrame)] },
    Entry { name: "eh_frame", slots: &[Sec(S::EhFrame)] },
    Entry { name: "eh_frame_hdr", slots: &[Sec(S::EhFrameHdr), Sec(S::EhFrame)] },
    Entry { name: "expr", slots: &[Expr] },
    Entry {
        name: "conv.dwarf_from",
        slots: &[Sec(S::DebugInfo), Sec(S::DebugAbbrev), Sec(S::DebugLine), Sec(S::DebugRanges), Sec(S::DebugRngLists), Sec(S::DebugLoc), Sec(S::DebugLocLists), Sec(S::DebugStr), Sec(S::DebugLineStr)],
    },
    Entry { name: "conv.stepwise", slots: &[Sec(S::DebugInfo), Sec(S::DebugAbbrev), Sec(S::DebugLine), Sec(S::DebugRngLists), Sec(S::DebugLocLists)] },
    Entry { name: "conv.line", slots: &[Sec(S::DebugLine), Sec(S::DebugLineStr)] },
    Entry { name: "conv.frame", slots: &[Sec(S::DebugFrame), Sec(S::EhFrame)] },
];

pub fn dispatch<'a, M: Mk<'a>>(name: &str, m: &M, s: &'a Secs, p: &P, mon: &mut Mon) {
    match name {
        "units" => ep_info::units(m, s, p, mon),
        "abbrevs" => ep_info::abbrevs(m, s, p, mon),
        "dwarf" => ep_info::dwarf(m, s, p, mon),
        "line" => ep_misc::line(m, s, p, mon),
        "aranges" => ep_misc::aranges(m, s, p, mon),
        "tables" => ep_misc::tables(m, s, p, mon),
        "lists" => ep_misc::lists(m, s, p, mon),
        "pubs" => ep_misc::pubs(m, s, p, mon),
        "names" => ep_misc::names(m, s, p, mon),
        "index" => ep_misc::index(m, s, p, mon),
        "macros" => ep_misc::macros(m, s, p, mon),
        "debug_frame" => ep_cfi::debug_frame(m, s, p, mon),
        "eh_frame" => ep_cfi::eh_frame(m, s, p, mon),
        "eh_frame_hdr" => ep_cfi::eh_frame_hdr(m, s, p, mon),
        "expr" => ep_expr::expr(m, s, p, mon),
        "conv.dwarf_from" => ep_conv::dwarf_from(m, s, p, mon),
        "conv.stepwise" => ep_conv::dwarf_stepwise(m, s, p, mon),
        "conv.line" => ep_conv::line_convert(m, s, p, mon),
        "conv.frame" => ep_conv::frame_convert(m, s, p, mon),
        _ => {}
    }
}

pub(crate) fn slot_get<'a>(s: &'a Secs, slot: Slot) -> &'a [u8] {
    match slot {
        Sec(id) => s.get(id),
        Expr => &s.expr,
    }
}

pub(crate) fn slot_set(s: &mut Secs, slot: Slot, b: Vec<u8>) {
    match slot {
        Sec(id) => s.set(id, b),
        Expr => s.expr = b,
    }
}

pub(crate) fn slot_name(slot: Slot) -> &'static str {
    match slot {
        Sec(id) => id.name(),
        Expr => "expr",
    }
}

fn restrict(s: &Secs, e: &Entry) -> Value {
    let mut m = serde_json::Map::new();
    for slot in e.slots {
        let b = slot_get(s, *slot);
        if !b.is_empty() {
            m.insert(slot_name(*slot).to_string(), json!(hex(b)));
        }
    }
    Value::Object(m)
}

/// Execute one case.  Returns the number of reader operations performed (fault runs only).
pub fn run_case(ctx: &mut Ctx, e: &Entry, s: &Secs, p: P, fault: Option<u64>, family: &str, desc: &str) -> u64 {
    ctx.eval();
    ctx.obs(&format!("entry.{}", e.name));
    ctx.obs(&format!("family.{family}"));
    let budget = if ctx.dbg() { 600_000 } else { 3_000_000 };
    let endian = p.enc.endian();
    let r = ctx.guard_raw(e.name, || {
        let mut mon = Mon::new(budget);
        let mut ops = 0u64;
        match fault {
            None => dispatch(e.name, &PlainMk(endian), s, &p, &mut mon),
            Some(k) => {
                let m = FaultMk::new(endian, k);
                dispatch(e.name, &m, s, &p, &mut mon);
                ops = m.state.count.get();
            }
        }
        (mon, ops)
    });
    let input = || {
        json!({"entry": e.name, "family": family, "mutation": desc, "enc": p.enc.label(), "dwo": p.dwo, "aarch64": p.aarch64, "seed": p.seed,
               "fail_from_op": fault, "sections": restrict(s, e)})
    };
    match r {
        Ok((mon, ops)) => {
            ctx.obs_n("ok_results", mon.oks);
            ctx.obs_n("err_results", mon.errs);
            ctx.obs_max("steps_per_case", mon.steps);
            if mon.budget_exhausted {
                ctx.obs("step_budget_exhausted");
            }
            for (sig, what) in &mon.problems {
                // which family refutes what (used to judge the exploration on seeded defects)
                ctx.obs(&format!("hit.{family}|{sig}"));
                let replay = json!({"entry": e.name, "input": input()});
                ctx.violation(sig, &format!("{} [entry {}]", what, e.name), replay);
            }
            let nontrivial = e.slots.iter().any(|sl| !slot_get(s, *sl).is_empty());
            if nontrivial {
                let mut h = fnv(e.name.as_bytes());
                for sl in e.slots {
                    h = crate::rt::fnv_add(h, slot_get(s, *sl));
                }
                h = mix64(h ^ fnv(p.enc.label().as_bytes()) ^ ((p.dwo as u64) << 1) ^ (p.aarch64 as u64) ^ p.seed.rotate_left(17) ^ fault.map(|k| mix64(k + 1)).unwrap_or(0));
                ctx.nontrivial(h);
            }
            ops
        }
        Err(pi) => {
            let file = pi.file.rsplit('/').next().unwrap_or("?").to_string();
            ctx.obs(&format!("hit.{family}|panic|{}:{}", file, pi.line));
            ctx.report_panic2("*", e.name, &pi, &input);
            0
        }
    }
}

fn params(r: &mut Rng, enc: Enc) -> P {
    P { enc, dwo: r.chance(1, 4), aarch64: r.chance(1, 3), seed: r.next() }
}

// ---------------------------------------------------------------- seeds

pub struct Seed {
    pub name: String,
    pub enc: Enc,
    pub secs: Secs,
    /// where the seed comes from: "base" (gimli::write + hand-assembled) or "gen.<generator>"
    pub origin: &'static str,
    /// field maps of the slots for which the generator recorded one (structure-aware mutations)
    pub fields: Vec<(Slot, Vec<Field>)>,
    /// entry points whose behaviour depends on this seed's sections (empty = every entry
    /// point that has one of the seed's slots)
    pub entries: &'static [&'static str],
}

impl Seed {
    pub fn base(name: String, enc: Enc, secs: Secs) -> Seed {
        Seed { name, enc, secs, origin: "base", fields: vec![], entries: &[] }
    }
    pub fn wants(&self, e: &Entry) -> bool {
        self.entries.is_empty() || self.entries.contains(&e.name)
    }
    pub fn is_base(&self) -> bool {
        self.origin == "base"
    }
}

fn merge(a: &mut Secs, b: Secs) {
    for (k, v) in b.map {
        a.map.entry(k).or_insert(v);
    }
    if a.expr.is_empty() {
        a.expr = b.expr;
    }
}

/// The seed pool for this run (deterministic in `ctx.seed`).
pub(crate) fn seed_pool(ctx: &Ctx) -> Vec<Seed> {
    let mut out = vec![];
    let all = Enc::all();
    let n_enc = if ctx.quick() { 16 } else { 64 };
    let mut order: Vec<usize> = (0..all.len()).collect();
    Rng::new(mix64(ctx.seed ^ 0x5eed)).shuffle(&mut order);
    // make sure both formats, both endians, all versions and address sizes appear
    for (k, &i) in order.iter().take(n_enc).enumerate() {
        let enc = all[i];
        let mut r = Rng::new(mix64(ctx.seed ^ (i as u64) << 8));
        let mut secs = Secs::default();
        if let Some(d) = seeds::dwarf_seed(enc, &mut r) {
            merge(&mut secs, d);
        }
        merge(&mut secs, seeds::frame_seed(enc, &mut r));
        merge(&mut secs, seeds::misc_seed(enc, &mut r));
        let ex = seeds::expr_seeds(enc);
        for (j, e) in ex.into_iter().enumerate() {
            let mut s2 = if j == 0 { secs.clone() } else { Secs::default() };
            s2.expr = e;
            out.push(Seed::base(format!("s{k}e{j}"), enc, s2));
        }
    }
    out.extend(crate::props::c01_extra::extra_seeds(ctx));
    out
}

// ---------------------------------------------------------------- families

const ALPHA24: [u8; 24] = [0x00, 0x01, 0x02, 0x03, 0x04, 0x05, 0x08, 0x0c, 0x10, 0x21, 0x3f, 0x40, 0x7f, 0x80, 0x81, 0x9f, 0xa3, 0xc0, 0xf0, 0xfb, 0xfd, 0xfe, 0xfe, 0xff];

fn short_string(i: u64) -> Vec<u8> {
    if i == 0 {
        vec![]
    } else if i < 257 {
        vec![(i - 1) as u8]
    } else if i < 257 + 65536 {
        let k = i - 257;
        vec![(k >> 8) as u8, k as u8]
    } else {
        let k = (i - 257 - 65536) as usize;
        vec![ALPHA24[k / 576], ALPHA24[(k / 24) % 24], ALPHA24[k % 24]]
    }
}
const N_SHORT: u64 = 257 + 65536 + 24 * 24 * 24;

fn family_short(ctx: &mut Ctx, pool: &[Seed]) {
    let companion = pool.first().map(|s| s.secs.clone()).unwrap_or_default();
    let comp_enc = pool.first().map(|s| s.enc).unwrap_or(Enc::nth(0));
    // dbg: a 1/16 slice of the 2- and 3-byte strings chosen by the seed
    let slice = ctx.seed % 16;
    for e in ENTRIES {
        for slot in e.slots.iter().take(3) {
            for mode in 0..2u64 {
                if mode == 1 && e.slots.len() == 1 {
                    continue;
                }
                let stream = format!("short.{}.{}.{}", e.name, slot_name(*slot), mode);
                for i in 0..N_SHORT {
                    if (ctx.dbg() || ctx.quick()) && i >= 257 {
                        let div = if ctx.dbg() { 16 } else { 2 };
                        if i % div != slice % div {
                            continue;
                        }
                    }
                    if !ctx.want(&stream, i) {
                        continue;
                    }
                    let mut s = if mode == 1 { companion.clone() } else { Secs::default() };
                    slot_set(&mut s, *slot, short_string(i));
                    let enc = if mode == 1 { comp_enc } else { Enc::nth(mix64(i ^ fnv(stream.as_bytes()))) };
                    let p = P { enc, dwo: i % 5 == 0, aarch64: i % 3 == 0, seed: mix64(i) };
                    run_case(ctx, e, &s, p, None, "short", "short string");
                    if i == 300 {
                        let b = short_string(i);
                        ctx.sample("short", || json!({"entry": e.name, "slot": slot_name(*slot), "bytes": hex(&b)}));
                    }
                }
            }
        }
    }
}

fn family_mut(ctx: &mut Ctx, pool: &[Seed]) {
    let cap_base: u64 = ctx.size(2000, 20_000, 5);
    // generator seeds are small and also get the structure-aware family: a lower blind cap
    let cap_gen: u64 = ctx.size(700, 6_000, 5);
    for seed in pool {
        let cap = if seed.is_base() { cap_base } else { cap_gen };
        for e in ENTRIES {
            if !seed.wants(e) {
                continue;
            }
            for slot in e.slots {
                let base = slot_get(&seed.secs, *slot).to_vec();
                if base.is_empty() {
                    continue;
                }
                let total = mutate::count(base.len());
                let stream = format!("mut.{}.{}.{}", seed.name, e.name, slot_name(*slot));
                // all truncations for small sections; the rest strided to `cap` cases with a
                // seed-dependent phase so that different VERIF_SEEDs cover different offsets
                let trunc = base.len() as u64 + 1;
                let stride = ((total - trunc) / cap).max(1);
                let phase = mix64(ctx.seed ^ fnv(stream.as_bytes())) % stride;
                let mut k = 0u64;
                while k < total {
                    let take = if k < trunc { base.len() <= 512 || k % ((trunc / 256).max(1)) == 0 } else { (k - trunc) % stride == phase };
                    if take && ctx.want(&stream, k) {
                        let (bytes, desc) = mutate::nth(&base, k);
                        let mut s = seed.secs.clone();
                        slot_set(&mut s, *slot, bytes);
                        let mut r = ctx.rng(&stream, k);
                        let p = params(&mut r, seed.enc);
                        run_case(ctx, e, &s, p, None, "mut", &desc);
                        if k == trunc + phase {
                            ctx.sample("mut", || json!({"entry": e.name, "seed": seed.name, "slot": slot_name(*slot), "mutation": desc, "enc": seed.enc.label()}));
                        }
                    }
                    k += 1;
                }
            }
        }
    }
}

/// Structure-aware mutations: every recorded field of a generator seed replaced by each
/// hostile value of its kind (fixed-width extremes in the seed's byte order, hostile
/// LEB128s that may change the length), and truncation at every field boundary +-1.
/// Stream "field.<seed>.<entry>.<slot>", index = position in `mutate::field_mutations_ext`.
fn family_field(ctx: &mut Ctx, pool: &[Seed]) {
    // not divided in the dbg profile: arithmetic overflow is only observable there, and the
    // field substitutions are the cases that aim at it
    let cap: u64 = ctx.size(2500, 40_000, 1);
    for seed in pool {
        for (slot, fields) in &seed.fields {
            let base = slot_get(&seed.secs, *slot).to_vec();
            if base.is_empty() || fields.is_empty() {
                continue;
            }
            let mut muts: Option<Vec<(Vec<u8>, String)>> = None;
            for e in ENTRIES {
                if !seed.wants(e) || !e.slots.contains(slot) {
                    continue;
                }
                let stream = format!("field.{}.{}.{}", seed.name, e.name, slot_name(*slot));
                let all = muts.get_or_insert_with(|| mutate::field_mutations_ext(&base, fields, seed.enc.le));
                let total = all.len() as u64;
                let stride = (total / cap).max(1);
                let phase = mix64(ctx.seed ^ fnv(stream.as_bytes())) % stride;
                let mut k = phase;
                while k < total {
                    if ctx.want(&stream, k) {
                        let (bytes, desc) = &all[k as usize];
                        let mut s = seed.secs.clone();
                        slot_set(&mut s, *slot, bytes.clone());
                        let mut r = ctx.rng(&stream, k);
                        let p = params(&mut r, seed.enc);
                        run_case(ctx, e, &s, p, None, "field", desc);
                        if k == phase {
                            ctx.sample("field", || json!({"entry": e.name, "seed": seed.name, "slot": slot_name(*slot), "mutation": desc, "enc": seed.enc.label(), "fields": fields.len(), "mutations": total}));
                        }
                    }
                    k += stride;
                }
            }
        }
    }
}

fn family_splice(ctx: &mut Ctx, pool: &[Seed]) {
    if pool.len() < 2 {
        return;
    }
    let n = ctx.size(200_000, 2_000_000, 8);
    for i in 0..n {
        if !ctx.want("splice", i) {
            continue;
        }
        let mut r = ctx.rng("splice", i);
        let a = &pool[r.usize(pool.len())];
        let b = &pool[r.usize(pool.len())];
        let e = &ENTRIES[r.usize(ENTRIES.len())];
        let slot = *r.pick(e.slots);
        let (x, y) = (slot_get(&a.secs, slot), slot_get(&b.secs, slot));
        if x.is_empty() && y.is_empty() {
            continue;
        }
        let mut s = a.secs.clone();
        slot_set(&mut s, slot, mutate::splice(x, y, &mut r));
        let enc = if r.bool() { a.enc } else { b.enc };
        let p = params(&mut r, enc);
        run_case(ctx, e, &s, p, None, "splice", "splice of two seeds");
    }
}

fn family_rand(ctx: &mut Ctx) {
    let n = ctx.size(400_000, 4_000_000, 8);
    for i in 0..n {
        if !ctx.want("rand", i) {
            continue;
        }
        let mut r = ctx.rng("rand", i);
        let e = &ENTRIES[r.usize(ENTRIES.len())];
        let mut s = Secs::default();
        for slot in e.slots {
            if r.chance(2, 3) {
                let len = r.small(96) as usize;
                let mut b = r.bytes(len);
                // bias towards small numbers / LEB terminators so that headers parse further
                for x in b.iter_mut() {
                    if r.chance(1, 2) {
                        *x = *r.pick(&[0u8, 1, 2, 3, 4, 5, 8, 0x0b, 0x10, 0x7f, 0x80, 0xff]);
                    }
                }
                slot_set(&mut s, *slot, b);
            }
        }
        let enc = Enc::random(&mut r);
        let p = params(&mut r, enc);
        run_case(ctx, e, &s, p, None, "rand", "random bytes");
    }
}

/// Pathological shapes run as isolated cases: stream "iso.patho.<shape>", index = entry index.
pub const ALL_ENTRIES: u64 = 1000;

/// Shapes whose conversion is known to be able to kill the process get one process per
/// entry point; the others one process per shape (index ALL_ENTRIES).
fn per_entry_shape(name: &str) -> bool {
    matches!(name, "deep_die_chain" | "nested_entry_value")
}

pub fn isolated_cases(_quick: bool, seed: u64) -> Vec<(String, u64)> {
    let mut out = vec![];
    let mut which = 0usize;
    loop {
        let enc = Enc::nth(mix64(seed ^ which as u64));
        let Some((name, s)) = seeds::pathological(which, enc) else { break };
        if per_entry_shape(name) {
            for (ei, e) in ENTRIES.iter().enumerate() {
                if e.slots.iter().any(|sl| !slot_get(&s, *sl).is_empty()) {
                    out.push((format!("iso.patho.{name}"), ei as u64));
                }
            }
        } else {
            out.push((format!("iso.patho.{name}"), ALL_ENTRIES));
        }
        which += 1;
    }
    out
}

fn family_patho(ctx: &mut Ctx) {
    let Some((only_stream, only_idx)) = ctx.only.clone() else { return };
    if !only_stream.starts_with("iso.patho.") {
        return;
    }
    let mut which = 0usize;
    loop {
        let enc = Enc::nth(mix64(ctx.seed ^ which as u64));
        let Some((name, s)) = seeds::pathological(which, enc) else { break };
        let stream = format!("iso.patho.{name}");
        if stream == only_stream {
            for (ei, e) in ENTRIES.iter().enumerate() {
                if only_idx != ALL_ENTRIES && only_idx != ei as u64 {
                    continue;
                }
                if !e.slots.iter().any(|sl| !slot_get(&s, *sl).is_empty()) {
                    continue;
                }
                // set the current case for the journal / replay records
                let _ = ctx.want(&stream, only_idx);
                let p = P { enc, dwo: which % 2 == 1, aarch64: false, seed: ei as u64 };
                run_case(ctx, e, &s, p, None, "patho", name);
                ctx.sample("patho", || json!({"entry": e.name, "shape": name, "enc": enc.label()}));
            }
        }
        which += 1;
    }
}

fn family_fault(ctx: &mut Ctx, pool: &[Seed]) {
    let cap: u64 = ctx.size(600, 4000, 4);
    for seed in pool {
        for e in ENTRIES {
            if !seed.wants(e) || !e.slots.iter().any(|sl| !slot_get(&seed.secs, *sl).is_empty()) {
                continue;
            }
            let stream = format!("fault.{}.{}", seed.name, e.name);
            // measure the number of reader operations with an infallible FaultSlice; cheap
            // enough to repeat on every shard, and only needed if this shard owns a case
            let mut ops: Option<u64> = None;
            let mut k = 0u64;
            loop {
                let n_ops = match ops {
                    Some(n) => n,
                    None => {
                        // does this shard own any index in the first `cap` strides?  decide after measuring
                        let p = P { enc: seed.enc, dwo: false, aarch64: false, seed: 7 };
                        let n = {
                            let before = ctx.evaluations;
                            let o = run_case_silent(e, &seed.secs, p);
                            let _ = before;
                            o
                        };
                        ops = Some(n);
                        n
                    }
                };
                if k >= n_ops {
                    break;
                }
                let stride = (n_ops / cap).max(1);
                if ctx.want(&stream, k) {
                    let p = P { enc: seed.enc, dwo: false, aarch64: false, seed: 7 };
                    run_case(ctx, e, &seed.secs, p, Some(k), "fault", "reader fails from operation k");
                    if k == 0 {
                        ctx.sample("fault", || json!({"entry": e.name, "seed": seed.name, "reader_ops_total": n_ops, "stride": stride}));
                    }
                }
                k += stride;
            }
        }
    }
}

/// Count reader operations of an entry point (no monitoring; panics are caught and ignored
/// here because the same input is also run, monitored, by the mutation family's identity case).
fn run_case_silent(e: &Entry, s: &Secs, p: P) -> u64 {
    let m = FaultMk::new(p.enc.endian(), u64::MAX);
    let _ = crate::rt::capture(|| {
        let mut mon = Mon::new(3_000_000);
        dispatch(e.name, &m, s, &p, &mut mon);
    });
    m.state.count.get()
}

pub fn run(ctx: &mut Ctx) {
    if let Some((st, _)) = &ctx.only {
        if st.starts_with("iso.patho.") {
            family_patho(ctx);
            return;
        }
    }
    let t = std::time::Instant::now();
    let pool = seed_pool(ctx);
    ctx.obs_n("seed_pool", pool.len() as u64);
    {
        // per-origin seed counts and largest mutated section (merged over shards by maximum)
        let mut counts: std::collections::BTreeMap<&'static str, u64> = Default::default();
        for sd in &pool {
            *counts.entry(sd.origin).or_insert(0) += 1;
            let largest = sd.fields.iter().map(|(sl, _)| slot_get(&sd.secs, *sl).len()).max().unwrap_or(0);
            ctx.obs_max(&format!("seed_section_bytes.{}", sd.origin), largest as u64);
        }
        for (o, n) in counts {
            ctx.obs_max(&format!("seeds.{o}"), n);
        }
    }
    if ctx.shard == 0 && ctx.only.is_none() && std::env::var_os("GV_C01_DEBUG_SEEDS").is_some() {
        crate::props::c01_extra::debug_seed_conversions(&pool);
    }
    if ctx.shard == 0 && ctx.only.is_none() {
        // how deep the unmutated generator seeds parse: Ok / Err results per origin and entry
        // (evidence that the seeds are valid enough to reach the code behind the headers)
        for sd in pool.iter().filter(|s| !s.is_base()) {
            for e in ENTRIES {
                if !sd.wants(e) || !e.slots.iter().any(|sl| !slot_get(&sd.secs, *sl).is_empty()) {
                    continue;
                }
                let p = P { enc: sd.enc, dwo: false, aarch64: false, seed: 7 };
                if let Ok(mon) = crate::rt::capture(|| {
                    let mut mon = Mon::new(600_000);
                    dispatch(e.name, &PlainMk(p.enc.endian()), &sd.secs, &p, &mut mon);
                    mon
                }) {
                    ctx.obs_n(&format!("seed_oks.{}.{}", sd.origin, e.name), mon.oks);
                    ctx.obs_n(&format!("seed_errs.{}.{}", sd.origin, e.name), mon.errs);
                }
            }
        }
    }
    let mut lap = |ctx: &mut Ctx, name: &str, t0: &mut std::time::Instant| {
        ctx.obs_n(&format!("ms.{name}"), t0.elapsed().as_millis() as u64);
        *t0 = std::time::Instant::now();
    };
    let mut t0 = t;
    lap(ctx, "seed_pool", &mut t0);
    crate::props::c01_extra::regressions(ctx);
    lap(ctx, "regress", &mut t0);
    family_mut(ctx, &pool);
    lap(ctx, "mut", &mut t0);
    family_field(ctx, &pool);
    lap(ctx, "field", &mut t0);
    family_fault(ctx, &pool);
    lap(ctx, "fault", &mut t0);
    family_splice(ctx, &pool);
    lap(ctx, "splice", &mut t0);
    family_rand(ctx);
    lap(ctx, "rand", &mut t0);
    family_short(ctx, &pool);
    lap(ctx, "short", &mut t0);
    crate::props::c01_fuzz::family_fuzzart(ctx);
    lap(ctx, "fuzzart", &mut t0);
}

//! C11 — written units read back as the same forest with every reference intact.
//!
//! Oracle: the model in `gen/wr.rs` (forest in written order, identity attribute on every
//! entry, classification of unencodable requests, independent expression encoder).  The
//! sections produced by `gimli::write` are read back with `gimli::read::Dwarf`
//! (`entries_raw`, so that null entries and attribute positions are visible) and compared
//! entry by entry, attribute by attribute, reference by reference.

use crate::asm::Enc;
use crate::gen::wr::{self, gen::GenOpts, AddrMode, AddrSpec, AttrSpec, CaseSpec, Cls, EntrySpec, Expect, LListSpec, LineSpec, Offs, RListSpec, SeqSpec, UnitSpec, ValSpec, XOp, XSpec, ID_AT};
use crate::props::PropInfo;
use crate::rt::{fnv, hex, Ctx, Rng};
use gimli::constants as dw;
use gimli::write as w;
use serde_json::json;
use std::collections::BTreeMap;

#[path = "c11_order.rs"]
pub mod order;
#[path = "c11_shape.rs"]
pub mod shape;

pub fn info() -> PropInfo {
    PropInfo {
        id: "C11",
        level: "exploration",
        rule: "Five streams. `cat`: complete enumeration of 64 encodings (versions 2-5 x Dwarf32/64 x address sizes 1/2/4/8 x both byte orders) x every write::AttributeValue variant (40, incl. DebugInfoRef::Symbol) x 4 payload variants (boundary values), the attribute placed on an entry that precedes a referenced entry (UnitRef from the root, DebugInfoRef from a second unit, sibling pointers on), written with Dwarf::write, and for variants that do not need a second unit also with DwarfUnit::write. `rand`: seeded models of 1-4 units (independent encodings, shared byte order), trees of 1-200 entries (flat / chain / bushy shapes), entries created through add or reserve..add_reserved (reserved at an earlier step), reserved-never-added ids, optional deleted sub-tree, DW_TAG_base_type entries anywhere among the root's children, sibling flags, 0-18 attributes per entry drawn from all 40 value kinds with boundary payloads (attribute names chosen so that the reader's interpretation is defined), references forward/backward/self/cross-unit, attribute expressions (30 operation builders incl. typed ULEB references to earlier entries, call4, call_ref, implicit_pointer, entry_value, skip/bra) and location-list expressions (ULEB references in both directions), 0-3 range and 0-3 location lists per unit incl. exact duplicates and shared use, .debug_str/.debug_line_str pools with duplicates, optional line program (1-5 files, 1-2 sequences, string forms inline/strp/line_strp in v5, format possibly differing from the unit's); 25% of the cases get one injected unencodable item (address or offset too large for its field, 256-byte typed constant, forward ULEB reference, reference to a deleted entry, LineProgramRef without program, DebugInfoRef::Symbol, unit version 1/6, symbolic address with the plain writer). Every case is written into Sections<EndianVec>; the Ok/Err outcome is compared with the model's classification; on Ok the sections are read back with read::Dwarf and compared: unit headers, forest (tag, depth, order incl. base types first), attribute names, raw and normalised values, references by identity of the target entry, sibling pointers (next sibling or the parent's null entry), strings through attr_string, lists through attr_ranges/attr_locations (expression bytes from the harness encoder), DW_AT_stmt_list and LineProgramRef through the unit's line program (files and rows), FileIndex through the line header. `shape` (abbreviation sharing): enumeration of 64 encodings x 39 value kinds x run lengths 2-6 (quick: one run length per encoding and kind, all five for ImplicitConst; thorough: all, three seeds each): under one parent a run of 2-6 sibling entries of identical shape (tag, no children, attribute names and forms: identity, the kind under test, an ImplicitConst, sometimes a fourth attribute, in a seeded order) with pairwise different values of the kind under test and pairwise different constants, plus an exact duplicate, an entry with the same constant but another main value and one with the same main value but another constant; mixed in (contiguous or shuffled) 1-2 entries for each of seven near misses that differ from the run in exactly one shape component (tag only, children flag only, sibling attribute only, one form only, attribute order only, one attribute name only, attribute count) and partly repeat the run's values; 2-3 cousins of the run plus near misses under a second parent of the same shape; a referenced entry after all of them; every sixteenth case puts 130 entries of pairwise different shape first so that the run gets two-byte abbreviation codes; one third of the cases has a second unit (half of them of another version) built the same way with other values and references in both directions. These cases are written with Dwarf::write and judged by the same read-back oracle (a merged abbreviation shows as a wrong constant, tag, nesting or attribute list); the number of abbreviation declarations is compared with the model's number of distinct shapes only as a secondary observation. `ordcat` and `order` (write order): a model M that the converter maps back to the same request (see assumptions) is written with Dwarf::write into S0, S0 is verified against M, then S0 is read and re-emitted through write::Dwarf::convert -> read_unit -> ConvertUnit::convert with ConvertUnit::write called for a subset of the units right after their conversion and Dwarf::write at the end, once per subset policy {none, all, first only, last only, even positions, odd positions, seeded random subset} (identical subsets once); the final sections of every policy are verified against the same M with the same oracle (forest, attribute meanings, every reference by identity of the target incl. cross-unit DebugInfoRef in both directions and references from attribute expressions and location-list expressions in .debug_loc and .debug_loclists, strings, lists, line programs), the units being expected in .debug_info in the order incrementally written units first; a write error on this path is a violation, a converter error skips the case. Each such model is also re-emitted once with one seeded unit dropped through ConvertUnit::skip and the others written late, incrementally or mixed: when nothing refers to the dropped unit the result must read back as M without that unit, when something does the request is unencodable and Ok is a violation (a refusal is expected; the pinned tree panics instead, see assumptions). `ordcat` enumerates 64 encodings x 4 variants of a fixed three-unit model (units of different version and format, every unit refers to both others from an attribute, an attribute expression and a location list); `order` uses seeded models of 2-4 units (1 in 12% of the cases) with additional cross-unit references. A case is non-trivial when it has at least 2 entries or one non-identity attribute; distinct cases are counted by a digest of the complete case description.",
        assumptions: &[
            "forms newer than the unit version (data16, line_strp, strp_sup, ref_sup in v2-4) are written by the pinned tree and read back fine; they are classified encodable because the output is neither corrupt nor ambiguous",
            "the chosen DW_FORM is only a secondary observation (secondary.form_differs), the verdict is on the read-back meaning",
            "attribute names are chosen per value kind so that read::Attribute::value() has a defined interpretation (e.g. section offsets only under the names DWARF 2/3 allows as loclistptr/rangelistptr/lineptr/macptr)",
            "FileIndex(None) only has to read back as an unsigned constant",
            "a version 2 DW_FORM_ref_addr / DW_OP_implicit_pointer in a unit with address size 1 or 2 is address sized; when the model cannot prove that every offset fits (upper bound of the section size), Ok with a correct read-back and Err(ValueTooLarge) are both accepted (outcome.unjudged)",
            "range/location lists use shapes that every version can encode (C16 judges list encodability); ranges are kept away from 0 and from the tombstone values so that the resolved iterators report all of them",
            "DwarfUnit::write is used for single-unit cases without cross-unit references (the API hands out no UnitId)",
            "incremental per-unit writing is only reachable through the conversion API, so the write-order streams re-emit sections that Dwarf::write produced; their models are restricted to requests the converter maps back unchanged (no raw expression bytes, no DW_OP_piece size >= 2^60, no DW_OP_deref_size of the address size, constants only under DW_AT_const_value / discr_value / alignment / vendor names, expressions only under names the reader treats as expressions in versions 2-3 and not DW_AT_vtable_elem_location, no sibling flag on the root, no line sequence without rows, no version 5 FileIndex without a line program, no symbolic addresses, no injected unencodable item); whether the converter is faithful outside that subset is C12's question; a ConvertError skips the case (order.convert_err)",
            "with incremental writes the units are expected in .debug_info in the order they were written (incrementally written units first, in conversion order, then the others)",
            "open finding, skipped by exact signature (c11_order.rs SKIP_KNOWN_PANIC_REF_TO_SKIPPED_UNIT, counted as order.skip.known_panic, GV_C11_STRICT=1 reports it): a reference to an entry of a unit dropped with ConvertUnit::skip makes Dwarf::write panic (index out of bounds in UnitOffsets::debug_info_offset, src/write/unit.rs) instead of returning Error::InvalidReference",
            "abbreviation sharing itself is not demanded: the number of declarations per table is a secondary observation (abbrev.count_as_model / secondary.abbrev_count_differs)",
            "String payloads are NUL-free, Unit::reserve ids used in references are always added later (documented preconditions)",
        ],
        exhaustive_subspaces: &[
            "64 encodings x 40 attribute value variants x 4 payload variants, attribute placed before a referenced entry (stream `cat`, both profiles)",
            "64 encodings x 4 variants of the three-unit cross-reference model x 7 incremental-write subset policies (stream `ordcat`, both profiles)",
            "thorough: 64 encodings x 39 value kinds x run lengths 2-6 of same-shape entries with the seven one-component near misses (stream `shape`)",
        ],
        must_observe: MUST,
        run,
    }
}

const MUST: &[&str] = &[
    "outcome.ok", "outcome.err", "outcome.unjudged",
    "cls.TooLarge", "cls.ForwardUleb", "cls.DeletedTarget", "cls.NoLineProgram", "cls.SymbolRef", "cls.SymbolicAddress", "cls.BadVersion",
    "ver.2", "ver.3", "ver.4", "ver.5", "addr.1", "addr.2", "addr.4", "addr.8", "fmt.32", "fmt.64", "endian.le", "endian.be",
    "mode.dwarf", "mode.dwarf_unit", "units.multi",
    "kind.Address", "kind.Block", "kind.Data1", "kind.Data2", "kind.Data4", "kind.Data8", "kind.Data16", "kind.Sdata", "kind.Udata", "kind.ImplicitConst",
    "kind.Exprloc", "kind.Flag", "kind.FlagPresent", "kind.UnitRef", "kind.DebugInfoRef", "kind.DebugInfoRefSup", "kind.LineProgramRef",
    "kind.LocationListRef", "kind.DebugMacinfoRef", "kind.DebugMacroRef", "kind.RangeListRef", "kind.DebugTypesRef", "kind.StringRef",
    "kind.DebugStrRefSup", "kind.LineStringRef", "kind.String", "kind.Encoding", "kind.DecimalSign", "kind.Endianity", "kind.Accessibility",
    "kind.Visibility", "kind.Virtuality", "kind.Language", "kind.AddressClass", "kind.IdentifierCase", "kind.CallingConvention", "kind.Inline",
    "kind.Ordering", "kind.FileIndex",
    "ref.unit.forward", "ref.unit.backward", "ref.unit.self", "ref.info.cross_forward", "ref.info.cross_backward", "ref.info.same_unit",
    "ref.to_reserved", "entry.reserved", "entry.phantom_reserved", "entry.deleted", "basetype.moved", "sibling.next", "sibling.parent_null", "sibling.root",
    "strings.dup", "lists.shared", "lists.dup", "line.program", "line.rows", "line.fileindex", "expr.uleb_ref", "expr.info_ref", "expr.in_list", "expr.branch", "expr.entry_value",
    "tree.big", "tree.depth5",
    // abbreviation sharing (stream `shape`)
    "shape.run.2", "shape.run.3", "shape.run.4", "shape.run.5", "shape.run.6", "shape.ver.2", "shape.ver.3", "shape.ver.4", "shape.ver.5",
    "shape.near.tag", "shape.near.children", "shape.near.sibling", "shape.near.form", "shape.near.order", "shape.near.name", "shape.near.count",
    "shape.cousins", "shape.const.different", "shape.const.equal", "shape.units2", "shape.units2.mixed_versions", "shape.many_shapes", "shape.mixed", "shape.contiguous",
    "shape.kind.Address", "shape.kind.Block", "shape.kind.Data1", "shape.kind.Data2", "shape.kind.Data4", "shape.kind.Data8", "shape.kind.Data16", "shape.kind.Sdata", "shape.kind.Udata",
    "shape.kind.ImplicitConst", "shape.kind.Exprloc", "shape.kind.Flag", "shape.kind.FlagPresent", "shape.kind.UnitRef", "shape.kind.DebugInfoRef", "shape.kind.DebugInfoRefSup",
    "shape.kind.LineProgramRef", "shape.kind.LocationListRef", "shape.kind.DebugMacinfoRef", "shape.kind.DebugMacroRef", "shape.kind.RangeListRef", "shape.kind.DebugTypesRef",
    "shape.kind.StringRef", "shape.kind.DebugStrRefSup", "shape.kind.LineStringRef", "shape.kind.String", "shape.kind.Encoding", "shape.kind.DecimalSign", "shape.kind.Endianity",
    "shape.kind.Accessibility", "shape.kind.Visibility", "shape.kind.Virtuality", "shape.kind.Language", "shape.kind.AddressClass", "shape.kind.IdentifierCase",
    "shape.kind.CallingConvention", "shape.kind.Inline", "shape.kind.Ordering", "shape.kind.FileIndex",
    "abbrev.model.differ_only_in_implicit_const", "abbrev.model.shared_shape", "abbrev.model.code_2_bytes", "abbrev.count_as_model",
    // write order (streams `ordcat`, `order`)
    "order.s0_verified", "order.policy.none", "order.policy.all", "order.policy.first", "order.policy.last", "order.policy.alt_even", "order.policy.alt_odd", "order.policy.random",
    "order.units.2", "order.units.3", "order.units.4", "order.phys_permuted", "order.all_incremental.cross_refs",
    "order.all_incremental.attr", "order.all_incremental.expr", "order.all_incremental.loc", "order.all_incremental.loclists",
    "order.xref.attr.inc_to_later_inc", "order.xref.attr.inc_to_earlier_inc", "order.xref.attr.inc_to_late", "order.xref.attr.late_to_inc", "order.xref.attr.late_to_late",
    "order.xref.expr.inc_to_later_inc", "order.xref.expr.inc_to_earlier_inc", "order.xref.expr.inc_to_late", "order.xref.expr.late_to_inc", "order.xref.expr.late_to_late",
    "order.xref.loc.inc_to_later_inc", "order.xref.loc.inc_to_earlier_inc", "order.xref.loc.inc_to_late", "order.xref.loc.late_to_inc", "order.xref.loc.late_to_late",
    "order.xref.loclists.inc_to_later_inc", "order.xref.loclists.inc_to_earlier_inc", "order.xref.loclists.inc_to_late", "order.xref.loclists.late_to_inc", "order.xref.loclists.late_to_late",
    "order.selfref.attr.inc", "order.selfref.expr.inc", "order.selfref.loc.inc", "order.selfref.loclists.inc",
    "order.skip.verified", "order.skip.others_late", "order.skip.others_incremental", "order.skip.others_mixed",
];

// ================================================================ sections

#[derive(Default, Clone)]
pub struct Secs {
    pub m: BTreeMap<&'static str, Vec<u8>>,
}

pub const SECTION_IDS: &[gimli::SectionId] = &[
    gimli::SectionId::DebugAbbrev,
    gimli::SectionId::DebugInfo,
    gimli::SectionId::DebugLine,
    gimli::SectionId::DebugLineStr,
    gimli::SectionId::DebugRanges,
    gimli::SectionId::DebugRngLists,
    gimli::SectionId::DebugLoc,
    gimli::SectionId::DebugLocLists,
    gimli::SectionId::DebugStr,
    gimli::SectionId::DebugFrame,
    gimli::SectionId::EhFrame,
];

impl Secs {
    pub fn get(&self, id: gimli::SectionId) -> &[u8] {
        self.m.get(id.name()).map(|v| &v[..]).unwrap_or(&[])
    }
    pub fn json(&self) -> serde_json::Value {
        let mut o = serde_json::Map::new();
        for (k, v) in &self.m {
            if !v.is_empty() {
                o.insert(k.to_string(), json!(hex(v)));
            }
        }
        serde_json::Value::Object(o)
    }
}

pub fn endian_of(le: bool) -> gimli::RunTimeEndian {
    if le {
        gimli::RunTimeEndian::Little
    } else {
        gimli::RunTimeEndian::Big
    }
}

pub fn write_plain(spec: &CaseSpec, mode: AddrMode) -> (Result<(), String>, Secs) {
    let mut b = wr::build(spec, mode);
    let mut sections = w::Sections::new(w::EndianVec::new(endian_of(spec.le)));
    let res = wr::write_built(&mut b, &mut sections).map_err(|e| format!("{e:?}"));
    let mut secs = Secs::default();
    for id in SECTION_IDS {
        if let Some(s) = sections.get(*id) {
            secs.m.insert(id.name(), s.slice().to_vec());
        }
    }
    (res, secs)
}

// ================================================================ read back

type Slice<'a> = gimli::EndianSlice<'a, gimli::RunTimeEndian>;

#[derive(Clone, Debug, PartialEq)]
pub enum M {
    Addr(u64),
    Block(Vec<u8>),
    D1(u8),
    D2(u16),
    D4(u32),
    D8(u64),
    D16(u128),
    S(i64),
    U(u64),
    Expr(Vec<u8>),
    Flag(bool),
    SecOff(u64),
    UnitRef(u64),
    InfoRef(u64),
    InfoRefSup(u64),
    LineRef(u64),
    LocRef(u64),
    MacinfoRef(u64),
    MacroRef(u64),
    RangeRef(u64),
    TypesRef(u64),
    StrRef(u64),
    StrRefSup(u64),
    LineStrRef(u64),
    Str(Vec<u8>),
    Enum(&'static str, u64),
    FileIndex(u64),
    Other(String),
}

fn meaning(v: &gimli::AttributeValue<Slice<'_>>) -> M {
    use gimli::AttributeValue as A;
    match v {
        A::Addr(x) => M::Addr(*x),
        A::Block(r) => M::Block(r.slice().to_vec()),
        A::Data1(x) => M::D1(*x),
        A::Data2(x) => M::D2(*x),
        A::Data4(x) => M::D4(*x),
        A::Data8(x) => M::D8(*x),
        A::Data16(x) => M::D16(*x),
        A::Sdata(x) => M::S(*x),
        A::Udata(x) => M::U(*x),
        A::Exprloc(e) => M::Expr(e.0.slice().to_vec()),
        A::Flag(b) => M::Flag(*b),
        A::SecOffset(o) => M::SecOff(*o as u64),
        A::UnitRef(o) => M::UnitRef(o.0 as u64),
        A::DebugInfoRef(o) => M::InfoRef(o.0 as u64),
        A::DebugInfoRefSup(o) => M::InfoRefSup(o.0 as u64),
        A::DebugLineRef(o) => M::LineRef(o.0 as u64),
        A::LocationListsRef(o) => M::LocRef(o.0 as u64),
        A::DebugMacinfoRef(o) => M::MacinfoRef(o.0 as u64),
        A::DebugMacroRef(o) => M::MacroRef(o.0 as u64),
        A::RangeListsRef(o) => M::RangeRef(o.0 as u64),
        A::DebugTypesRef(s) => M::TypesRef(s.0),
        A::DebugStrRef(o) => M::StrRef(o.0 as u64),
        A::DebugStrRefSup(o) => M::StrRefSup(o.0 as u64),
        A::DebugLineStrRef(o) => M::LineStrRef(o.0 as u64),
        A::String(r) => M::Str(r.slice().to_vec()),
        A::Encoding(x) => M::Enum("Encoding", x.0 as u64),
        A::DecimalSign(x) => M::Enum("DecimalSign", x.0 as u64),
        A::Endianity(x) => M::Enum("Endianity", x.0 as u64),
        A::Accessibility(x) => M::Enum("Accessibility", x.0 as u64),
        A::Visibility(x) => M::Enum("Visibility", x.0 as u64),
        A::Virtuality(x) => M::Enum("Virtuality", x.0 as u64),
        A::Language(x) => M::Enum("Language", x.0 as u64),
        A::AddressClass(x) => M::Enum("AddressClass", x.0),
        A::IdentifierCase(x) => M::Enum("IdentifierCase", x.0 as u64),
        A::CallingConvention(x) => M::Enum("CallingConvention", x.0 as u64),
        A::Inline(x) => M::Enum("Inline", x.0 as u64),
        A::Ordering(x) => M::Enum("Ordering", x.0 as u64),
        A::FileIndex(x) => M::FileIndex(*x),
        other => M::Other(format!("{other:?}").chars().take(80).collect()),
    }
}

#[derive(Clone, Debug)]
pub struct RAttr {
    pub name: u16,
    pub form: u16,
    /// offset of the value within the unit
    pub off: u64,
    pub raw: M,
    pub norm: M,
    pub string: Option<Result<Vec<u8>, String>>,
    pub ranges: Option<Result<Vec<(u64, u64)>, String>>,
    pub locs: Option<Result<Vec<(u64, u64, Vec<u8>)>, String>>,
    pub file: Option<Result<Vec<u8>, String>>,
}

#[derive(Clone, Debug)]
pub struct Rec {
    pub off: u64,
    pub depth: usize,
    pub null: bool,
    pub tag: u16,
    pub attrs: Vec<RAttr>,
}

#[derive(Clone, Debug, Default)]
pub struct RLine {
    pub offset: u64,
    pub files: Vec<Vec<u8>>,
    /// (address, line, file path, end_sequence)
    pub rows: Vec<(u64, u64, Vec<u8>, bool)>,
}

#[derive(Clone, Debug, Default)]
pub struct RUnit {
    pub version: u16,
    pub addr: u8,
    pub fmt64: bool,
    pub unit_off: u64,
    pub total_len: u64,
    /// offset of the unit's abbreviation table in .debug_abbrev
    pub abbrev_off: u64,
    pub low_pc: u64,
    pub recs: Vec<Rec>,
    pub line: Option<Result<RLine, String>>,
}

const LIMIT: usize = 200_000;

pub fn read_back(secs: &Secs, le: bool) -> Result<Vec<RUnit>, String> {
    let endian = endian_of(le);
    let dwarf: gimli::Dwarf<Slice<'_>> =
        gimli::Dwarf::load(|id| -> Result<Slice<'_>, gimli::Error> { Ok(gimli::EndianSlice::new(secs.get(id), endian)) }).map_err(|e| format!("load: {e:?}"))?;
    let mut out = vec![];
    let mut headers = dwarf.units();
    loop {
        if out.len() > 64 {
            return Err("too many units".into());
        }
        let header = match headers.next() {
            Ok(Some(h)) => h,
            Ok(None) => break,
            Err(e) => return Err(format!("units().next: {e:?}")),
        };
        let unit_off = header.offset().0 as u64;
        let total_len = header.length_including_self() as u64;
        let abbrev_off = header.debug_abbrev_offset().0 as u64;
        let unit = dwarf.unit(header).map_err(|e| format!("Dwarf::unit: {e:?}"))?;
        let enc = unit.encoding();
        let mut ru = RUnit { version: enc.version, addr: enc.address_size, fmt64: enc.format == gimli::Format::Dwarf64, unit_off, total_len, abbrev_off, low_pc: unit.low_pc, ..Default::default() };
        // line program
        if let Some(ilp) = unit.line_program.clone() {
            ru.line = Some((|| -> Result<RLine, String> {
                let mut rl = RLine { offset: ilp.header().offset().0 as u64, ..Default::default() };
                let hdr = ilp.header().clone();
                for f in hdr.file_names() {
                    let p = dwarf.attr_string(&unit, f.path_name()).map_err(|e| format!("file path: {e:?}"))?;
                    rl.files.push(p.slice().to_vec());
                }
                let mut rows = ilp.rows();
                let mut n = 0;
                while let Some((h, row)) = rows.next_row().map_err(|e| format!("next_row: {e:?}"))? {
                    n += 1;
                    if n > LIMIT {
                        return Err("rows do not end".into());
                    }
                    let path = match h.file(row.file_index()) {
                        Some(f) => dwarf.attr_string(&unit, f.path_name()).map(|p| p.slice().to_vec()).map_err(|e| format!("row file: {e:?}"))?,
                        None => b"<no file>".to_vec(),
                    };
                    rl.rows.push((row.address(), row.line().map_or(0, |l| l.get()), path, row.end_sequence()));
                }
                Ok(rl)
            })());
        }
        // entries
        let mut raw = unit.entries_raw(None).map_err(|e| format!("entries_raw: {e:?}"))?;
        let mut depth: usize = 0;
        let mut n = 0;
        while !raw.is_empty() {
            n += 1;
            if n > LIMIT {
                return Err("entries do not end".into());
            }
            let off = raw.next_offset().0 as u64;
            let abbrev = raw.read_abbreviation().map_err(|e| format!("read_abbreviation at {off:#x}: {e:?}"))?;
            let Some(abbrev) = abbrev else {
                ru.recs.push(Rec { off, depth, null: true, tag: 0, attrs: vec![] });
                if depth == 0 {
                    return Err(format!("null entry at depth 0 (offset {off:#x})"));
                }
                depth -= 1;
                continue;
            };
            let mut attrs = vec![];
            for spec in abbrev.attributes() {
                let aoff = raw.next_offset().0 as u64;
                let a = raw.read_attribute(*spec).map_err(|e| format!("read_attribute {:#x} at {aoff:#x}: {e:?}", spec.name().0))?;
                let rawv = a.raw_value();
                let normv = a.value();
                let mut ra = RAttr { name: a.name().0, form: a.form().0, off: aoff, raw: meaning(&rawv), norm: meaning(&normv), string: None, ranges: None, locs: None, file: None };
                match &normv {
                    gimli::AttributeValue::String(_) | gimli::AttributeValue::DebugStrRef(_) | gimli::AttributeValue::DebugLineStrRef(_) => {
                        ra.string = Some(dwarf.attr_string(&unit, normv.clone()).map(|s| s.slice().to_vec()).map_err(|e| format!("{e:?}")));
                    }
                    gimli::AttributeValue::RangeListsRef(_) => {
                        ra.ranges = Some((|| -> Result<Vec<(u64, u64)>, String> {
                            let it = dwarf.attr_ranges(&unit, normv.clone()).map_err(|e| format!("attr_ranges: {e:?}"))?;
                            let Some(mut it) = it else { return Err("attr_ranges: None".into()) };
                            let mut v = vec![];
                            while let Some(r) = it.next().map_err(|e| format!("ranges next: {e:?}"))? {
                                v.push((r.begin, r.end));
                                if v.len() > LIMIT {
                                    return Err("ranges do not end".into());
                                }
                            }
                            Ok(v)
                        })());
                    }
                    gimli::AttributeValue::LocationListsRef(_) => {
                        ra.locs = Some((|| -> Result<Vec<(u64, u64, Vec<u8>)>, String> {
                            let it = dwarf.attr_locations(&unit, normv.clone()).map_err(|e| format!("attr_locations: {e:?}"))?;
                            let Some(mut it) = it else { return Err("attr_locations: None".into()) };
                            let mut v = vec![];
                            while let Some(r) = it.next().map_err(|e| format!("locations next: {e:?}"))? {
                                v.push((r.range.begin, r.range.end, r.data.0.slice().to_vec()));
                                if v.len() > LIMIT {
                                    return Err("locations do not end".into());
                                }
                            }
                            Ok(v)
                        })());
                    }
                    gimli::AttributeValue::FileIndex(i) => {
                        if let Some(lp) = &unit.line_program {
                            ra.file = Some(match lp.header().file(*i) {
                                Some(f) => dwarf.attr_string(&unit, f.path_name()).map(|s| s.slice().to_vec()).map_err(|e| format!("{e:?}")),
                                None => Err("no such file".into()),
                            });
                        }
                    }
                    _ => {}
                }
                attrs.push(ra);
            }
            ru.recs.push(Rec { off, depth, null: false, tag: abbrev.tag().0, attrs });
            if abbrev.has_children() {
                depth += 1;
            }
        }
        if depth != 0 {
            return Err(format!("unit at {unit_off:#x} ends at depth {depth}"));
        }
        out.push(ru);
    }
    Ok(out)
}

// ================================================================ expectations

fn expected_form(v: &ValSpec, enc: Enc) -> u16 {
    use ValSpec::*;
    let secoff = if enc.version <= 3 {
        if enc.fmt64 {
            0x07
        } else {
            0x06
        }
    } else {
        0x17
    };
    match v {
        Address(_) => 0x01,
        Block(_) => 0x09,
        Data1(_) => 0x0b,
        Data2(_) => 0x05,
        Data4(_) => 0x06,
        Data8(_) => 0x07,
        Data16(_) => 0x1e,
        Sdata(_) => 0x0d,
        ImplicitConst(_) => {
            if enc.version >= 5 {
                0x21
            } else {
                0x0d
            }
        }
        Exprloc(_) => {
            if enc.version >= 4 {
                0x18
            } else {
                0x09
            }
        }
        Flag(_) => 0x0c,
        FlagPresent => {
            if enc.version >= 4 {
                0x19
            } else {
                0x0c
            }
        }
        UnitRef(_) => {
            if enc.fmt64 {
                0x14
            } else {
                0x13
            }
        }
        DebugInfoRef(..) | DebugInfoRefSym(_) => 0x10,
        DebugInfoRefSup(_) => {
            if enc.fmt64 {
                0x24
            } else {
                0x1c
            }
        }
        LineProgramRef | LocationListRef(_) | DebugMacinfoRef(_) | DebugMacroRef(_) | RangeListRef(_) => secoff,
        DebugTypesRef(_) => 0x20,
        StringRef(_) => 0x0e,
        DebugStrRefSup(_) => 0x1d,
        LineStringRef(_) => 0x1f,
        String(_) => 0x08,
        _ => 0x0f,
    }
}

fn expected_lines(lp: &LineSpec, symvals: &[u64]) -> Vec<(u64, u64, Vec<u8>, bool)> {
    let mut v = vec![];
    for s in &lp.seqs {
        let start = s.start.constant(symvals);
        for (off, line, f) in &s.rows {
            v.push((start.wrapping_add(*off), *line, lp.files[*f].0.clone(), false));
        }
        v.push((start.wrapping_add(s.end_off), 0, vec![], true));
    }
    v
}

struct Cmp<'a> {
    spec: &'a CaseSpec,
    runits: &'a [RUnit],
    offs: Offs,
}

fn obs_xspec(ctx: &mut Ctx, x: &XSpec, in_list: bool) {
    fn walk(ctx: &mut Ctx, ops: &[XOp]) {
        for op in ops {
            match op {
                XOp::ConstType(..) | XOp::RegvalType(..) | XOp::DerefType(..) | XOp::Convert(Some(_)) | XOp::Reinterpret(Some(_)) => ctx.obs("expr.uleb_ref"),
                XOp::CallRef(..) | XOp::VariableValue(..) | XOp::ImplicitPointer(..) => ctx.obs("expr.info_ref"),
                XOp::Skip(_) | XOp::Bra(_) => ctx.obs("expr.branch"),
                XOp::EntryValue(i) => {
                    ctx.obs("expr.entry_value");
                    walk(ctx, i);
                }
                _ => {}
            }
        }
    }
    if in_list {
        ctx.obs("expr.in_list");
    }
    if let XSpec::Ops(ops) = x {
        walk(ctx, ops);
    }
}

/// Compare one attribute; returns a description of the first difference.
fn check_attr(ctx: &mut Ctx, c: &Cmp<'_>, u: usize, k: usize, a: &AttrSpec, ra: &RAttr, order_pos: &BTreeMap<usize, usize>) -> Result<(), String> {
    let spec = c.spec;
    let us = &spec.units[u];
    let ru = &c.runits[u];
    let enc = us.enc;
    if ra.name != a.name {
        return Err(format!("attribute name {:#x}, expected {:#x}", ra.name, a.name));
    }
    if ra.form != expected_form(&a.val, enc) {
        ctx.obs("secondary.form_differs");
    }
    let die_off = |uu: usize, t: usize| -> Result<u64, String> { c.offs.die.get(uu).and_then(|m| m.get(&t)).copied().ok_or_else(|| format!("target entry {uu}/{t} was not read back")) };
    let want_raw = |m: M| -> Result<(), String> {
        if ra.raw == m {
            Ok(())
        } else {
            Err(format!("raw value {:?}, expected {:?}", ra.raw, m))
        }
    };
    let want_norm = |m: M| -> Result<(), String> {
        if ra.norm == m {
            Ok(())
        } else {
            Err(format!("value() {:?}, expected {:?}", ra.norm, m))
        }
    };
    match &a.val {
        ValSpec::Address(x) => want_raw(M::Addr(x.constant(&spec.symvals)))?,
        ValSpec::Block(b) => want_raw(M::Block(b.clone()))?,
        ValSpec::Data1(x) => want_raw(M::D1(*x))?,
        ValSpec::Data2(x) => want_raw(M::D2(*x))?,
        ValSpec::Data4(x) => want_raw(M::D4(*x))?,
        ValSpec::Data8(x) => want_raw(M::D8(*x))?,
        ValSpec::Data16(x) => want_raw(M::D16(*x))?,
        ValSpec::Sdata(x) | ValSpec::ImplicitConst(x) => want_raw(M::S(*x))?,
        ValSpec::Udata(x) => want_raw(M::U(*x))?,
        ValSpec::Exprloc(x) => {
            let mut sites = vec![];
            let bytes = wr::encode_x(x, enc, u, &c.offs, &spec.symvals, &mut sites, 0).ok_or("model could not encode the expression (target not read back)")?;
            let got = match &ra.raw {
                M::Expr(b) if enc.version >= 4 => b.clone(),
                M::Block(b) if enc.version < 4 => b.clone(),
                other => return Err(format!("raw value {other:?}, expected an expression")),
            };
            if got != bytes {
                return Err(format!("expression bytes {}, expected {}", hex(&got), hex(&bytes)));
            }
            obs_xspec(ctx, x, false);
        }
        ValSpec::Flag(b) => want_raw(M::Flag(*b))?,
        ValSpec::FlagPresent => want_raw(M::Flag(true))?,
        ValSpec::UnitRef(t) => {
            want_raw(M::UnitRef(die_off(u, *t)?))?;
            let (pf, pt) = (order_pos.get(&k).copied().unwrap_or(0), order_pos.get(t).copied().unwrap_or(0));
            ctx.obs(if pt > pf {
                "ref.unit.forward"
            } else if pt < pf {
                "ref.unit.backward"
            } else {
                "ref.unit.self"
            });
            if us.entries[*t].reserve_at.is_some() {
                ctx.obs("ref.to_reserved");
            }
        }
        ValSpec::DebugInfoRef(uu, t) => {
            let abs = c.offs.unit.get(*uu).copied().ok_or("target unit missing")?.wrapping_add(die_off(*uu, *t)?);
            want_raw(M::InfoRef(abs))?;
            ctx.obs(if *uu > u {
                "ref.info.cross_forward"
            } else if *uu < u {
                "ref.info.cross_backward"
            } else {
                "ref.info.same_unit"
            });
            if spec.units[*uu].entries[*t].reserve_at.is_some() {
                ctx.obs("ref.to_reserved");
            }
        }
        ValSpec::DebugInfoRefSym(_) => return Err("DebugInfoRef::Symbol was written".into()),
        ValSpec::DebugInfoRefSup(x) => want_raw(M::InfoRefSup(*x))?,
        ValSpec::LineProgramRef => {
            let Some(Ok(line)) = &ru.line else { return Err("unit has no readable line program".into()) };
            want_norm(M::LineRef(line.offset))?;
        }
        ValSpec::LocationListRef(l) => {
            if !matches!(ra.norm, M::LocRef(_)) {
                return Err(format!("value() {:?}, expected a location list reference", ra.norm));
            }
            let items = wr::llist_items(&us.llists[*l], us, &spec.symvals);
            let mut exp = vec![];
            for (b, e, x) in items {
                let mut sites = vec![];
                let bytes = wr::encode_x(x, enc, u, &c.offs, &spec.symvals, &mut sites, 0).ok_or("model could not encode a list expression")?;
                exp.push((b, e, bytes));
                obs_xspec(ctx, x, true);
            }
            match &ra.locs {
                Some(Ok(got)) => {
                    if *got != exp {
                        return Err(format!("location list {:?}, expected {:?}", got, exp));
                    }
                }
                Some(Err(e)) => return Err(format!("location list: {e}")),
                None => return Err("location list not resolved".into()),
            }
        }
        ValSpec::RangeListRef(l) => {
            if !matches!(ra.norm, M::RangeRef(_)) {
                return Err(format!("value() {:?}, expected a range list reference", ra.norm));
            }
            let exp = wr::resolve_rlist(&us.rlists[*l], us, &spec.symvals);
            match &ra.ranges {
                Some(Ok(got)) => {
                    if *got != exp {
                        return Err(format!("range list {:x?}, expected {:x?}", got, exp));
                    }
                }
                Some(Err(e)) => return Err(format!("range list: {e}")),
                None => return Err("range list not resolved".into()),
            }
        }
        ValSpec::DebugMacinfoRef(x) => want_norm(M::MacinfoRef(*x))?,
        ValSpec::DebugMacroRef(x) => want_norm(M::MacroRef(*x))?,
        ValSpec::DebugTypesRef(x) => want_raw(M::TypesRef(*x))?,
        ValSpec::StringRef(i) => {
            if !matches!(ra.raw, M::StrRef(_)) {
                return Err(format!("raw value {:?}, expected a .debug_str reference", ra.raw));
            }
            if ra.string != Some(Ok(spec.strings[*i].clone())) {
                return Err(format!("string {:?}, expected {:?}", ra.string, spec.strings[*i]));
            }
        }
        ValSpec::DebugStrRefSup(x) => want_raw(M::StrRefSup(*x))?,
        ValSpec::LineStringRef(i) => {
            if !matches!(ra.raw, M::LineStrRef(_)) {
                return Err(format!("raw value {:?}, expected a .debug_line_str reference", ra.raw));
            }
            if ra.string != Some(Ok(spec.line_strings[*i].clone())) {
                return Err(format!("line string {:?}, expected {:?}", ra.string, spec.line_strings[*i]));
            }
        }
        ValSpec::String(b) => {
            want_raw(M::Str(b.clone()))?;
            if ra.string != Some(Ok(b.clone())) {
                return Err(format!("attr_string {:?}, expected {:?}", ra.string, b));
            }
        }
        ValSpec::Encoding(x) => {
            want_raw(M::U(*x as u64))?;
            want_norm(M::Enum("Encoding", *x as u64))?
        }
        ValSpec::DecimalSign(x) => {
            want_raw(M::U(*x as u64))?;
            want_norm(M::Enum("DecimalSign", *x as u64))?
        }
        ValSpec::Endianity(x) => {
            want_raw(M::U(*x as u64))?;
            want_norm(M::Enum("Endianity", *x as u64))?
        }
        ValSpec::Accessibility(x) => {
            want_raw(M::U(*x as u64))?;
            want_norm(M::Enum("Accessibility", *x as u64))?
        }
        ValSpec::Visibility(x) => {
            want_raw(M::U(*x as u64))?;
            want_norm(M::Enum("Visibility", *x as u64))?
        }
        ValSpec::Virtuality(x) => {
            want_raw(M::U(*x as u64))?;
            want_norm(M::Enum("Virtuality", *x as u64))?
        }
        ValSpec::Language(x) => {
            want_raw(M::U(*x as u64))?;
            want_norm(M::Enum("Language", *x as u64))?
        }
        ValSpec::AddressClass(x) => {
            want_raw(M::U(*x))?;
            want_norm(M::Enum("AddressClass", *x))?
        }
        ValSpec::IdentifierCase(x) => {
            want_raw(M::U(*x as u64))?;
            want_norm(M::Enum("IdentifierCase", *x as u64))?
        }
        ValSpec::CallingConvention(x) => {
            want_raw(M::U(*x as u64))?;
            want_norm(M::Enum("CallingConvention", *x as u64))?
        }
        ValSpec::Inline(x) => {
            want_raw(M::U(*x as u64))?;
            want_norm(M::Enum("Inline", *x as u64))?
        }
        ValSpec::Ordering(x) => {
            want_raw(M::U(*x as u64))?;
            want_norm(M::Enum("Ordering", *x as u64))?
        }
        ValSpec::FileIndex(f) => {
            if !matches!(ra.raw, M::U(_)) {
                return Err(format!("raw value {:?}, expected an unsigned constant", ra.raw));
            }
            if let Some(f) = f {
                let Some(lp) = &us.line else { return Err("model: FileIndex without a line program".into()) };
                if !matches!(ra.norm, M::FileIndex(_)) {
                    return Err(format!("value() {:?}, expected FileIndex", ra.norm));
                }
                if ra.file != Some(Ok(lp.files[*f].0.clone())) {
                    return Err(format!("file index resolves to {:?}, expected {:?}", ra.file, lp.files[*f].0));
                }
                ctx.obs("line.fileindex");
            }
        }
    }
    Ok(())
}

// ================================================================ one case

pub fn case_input(spec: &CaseSpec) -> String {
    format!("{spec:?}").chars().take(6000).collect()
}

fn observe_quantifier(ctx: &mut Ctx, spec: &CaseSpec) -> bool {
    ctx.obs(if spec.le { "endian.le" } else { "endian.be" });
    ctx.obs(if spec.single { "mode.dwarf_unit" } else { "mode.dwarf" });
    if spec.units.len() > 1 {
        ctx.obs("units.multi");
    }
    let mut nontrivial = false;
    for us in &spec.units {
        ctx.obs(&format!("ver.{}", us.enc.version));
        ctx.obs(&format!("addr.{}", us.enc.addr));
        ctx.obs(if us.enc.fmt64 { "fmt.64" } else { "fmt.32" });
        if us.entries.len() >= 2 || us.entries.iter().any(|e| e.attrs.len() > 1) {
            nontrivial = true;
        }
    }
    nontrivial
}

pub fn run_case(ctx: &mut Ctx, stream: &str, spec: &CaseSpec, symbolic_plain: bool) {
    ctx.eval();
    let desc = case_input(spec);
    let input = || json!({"spec": desc, "symbolic_with_plain_writer": symbolic_plain});
    let input: &dyn Fn() -> serde_json::Value = &input;
    if observe_quantifier(ctx, spec) {
        ctx.nontrivial(fnv(format!("{spec:?}{symbolic_plain}").as_bytes()) ^ fnv(stream.as_bytes()));
    }
    let expect = wr::classify(spec, symbolic_plain);
    let mode = if symbolic_plain { AddrMode::Symbolic } else { AddrMode::Constant };

    // ---- write (panics, incl. the writer's debug_asserts, are violations)
    let Some((res, secs)) = ctx.guard("write", input, || write_plain(spec, mode)) else { return };
    match (&expect, &res) {
        (Expect::MustErr(cls), Ok(())) => {
            for c in cls {
                ctx.obs(&format!("cls.{}", c.name()));
            }
            let first = cls.first().map_or("?", |c| c.name());
            ctx.fail(&format!("write.ok_for_unencodable.{first}"), &format!("write returned Ok for a request the model classifies unencodable ({cls:?})"), &|| json!({"spec": desc, "sections": secs.json()}));
            return;
        }
        (Expect::MustErr(cls), Err(e)) => {
            ctx.obs("outcome.err");
            for c in cls {
                ctx.obs(&format!("cls.{}", c.name()));
            }
            let variant: String = e.chars().take_while(|ch| ch.is_ascii_alphanumeric()).collect();
            ctx.obs(&format!("err.{variant}"));
            return;
        }
        (Expect::MustOk, Err(e)) => {
            ctx.fail("write.err_for_encodable", &format!("write returned Err({e}) for a request the model classifies encodable"), input);
            return;
        }
        (Expect::MustOk, Ok(())) => ctx.obs("outcome.ok"),
        (Expect::Unjudged, Ok(())) => {
            ctx.obs("outcome.unjudged");
            ctx.obs("unjudged.ok");
        }
        (Expect::Unjudged, Err(e)) => {
            ctx.obs("outcome.unjudged");
            if !e.starts_with("ValueTooLarge") {
                ctx.fail("write.err_for_encodable", &format!("write returned Err({e}); only ValueTooLarge is a possible reason for this request"), input);
            }
            return;
        }
    }
    compare_readback(ctx, stream, spec, &secs);
}

pub fn compare_readback(ctx: &mut Ctx, stream: &str, spec: &CaseSpec, secs: &Secs) {
    compare_readback_at(ctx, stream, spec, secs, None, "");
}

/// `phys`: the model unit expected at each position of `.debug_info` (None: model order);
/// model units that are not listed are expected to be absent (nothing may refer to them).
/// `pfx` is put in front of every violation signature.  Returns true when nothing was flagged.
pub fn compare_readback_at(ctx: &mut Ctx, stream: &str, spec: &CaseSpec, secs: &Secs, phys: Option<&[usize]>, pfx: &str) -> bool {
    let before = ctx.obs.get("violations_raw").copied().unwrap_or(0);
    compare_readback_inner(ctx, stream, spec, secs, phys, pfx);
    ctx.obs.get("violations_raw").copied().unwrap_or(0) == before
}

fn compare_readback_inner(ctx: &mut Ctx, stream: &str, spec: &CaseSpec, secs: &Secs, phys: Option<&[usize]>, pfx: &str) {
    let sg = |s: &str| -> String { format!("{pfx}{s}") };
    let desc = case_input(spec);
    let input = || json!({"spec": desc, "sections": secs.json()});
    let input: &dyn Fn() -> serde_json::Value = &input;
    let le = spec.le;
    let Some(rb) = ctx.guard("read_back", input, || read_back(secs, le)) else { return };
    let runits = match rb {
        Ok(u) => u,
        Err(e) => {
            ctx.fail(&sg("readback.error"), &format!("reading the emitted sections back failed: {e}"), input);
            return;
        }
    };
    let want_units = phys.map_or(spec.units.len(), |p| p.len());
    if !ctx.check_eq(&sg("readback.unit_count"), &want_units, &runits.len(), input) {
        return;
    }
    // ---- units are contiguous in the section; bring them into model order
    let mut end = 0u64;
    for ru in runits.iter() {
        if !ctx.check_eq(&sg("readback.unit_offset"), &end, &ru.unit_off, input) {
            return;
        }
        end = ru.unit_off.wrapping_add(ru.total_len);
    }
    let mut absent = vec![false; spec.units.len()];
    let runits: Vec<RUnit> = match phys {
        None => runits,
        Some(phys) => {
            let mut slots: Vec<Option<RUnit>> = vec![None; spec.units.len()];
            let mut placed = 0;
            for (p, ru) in runits.into_iter().enumerate() {
                if let Some(slot) = phys.get(p).and_then(|u| slots.get_mut(*u)) {
                    if slot.is_none() {
                        placed += 1;
                    }
                    *slot = Some(ru);
                }
            }
            if placed != phys.len() {
                ctx.harness_errors.push("C11: expected unit order names a unit twice or not at all".into());
                return;
            }
            for (u, s) in slots.iter().enumerate() {
                absent[u] = s.is_none();
            }
            slots.into_iter().map(|s| s.unwrap_or_default()).collect()
        }
    };
    // ---- identity map
    let mut offs = Offs::default();
    for (u, ru) in runits.iter().enumerate() {
        if absent[u] {
            offs.unit.push(u64::MAX);
            offs.die.push(BTreeMap::new());
            continue;
        }
        offs.unit.push(ru.unit_off);
        let mut m = BTreeMap::new();
        for rec in ru.recs.iter().filter(|r| !r.null) {
            let id = rec.attrs.iter().find(|a| a.name == ID_AT).and_then(|a| if let M::U(v) = a.raw { Some(v) } else { None });
            let Some(id) = id else {
                ctx.fail(&sg("readback.identity_missing"), &format!("unit {u}: entry at {:#x} carries no identity attribute", rec.off), input);
                return;
            };
            if (id >> 12) != u as u64 + 1 {
                ctx.fail(&sg("readback.identity_foreign"), &format!("unit {u}: entry at {:#x} carries identity {id:#x} of another unit", rec.off), input);
                return;
            }
            if m.insert((id & 0xfff) as usize, rec.off).is_some() {
                ctx.fail(&sg("readback.identity_twice"), &format!("unit {u}: identity {id:#x} seen twice"), input);
                return;
            }
        }
        offs.die.push(m);
    }
    ctx.check_eq(&sg("readback.section_end"), &(secs.get(gimli::SectionId::DebugInfo).len() as u64), &end, input);
    let c = Cmp { spec, runits: &runits, offs };

    for (u, (us, ru)) in spec.units.iter().zip(runits.iter()).enumerate() {
        if absent[u] {
            continue;
        }
        let enc = us.enc;
        ctx.check_eq(&sg("readback.encoding"), &(enc.version, enc.addr, enc.fmt64), &(ru.version, ru.addr, ru.fmt64), input);
        let order = us.model_order();
        let order_pos: BTreeMap<usize, usize> = order.iter().enumerate().map(|(i, (k, _))| (*k, i)).collect();
        let entries: Vec<(usize, &crate::props::c11::Rec)> = ru.recs.iter().enumerate().filter(|(_, r)| !r.null).collect();
        // forest: identity sequence, depth, tag
        let got_shape: Vec<(usize, usize, u16)> = entries
            .iter()
            .map(|(_, r)| {
                let id = r.attrs.iter().find(|a| a.name == ID_AT).and_then(|a| if let M::U(v) = a.raw { Some((v & 0xfff) as usize) } else { None }).unwrap_or(usize::MAX);
                (id, r.depth, r.tag)
            })
            .collect();
        let exp_shape: Vec<(usize, usize, u16)> = order.iter().map(|(k, d)| (*k, *d, us.entries[*k].tag)).collect();
        if !ctx.check_eq(&sg("forest.shape"), &exp_shape, &got_shape, input) {
            continue;
        }
        // coverage of the tree features
        if order.len() >= 20 {
            ctx.obs("tree.big");
        }
        if order.iter().any(|(_, d)| *d >= 5) {
            ctx.obs("tree.depth5");
        }
        for (k, e) in us.entries.iter().enumerate() {
            if e.reserve_at.is_some() && order_pos.contains_key(&k) {
                ctx.obs("entry.reserved");
            }
        }
        if !us.phantoms.is_empty() {
            ctx.obs("entry.phantom_reserved");
        }
        if us.entries.iter().any(|e| e.deleted) {
            ctx.obs("entry.deleted");
        }
        {
            let creation: Vec<usize> = (1..us.entries.len()).filter(|&j| us.entries[j].parent == 0 && !us.entries[j].deleted).collect();
            if creation != us.children_written(0) {
                ctx.obs("basetype.moved");
            }
        }
        // low_pc as the unit reports it
        let lowpc = us.entries[0].attrs.iter().find(|a| a.name == dw::DW_AT_low_pc.0).and_then(|a| if let ValSpec::Address(x) = &a.val { Some(x.constant(&spec.symvals)) } else { None }).unwrap_or(0);
        ctx.check_eq(&sg("readback.low_pc"), &lowpc, &ru.low_pc, input);

        // line program
        match (&us.line, &ru.line) {
            (Some(lp), Some(Ok(rl))) => {
                ctx.obs("line.program");
                let exp = expected_lines(lp, &spec.symvals);
                let got: Vec<(u64, u64, Vec<u8>, bool)> = rl.rows.iter().map(|(a, l, f, e)| if *e { (*a, 0, vec![], true) } else { (*a, *l, f.clone(), false) }).collect();
                if ctx.check_eq(&sg("line.rows"), &exp, &got, input) && exp.len() > lp.seqs.len() {
                    ctx.obs("line.rows");
                }
                // every model file is in the table (version 5 lists the primary file first)
                for (name, _) in &lp.files {
                    if !rl.files.iter().any(|f| f == name) {
                        ctx.fail(&sg("line.file_missing"), &format!("unit {u}: file {:?} is not in the line program's file table", String::from_utf8_lossy(name)), input);
                    }
                }
            }
            (Some(_), Some(Err(e))) => ctx.fail(&sg("line.error"), &format!("unit {u}: line program does not read back: {e}"), input),
            (Some(_), None) => ctx.fail(&sg("line.missing"), &format!("unit {u}: the unit has no DW_AT_stmt_list / line program"), input),
            (None, Some(_)) => ctx.fail(&sg("line.unexpected"), &format!("unit {u}: a line program was read back although the model has none"), input),
            (None, None) => {}
        }

        // entries: attributes
        for (i, (ri, rec)) in entries.iter().enumerate() {
            let (k, d) = order[i];
            let e = &us.entries[k];
            let has_children = !us.children_written(k).is_empty();
            let mut rattrs: &[RAttr] = &rec.attrs;
            // sibling pointer
            if e.sibling && has_children {
                let Some(sa) = rattrs.first().filter(|a| a.name == dw::DW_AT_sibling.0) else {
                    ctx.fail(&sg("sibling.missing"), &format!("unit {u} entry {k}: sibling flag set and children present, but the first attribute is not DW_AT_sibling"), input);
                    continue;
                };
                // the next record at the same depth (entry or the parent's null), or the unit end
                let next = ru.recs[*ri + 1..].iter().find(|r| r.depth == d);
                let (want, what) = match next {
                    Some(r) if r.null => (r.off, "sibling.parent_null"),
                    Some(r) => (r.off, "sibling.next"),
                    None => (ru.total_len, "sibling.root"),
                };
                if d == 0 && next.is_some() {
                    ctx.fail(&sg("sibling.root_has_sibling"), "a record follows the root at depth 0", input);
                }
                if ctx.check_eq(&sg("sibling.target"), &M::UnitRef(want), &sa.raw, input) {
                    ctx.obs(what);
                }
                rattrs = &rattrs[1..];
            } else if rattrs.iter().any(|a| a.name == dw::DW_AT_sibling.0) {
                ctx.fail(&sg("sibling.unexpected"), &format!("unit {u} entry {k}: DW_AT_sibling present although not requested or no children"), input);
                continue;
            }
            // the root gets DW_AT_stmt_list from the writer when a program is in use
            let mut exp_attrs: Vec<AttrSpec> = e.attrs.clone();
            if k == 0 && us.line.is_some() {
                exp_attrs.push(AttrSpec { name: dw::DW_AT_stmt_list.0, val: ValSpec::LineProgramRef });
            }
            let names_exp: Vec<u16> = exp_attrs.iter().map(|a| a.name).collect();
            let names_got: Vec<u16> = rattrs.iter().map(|a| a.name).collect();
            if !ctx.check_eq(&sg("attrs.names"), &names_exp, &names_got, input) {
                continue;
            }
            for (a, ra) in exp_attrs.iter().zip(rattrs.iter()) {
                match check_attr(ctx, &c, u, k, a, ra, &order_pos) {
                    Ok(()) => {
                        if a.name != ID_AT {
                            ctx.obs(&format!("kind.{}", a.val.kind()));
                        }
                    }
                    Err(msg) => {
                        ctx.fail(&sg(&format!("attr.{}", a.val.kind())), &format!("unit {u} ({}) entry {k} attribute {:#x} ({}): {msg}", enc.label(), a.name, a.val.kind()), input);
                    }
                }
            }
        }
        // sharing: same list slot content <=> one offset; same string <=> one offset (secondary)
        let mut rl_off: BTreeMap<usize, u64> = BTreeMap::new();
        let mut ll_off: BTreeMap<usize, u64> = BTreeMap::new();
        let mut str_off: BTreeMap<Vec<u8>, u64> = BTreeMap::new();
        for (i, (_, rec)) in entries.iter().enumerate() {
            let (k, _) = order[i];
            let e = &us.entries[k];
            for a in &e.attrs {
                let Some(ra) = rec.attrs.iter().find(|x| x.name == a.name) else { continue };
                match (&a.val, &ra.norm, &ra.raw) {
                    (ValSpec::RangeListRef(l), M::RangeRef(o), _) => {
                        let canon = (0..=*l).find(|j| us.rlists[*j] == us.rlists[*l]).unwrap_or(*l);
                        if canon != *l {
                            ctx.obs("lists.dup");
                        }
                        if let Some(prev) = rl_off.insert(canon, *o) {
                            ctx.obs("lists.shared");
                            ctx.check_eq(&sg("lists.shared_offset"), &prev, o, input);
                        }
                    }
                    (ValSpec::LocationListRef(l), M::LocRef(o), _) => {
                        let canon = (0..=*l).find(|j| us.llists[*j] == us.llists[*l]).unwrap_or(*l);
                        if canon != *l {
                            ctx.obs("lists.dup");
                        }
                        if let Some(prev) = ll_off.insert(canon, *o) {
                            ctx.obs("lists.shared");
                            ctx.check_eq(&sg("lists.shared_offset"), &prev, o, input);
                        }
                    }
                    (ValSpec::StringRef(s), _, M::StrRef(o)) => {
                        if let Some(prev) = str_off.insert(spec.strings[*s].clone(), *o) {
                            ctx.obs("strings.dup");
                            if prev != *o {
                                ctx.obs("secondary.string_not_shared");
                            }
                        }
                    }
                    _ => {}
                }
            }
        }
    }
    observe_abbrevs(ctx, spec, &runits, &absent, secs);
    ctx.sample(stream, || json!({"spec": desc.chars().take(1200).collect::<String>(), "debug_info": hex(secs.get(gimli::SectionId::DebugInfo)), "debug_abbrev": hex(secs.get(gimli::SectionId::DebugAbbrev))}));
}

// ================================================================ abbreviation tables (secondary)

fn rd_uleb(d: &[u8], p: &mut usize) -> Option<u64> {
    let mut v: u64 = 0;
    let mut sh = 0u32;
    loop {
        let b = *d.get(*p)?;
        *p += 1;
        if sh < 64 {
            v |= ((b & 0x7f) as u64) << sh;
        }
        sh += 7;
        if b & 0x80 == 0 {
            return Some(v);
        }
        if sh > 70 {
            return None;
        }
    }
}

/// Declarations of the abbreviation table at `off`: (tag, children, [(name, form, implicit const)]).
fn parse_abbrevs(d: &[u8], off: u64) -> Option<Vec<(u64, u8, Vec<(u64, u64, u64)>)>> {
    let mut p = usize::try_from(off).ok()?;
    let mut out = vec![];
    loop {
        let code = rd_uleb(d, &mut p)?;
        if code == 0 {
            return Some(out);
        }
        let tag = rd_uleb(d, &mut p)?;
        let children = *d.get(p)?;
        p += 1;
        let mut attrs = vec![];
        loop {
            let name = rd_uleb(d, &mut p)?;
            let form = rd_uleb(d, &mut p)?;
            // the constant is an SLEB; its raw ULEB digits identify it just as well
            let ic = if form == 0x21 { rd_uleb(d, &mut p)? } else { 0 };
            if name == 0 && form == 0 {
                break;
            }
            attrs.push((name, form, ic));
        }
        out.push((tag, children, attrs));
        if out.len() > LIMIT {
            return None;
        }
    }
}

/// Shape of a model entry as an abbreviation would describe it.
fn model_shape(us: &UnitSpec, k: usize) -> (u16, bool, Vec<(u16, u16, i64)>) {
    let e = &us.entries[k];
    let has_children = !us.children_written(k).is_empty();
    let mut attrs = vec![];
    if e.sibling && has_children {
        attrs.push((dw::DW_AT_sibling.0, if us.enc.fmt64 { 0x14 } else { 0x13 }, 0));
    }
    for a in &e.attrs {
        let form = expected_form(&a.val, us.enc);
        let ic = match &a.val {
            ValSpec::ImplicitConst(v) if form == 0x21 => *v,
            _ => 0,
        };
        attrs.push((a.name, form, ic));
    }
    if k == 0 && us.line.is_some() && !e.attrs.iter().any(|a| a.name == dw::DW_AT_stmt_list.0) {
        attrs.push((dw::DW_AT_stmt_list.0, expected_form(&ValSpec::LineProgramRef, us.enc), 0));
    }
    (e.tag, has_children, attrs)
}

/// Coverage of abbreviation sharing; never a verdict (sharing is not part of the property).
fn observe_abbrevs(ctx: &mut Ctx, spec: &CaseSpec, runits: &[RUnit], absent: &[bool], secs: &Secs) {
    let data = secs.get(gimli::SectionId::DebugAbbrev);
    for (u, (us, ru)) in spec.units.iter().zip(runits.iter()).enumerate() {
        if absent.get(u).copied().unwrap_or(false) {
            continue;
        }
        let order = us.model_order();
        let mut shapes: Vec<(u16, bool, Vec<(u16, u16, i64)>)> = order.iter().map(|(k, _)| model_shape(us, *k)).collect();
        let entries = shapes.len();
        // shapes that differ in nothing but a constant stored in the abbreviation
        let mut stripped: Vec<(u16, bool, Vec<(u16, u16)>)> = shapes.iter().map(|(t, c, a)| (*t, *c, a.iter().map(|(n, f, _)| (*n, *f)).collect())).collect();
        shapes.sort();
        shapes.dedup();
        stripped.sort();
        stripped.dedup();
        if stripped.len() < shapes.len() {
            ctx.obs("abbrev.model.differ_only_in_implicit_const");
        }
        if shapes.len() < entries {
            ctx.obs("abbrev.model.shared_shape");
        }
        if shapes.len() >= 128 {
            ctx.obs("abbrev.model.code_2_bytes");
        }
        match parse_abbrevs(data, ru.abbrev_off) {
            Some(decls) => {
                if decls.len() == shapes.len() {
                    ctx.obs("abbrev.count_as_model");
                } else {
                    ctx.obs("secondary.abbrev_count_differs");
                }
            }
            None => ctx.obs("secondary.abbrev_table_unparsed"),
        }
    }
}

// ================================================================ catalogue

fn cat_payload(kind: &str, variant: u64, enc: Enc) -> Option<ValSpec> {
    let m = enc.addr_mask();
    let b = |v: &[u64]| v[(variant as usize) % v.len()];
    Some(match kind {
        "Address" => ValSpec::Address(AddrSpec::abs(b(&[0, 1, m, m >> 1]))),
        "Block" => ValSpec::Block(vec![0xab; b(&[0, 1, 127, 128]) as usize]),
        "Data1" => ValSpec::Data1(b(&[0, 1, 0x80, 0xff]) as u8),
        "Data2" => ValSpec::Data2(b(&[0, 0x1234, 0x8000, 0xffff]) as u16),
        "Data4" => ValSpec::Data4(b(&[0, 0x12345678, 0x8000_0000, 0xffff_ffff]) as u32),
        "Data8" => ValSpec::Data8(b(&[0, 0x0123_4567_89ab_cdef, 1 << 63, u64::MAX])),
        "Data16" => ValSpec::Data16([0u128, 0x0102_0304_0506_0708_090a_0b0c_0d0e_0f10, 1 << 127, u128::MAX][variant as usize % 4]),
        "Sdata" => ValSpec::Sdata([0i64, -1, i64::MIN, i64::MAX][variant as usize % 4]),
        "Udata" => ValSpec::Udata(b(&[0, 127, 128, u64::MAX])),
        "ImplicitConst" => ValSpec::ImplicitConst([0i64, -64, -65, i64::MAX][variant as usize % 4]),
        "Exprloc" => ValSpec::Exprloc(match variant % 4 {
            0 => XSpec::Ops(vec![]),
            1 => XSpec::Ops(vec![XOp::Addr(AddrSpec::abs(m >> 1)), XOp::Convert(Some(0)), XOp::Call(2)]),
            2 => XSpec::Raw(vec![0x9c; 128]),
            _ => XSpec::Ops(vec![XOp::Bra(2), XOp::EntryValue(vec![XOp::Reg(33)]), XOp::Skip(0)]),
        }),
        "Flag" => ValSpec::Flag(variant % 2 == 0),
        "FlagPresent" => ValSpec::FlagPresent,
        "UnitRef" => ValSpec::UnitRef([0usize, 1, 2, 2][variant as usize % 4]),
        "DebugInfoRef" => ValSpec::DebugInfoRef((variant % 2) as usize, [0usize, 1, 2, 2][variant as usize % 4]),
        "DebugInfoRefSym" => ValSpec::DebugInfoRefSym(variant as usize),
        "DebugInfoRefSup" => ValSpec::DebugInfoRefSup(b(&[0, 1, 0x7fff_ffff, 0xffff_ffff])),
        "LineProgramRef" => ValSpec::LineProgramRef,
        "LocationListRef" => ValSpec::LocationListRef((variant % 2) as usize),
        "DebugMacinfoRef" => ValSpec::DebugMacinfoRef(b(&[0, 1, 0x7fff_ffff, 0xffff_ffff])),
        "DebugMacroRef" => ValSpec::DebugMacroRef(b(&[0, 1, 0x7fff_ffff, 0xffff_ffff])),
        "RangeListRef" => ValSpec::RangeListRef((variant % 2) as usize),
        "DebugTypesRef" => ValSpec::DebugTypesRef(b(&[0, 1, 1 << 63, u64::MAX])),
        "StringRef" => ValSpec::StringRef((variant % 3) as usize),
        "DebugStrRefSup" => ValSpec::DebugStrRefSup(b(&[0, 1, 0x7fff_ffff, 0xffff_ffff])),
        "LineStringRef" => ValSpec::LineStringRef((variant % 2) as usize),
        "String" => ValSpec::String(vec![b'x'; b(&[0, 1, 127, 300]) as usize]),
        "Encoding" => ValSpec::Encoding(b(&[0, 1, 0x7f, 0xff]) as u8),
        "DecimalSign" => ValSpec::DecimalSign(b(&[0, 1, 0x80, 0xff]) as u8),
        "Endianity" => ValSpec::Endianity(b(&[0, 1, 0x80, 0xff]) as u8),
        "Accessibility" => ValSpec::Accessibility(b(&[0, 1, 0x80, 0xff]) as u8),
        "Visibility" => ValSpec::Visibility(b(&[0, 1, 0x80, 0xff]) as u8),
        "Virtuality" => ValSpec::Virtuality(b(&[0, 1, 0x80, 0xff]) as u8),
        "Language" => ValSpec::Language(b(&[0, 0x7f, 0x80, 0xffff]) as u16),
        "AddressClass" => ValSpec::AddressClass(b(&[0, 0x7f, 0x80, u64::MAX])),
        "IdentifierCase" => ValSpec::IdentifierCase(b(&[0, 1, 0x80, 0xff]) as u8),
        "CallingConvention" => ValSpec::CallingConvention(b(&[0, 1, 0x80, 0xff]) as u8),
        "Inline" => ValSpec::Inline(b(&[0, 1, 0x80, 0xff]) as u8),
        "Ordering" => ValSpec::Ordering(b(&[0, 1, 0x80, 0xff]) as u8),
        "FileIndex" => ValSpec::FileIndex([None, Some(0), Some(1), Some(2)][variant as usize % 4]),
        _ => return None,
    })
}

fn cat_name(kind: &str) -> u16 {
    match kind {
        "Address" => 0x52,
        "Block" => 0x1c,
        "Data1" | "Data2" | "Data4" | "Data8" | "Data16" | "Sdata" | "Udata" | "ImplicitConst" => 0x1c,
        "Exprloc" | "LocationListRef" => 0x02,
        "Flag" | "FlagPresent" => 0x3f,
        "UnitRef" | "DebugInfoRef" | "DebugInfoRefSym" | "DebugInfoRefSup" | "DebugTypesRef" => 0x49,
        "LineProgramRef" => 0x10,
        "RangeListRef" => 0x55,
        "DebugMacinfoRef" => 0x43,
        "DebugMacroRef" => 0x79,
        "StringRef" | "DebugStrRefSup" | "LineStringRef" | "String" => 0x03,
        "Encoding" => 0x3e,
        "DecimalSign" => 0x5e,
        "Endianity" => 0x65,
        "Accessibility" => 0x32,
        "Visibility" => 0x17,
        "Virtuality" => 0x4c,
        "Language" => 0x13,
        "AddressClass" => 0x33,
        "IdentifierCase" => 0x42,
        "CallingConvention" => 0x36,
        "Inline" => 0x20,
        "Ordering" => 0x09,
        _ => 0x3a,
    }
}

/// Three range lists, three location lists (expressions without entry references except a
/// typed ULEB reference to entry 2) and a line program with three files, valid under `enc`.
pub fn aux_parts(enc: Enc, variant: u64) -> (Vec<RListSpec>, Vec<LListSpec>, LineSpec) {
    let small = |x: u64| match enc.addr {
        1 => ((x >> 8) & 0x3f) | 1,
        2 => (x & 0x3fff) | 1,
        _ => x,
    };
    let x = XSpec::Ops(vec![XOp::Fbreg(-8), XOp::DerefType(false, 4, 2)]);
    let rlists = vec![
        RListSpec { pre: vec![], base: AddrSpec::abs(small(0x1000)), pairs: vec![(1, 5)] },
        RListSpec { pre: vec![(AddrSpec::abs(small(0x2000)), 3)], base: AddrSpec::abs(small(0x1100)), pairs: vec![(0, 2), (4, 9)] },
        RListSpec { pre: vec![], base: AddrSpec::abs(small(0x1200)), pairs: vec![(2, 3), (3, 4), (6, 7)] },
    ];
    let llists = vec![
        LListSpec { pre: vec![], base: AddrSpec::abs(small(0x1000)), pairs: vec![(1, 5, x.clone())] },
        LListSpec { pre: vec![(AddrSpec::abs(small(0x2000)), 3, XSpec::Ops(vec![XOp::Reg(1)]))], base: AddrSpec::abs(small(0x1100)), pairs: vec![(0, 2, XSpec::Ops(vec![XOp::Reg(0)]))] },
        LListSpec { pre: vec![], base: AddrSpec::abs(small(0x1200)), pairs: vec![(2, 3, XSpec::Ops(vec![XOp::Breg(7, -16)])), (4, 6, XSpec::Ops(vec![]))] },
    ];
    let line = LineSpec {
        fmt64: enc.fmt64,
        str_kind: (variant % 3) as u8,
        comp_dir: b"/comp".to_vec(),
        dirs: vec![b"sub".to_vec()],
        files: vec![(b"main.c".to_vec(), 0), (b"a.h".to_vec(), 1), (b"b.h".to_vec(), 0)],
        seqs: vec![SeqSpec { start: AddrSpec::abs(small(0x1000)), rows: vec![(0, 1, 0), (2, 7, 1), (5, 3, 2)], end_off: 9 }],
    };
    (rlists, llists, line)
}

/// Unit 0: root{ref to B} -> A{attribute under test} , B{}; A has a child so that its
/// sibling pointer spans it.  Unit 1 (same encoding): root with a DebugInfoRef to unit 0's B.
pub fn cat_case(enc: Enc, kind: &str, variant: u64, single: bool) -> Option<CaseSpec> {
    let val = cat_payload(kind, variant, enc)?;
    let idattr = |u: usize, k: usize| AttrSpec { name: ID_AT, val: ValSpec::Udata(wr::ident(u, k)) };
    let small = |x: u64| match enc.addr {
        1 => ((x >> 8) & 0x3f) | 1,
        2 => (x & 0x3fff) | 1,
        _ => x,
    };
    let mk_unit = |u: usize| -> UnitSpec {
        let mut root = EntrySpec { parent: 0, tag: 0x11, sibling: true, reserve_at: None, deleted: false, attrs: vec![idattr(u, 0)] };
        let mut a = EntrySpec { parent: 0, tag: 0x2e, sibling: true, reserve_at: None, deleted: false, attrs: vec![] };
        let b = EntrySpec { parent: 0, tag: 0x34, sibling: false, reserve_at: Some(1), deleted: false, attrs: vec![idattr(u, 2)] };
        let a_child = EntrySpec { parent: 1, tag: 0x05, sibling: false, reserve_at: None, deleted: false, attrs: vec![idattr(u, 3)] };
        if u == 0 {
            a.attrs.push(AttrSpec { name: cat_name(kind), val: val.clone() });
            a.attrs.push(idattr(u, 1));
            root.attrs.push(AttrSpec { name: 0x49, val: ValSpec::UnitRef(2) });
        } else {
            a.attrs.push(idattr(u, 1));
            root.attrs.push(AttrSpec { name: 0x49, val: ValSpec::DebugInfoRef(0, 2) });
        }
        let x = XSpec::Ops(vec![XOp::Fbreg(-8), XOp::DerefType(false, 4, 2)]);
        UnitSpec {
            enc,
            entries: vec![root, a, b, a_child],
            phantoms: vec![],
            rlists: vec![
                RListSpec { pre: vec![], base: AddrSpec::abs(small(0x1000)), pairs: vec![(1, 5)] },
                RListSpec { pre: vec![(AddrSpec::abs(small(0x2000)), 3)], base: AddrSpec::abs(small(0x1100)), pairs: vec![(0, 2), (4, 9)] },
            ],
            llists: vec![
                LListSpec { pre: vec![], base: AddrSpec::abs(small(0x1000)), pairs: vec![(1, 5, x.clone())] },
                LListSpec { pre: vec![(AddrSpec::abs(small(0x2000)), 3, XSpec::Ops(vec![XOp::Reg(1)]))], base: AddrSpec::abs(small(0x1100)), pairs: vec![(0, 2, XSpec::Raw(vec![0x50]))] },
            ],
            line: Some(LineSpec {
                fmt64: enc.fmt64,
                str_kind: (variant % 3) as u8,
                comp_dir: b"/comp".to_vec(),
                dirs: vec![b"sub".to_vec()],
                files: vec![(b"main.c".to_vec(), 0), (b"a.h".to_vec(), 1), (b"b.h".to_vec(), 0)],
                seqs: vec![SeqSpec { start: AddrSpec::abs(small(0x1000)), rows: vec![(0, 1, 0), (2, 7, 1), (5, 3, 2)], end_off: 9 }],
            }),
        }
    };
    let needs_second = matches!(val, ValSpec::DebugInfoRef(..));
    if single && needs_second {
        return None;
    }
    let units = if single { vec![mk_unit(0)] } else { vec![mk_unit(0), mk_unit(1)] };
    Some(CaseSpec { le: enc.le, single, units, strings: vec![b"alpha".to_vec(), b"".to_vec(), b"alpha".to_vec()], line_strings: vec![b"ls".to_vec(), vec![0xfe; 130]], symvals: wr::gen::symvals_for(enc.addr) })
}

pub fn run(ctx: &mut Ctx) {
    // ---- catalogue
    let kinds = wr::ALL_KINDS;
    let mut idx = 0u64;
    for enc in Enc::all() {
        for kind in kinds {
            for variant in 0..4u64 {
                for single in [false, true] {
                    idx += 1;
                    if !ctx.want("cat", idx) {
                        continue;
                    }
                    let Some(spec) = cat_case(enc, kind, variant, single) else { continue };
                    run_case(ctx, "cat", &spec, false);
                    ctx.counted_distinct += 0;
                }
            }
        }
    }
    // ---- random
    let n = ctx.size(14_000, 160_000, 6);
    for i in 0..n {
        if !ctx.want("rand", i) {
            continue;
        }
        let mut r = ctx.rng("rand", i);
        let symbolic_plain = r.chance(1, 40);
        let opts = GenOpts { symbolic: symbolic_plain, err_pct: if symbolic_plain { 0 } else { 25 }, max_entries: if ctx.quick() { 120 } else { 200 } };
        let spec = wr::gen_case(&mut r, opts);
        let has_sym = format!("{spec:?}").contains("sym: Some");
        run_case(ctx, "rand", &spec, symbolic_plain && has_sym);
    }
    // ---- abbreviation sharing
    shape::run(ctx);
    // ---- write order
    order::run(ctx);
}

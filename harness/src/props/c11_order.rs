//! C11, write-order dimension: `Dwarf::write` vs incremental per-unit write.
//!
//! The only public way to write a unit of a `write::Dwarf` before the others is the
//! step-wise converter (`Dwarf::convert` -> `read_unit` -> `ConvertUnit::convert` ->
//! `ConvertUnit::write`).  For a model M the sections S0 produced by `Dwarf::write` (verified
//! against M first) are read, converted unit by unit, a subset of the units is written right
//! after its conversion, `Dwarf::write` finishes, and the final sections are verified against
//! the same M with the same read-back oracle.  The generator is restricted (`GenExt::convertible`)
//! to requests that the converter maps back to the very same request, so that every
//! difference is the writer's.

use super::*;
use crate::gen::wr::gen::GenExt;

pub enum Rewrite {
    Ok(Secs),
    /// the converter refused (judged by C12, not here)
    ConvErr(String),
    WriteErr(String),
}

/// Re-emit `secs0`; unit i is written incrementally iff `subset[i]`.
pub fn rewrite(secs0: &Secs, le: bool, subset: &[bool]) -> Rewrite {
    let plan: Vec<Act> = subset.iter().map(|b| if *b { Act::Incremental } else { Act::Late }).collect();
    rewrite_plan(secs0, le, &plan)
}

#[derive(Clone, Copy, Debug, PartialEq, Eq)]
pub enum Act {
    /// written by the final `Dwarf::write`
    Late,
    /// `ConvertUnit::write` right after the conversion
    Incremental,
    /// `ConvertUnit::skip` instead of the conversion: the unit is never written
    Skip,
}

pub fn rewrite_plan(secs0: &Secs, le: bool, plan: &[Act]) -> Rewrite {
    let endian = endian_of(le);
    let dwarf: gimli::Dwarf<Slice<'_>> = match gimli::Dwarf::load(|id| -> Result<Slice<'_>, gimli::Error> { Ok(gimli::EndianSlice::new(secs0.get(id), endian)) }) {
        Ok(d) => d,
        Err(e) => return Rewrite::ConvErr(format!("load: {e:?}")),
    };
    let mut out = w::Dwarf::new();
    let mut sections = w::Sections::new(w::EndianVec::new(endian));
    {
        let mut conv = match out.convert(&dwarf) {
            Ok(c) => c,
            Err(e) => return Rewrite::ConvErr(format!("{e:?}")),
        };
        let mut i = 0usize;
        loop {
            let (mut unit, root) = match conv.read_unit() {
                Ok(Some(x)) => x,
                Ok(None) => break,
                Err(e) => return Rewrite::ConvErr(format!("{e:?}")),
            };
            let act = plan.get(i).copied().unwrap_or(Act::Late);
            if act == Act::Skip {
                unit.skip();
                i += 1;
                continue;
            }
            if let Err(e) = unit.convert(root, &|a| Some(w::Address::Constant(a))) {
                return Rewrite::ConvErr(format!("{e:?}"));
            }
            if act == Act::Incremental {
                if let Err(e) = unit.write(&mut sections) {
                    return Rewrite::WriteErr(format!("ConvertUnit::write of unit {i}: {e:?}"));
                }
            }
            i += 1;
        }
    }
    if let Err(e) = out.write(&mut sections) {
        return Rewrite::WriteErr(format!("Dwarf::write: {e:?}"));
    }
    let mut secs = Secs::default();
    for id in SECTION_IDS {
        if let Some(s) = sections.get(*id) {
            secs.m.insert(id.name(), s.slice().to_vec());
        }
    }
    Rewrite::Ok(secs)
}

pub const POLICIES: &[&str] = &["none", "all", "first", "last", "alt_even", "alt_odd", "random"];

/// The subset policies for `n` units; identical subsets are listed once (under the first name).
pub fn subsets(n: usize, r: &mut Rng) -> Vec<(&'static str, Vec<bool>)> {
    let mut rnd: Vec<bool> = (0..n).map(|_| r.bool()).collect();
    if n >= 3 {
        // make it differ from the fixed policies when possible
        for _ in 0..8 {
            let fixed = [vec![false; n], vec![true; n]];
            if !fixed.contains(&rnd) {
                break;
            }
            rnd = (0..n).map(|_| r.bool()).collect();
        }
    }
    let cands: Vec<(&'static str, Vec<bool>)> = vec![
        ("none", vec![false; n]),
        ("all", vec![true; n]),
        ("first", (0..n).map(|i| i == 0).collect()),
        ("last", (0..n).map(|i| i + 1 == n).collect()),
        ("alt_even", (0..n).map(|i| i % 2 == 0).collect()),
        ("alt_odd", (0..n).map(|i| i % 2 == 1).collect()),
        ("random", rnd),
    ];
    let mut out: Vec<(&'static str, Vec<bool>)> = vec![];
    for c in cands {
        if !out.iter().any(|o| o.1 == c.1) {
            out.push(c);
        }
    }
    out
}

/// Order of the units in `.debug_info`: the incrementally written ones first (each is written
/// "immediately"), the others when `Dwarf::write` runs.
pub fn phys_order(subset: &[bool]) -> Vec<usize> {
    let mut v: Vec<usize> = (0..subset.len()).filter(|i| subset[*i]).collect();
    v.extend((0..subset.len()).filter(|i| !subset[*i]));
    v
}

/// Cross-unit reference sites of the model: (site kind, source unit, target unit).
pub fn xref_sites(spec: &CaseSpec) -> Vec<(&'static str, usize, usize)> {
    fn walk(ops: &[XOp], f: &mut dyn FnMut(usize)) {
        for op in ops {
            match op {
                XOp::CallRef(uu, _) | XOp::VariableValue(uu, _) | XOp::ImplicitPointer(uu, _, _) => f(*uu),
                XOp::EntryValue(i) => walk(i, f),
                _ => {}
            }
        }
    }
    let mut out = vec![];
    for (u, us) in spec.units.iter().enumerate() {
        for (k, _) in us.model_order() {
            for a in &us.entries[k].attrs {
                match &a.val {
                    ValSpec::DebugInfoRef(uu, _) => out.push(("attr", u, *uu)),
                    ValSpec::Exprloc(XSpec::Ops(ops)) => walk(ops, &mut |uu| out.push(("expr", u, uu))),
                    ValSpec::LocationListRef(l) => {
                        let site = if us.enc.version >= 5 { "loclists" } else { "loc" };
                        if let Some(l) = us.llists.get(*l) {
                            for (_, _, x) in wr::llist_items(l, us, &spec.symvals) {
                                if let XSpec::Ops(ops) = x {
                                    walk(ops, &mut |uu| out.push((site, u, uu)));
                                }
                            }
                        }
                    }
                    _ => {}
                }
            }
        }
    }
    out
}

/// One model through every subset policy.  `spec` must be convertible and encodable.
pub fn run_order_case(ctx: &mut Ctx, stream: &str, spec: &CaseSpec, r: &mut Rng) {
    ctx.eval();
    if wr::classify(spec, false) != Expect::MustOk {
        ctx.obs("order.skip.not_must_ok");
        return;
    }
    let desc = case_input(spec);
    let input = || json!({"spec": desc});
    let input: &dyn Fn() -> serde_json::Value = &input;
    if observe_quantifier(ctx, spec) {
        ctx.nontrivial(fnv(format!("{spec:?}").as_bytes()) ^ fnv(stream.as_bytes()));
    }
    let Some((res, secs0)) = ctx.guard("write", input, || write_plain(spec, AddrMode::Constant)) else { return };
    if let Err(e) = res {
        ctx.fail("write.err_for_encodable", &format!("write returned Err({e}) for a request the model classifies encodable"), input);
        return;
    }
    // S0 itself (Dwarf::write) against the model
    if !compare_readback_at(ctx, stream, spec, &secs0, None, "") {
        return;
    }
    ctx.obs("order.s0_verified");
    let n = spec.units.len();
    ctx.obs(&format!("order.units.{}", n.min(4)));
    let sites = xref_sites(spec);
    let le = spec.le;
    for (policy, subset) in subsets(n, r) {
        let rw = ctx.guard(&format!("order.{policy}.rewrite"), input, || rewrite(&secs0, le, &subset));
        let Some(rw) = rw else { continue };
        match rw {
            Rewrite::ConvErr(e) => {
                // the same for every policy
                ctx.obs("order.convert_err");
                let variant: String = e.chars().take_while(|c| c.is_ascii_alphanumeric()).collect();
                ctx.obs(&format!("order.convert_err.{variant}"));
                return;
            }
            Rewrite::WriteErr(e) => {
                ctx.fail(&format!("order.{policy}.write_err"), &format!("policy {policy} (incremental: {subset:?}): {e} for sections that Dwarf::write produced from an encodable request"), &|| json!({"spec": desc, "s0": secs0.json()}));
            }
            Rewrite::Ok(secs) => {
                let phys = phys_order(&subset);
                if !compare_readback_at(ctx, stream, spec, &secs, Some(&phys), &format!("order.{policy}.")) {
                    continue;
                }
                ctx.obs(&format!("order.policy.{policy}"));
                if phys.iter().enumerate().any(|(p, u)| p != *u) {
                    ctx.obs("order.phys_permuted");
                }
                let mut any_cross = false;
                for (site, a, b) in &sites {
                    if a == b {
                        ctx.obs(&format!("order.selfref.{site}.{}", if subset[*a] { "inc" } else { "late" }));
                        continue;
                    }
                    any_cross = true;
                    let cat = match (subset[*a], subset[*b]) {
                        (true, true) => {
                            if b > a {
                                "inc_to_later_inc"
                            } else {
                                "inc_to_earlier_inc"
                            }
                        }
                        (true, false) => "inc_to_late",
                        (false, true) => "late_to_inc",
                        (false, false) => "late_to_late",
                    };
                    ctx.obs(&format!("order.xref.{site}.{cat}"));
                }
                if any_cross && subset.iter().all(|b| *b) {
                    ctx.obs("order.all_incremental.cross_refs");
                    for (site, a, b) in &sites {
                        if a != b {
                            ctx.obs(&format!("order.all_incremental.{site}"));
                        }
                    }
                }
            }
        }
    }
    run_skip_case(ctx, stream, spec, &secs0, &sites, r);
}

/// The genuine defect found with the skip dimension (reported, open): a reference to an entry
/// of a unit that was dropped with `ConvertUnit::skip` makes `Dwarf::write` index the empty
/// offset table of that unit (`UnitOffsets::debug_info_offset`, src/write/unit.rs) and panic
/// instead of returning `Error::InvalidReference`.  While this is `true` exactly that panic
/// (message "index out of bounds", raised in write/unit.rs, for a model that does refer to
/// the skipped unit) is counted under `order.skip.known_panic` instead of being reported
/// (set the environment variable GV_C11_STRICT to report it).
pub const SKIP_KNOWN_PANIC_REF_TO_SKIPPED_UNIT: bool = false; // fixed in /repo (e89aec8)

/// One unit is dropped with `ConvertUnit::skip`, the others are written incrementally or
/// late.  Without references into the dropped unit the rest must read back as the model
/// minus that unit; with such references the request cannot be encoded and must be refused.
pub fn run_skip_case(ctx: &mut Ctx, stream: &str, spec: &CaseSpec, secs0: &Secs, sites: &[(&'static str, usize, usize)], r: &mut Rng) {
    let n = spec.units.len();
    if n < 2 {
        return;
    }
    let s = r.usize(n);
    let mode = r.below(3);
    let plan: Vec<Act> = (0..n)
        .map(|i| {
            if i == s {
                Act::Skip
            } else {
                match mode {
                    0 => Act::Late,
                    1 => Act::Incremental,
                    _ => {
                        if r.bool() {
                            Act::Incremental
                        } else {
                            Act::Late
                        }
                    }
                }
            }
        })
        .collect();
    let refs_into_skipped = sites.iter().any(|(_, a, b)| *a != s && *b == s);
    let desc = case_input(spec);
    let input = || json!({"spec": desc, "plan": format!("{plan:?}"), "s0": secs0.json()});
    let input: &dyn Fn() -> serde_json::Value = &input;
    let le = spec.le;
    let rw = match ctx.guard_raw("order.skip.rewrite", || rewrite_plan(secs0, le, &plan)) {
        Ok(rw) => rw,
        Err(p) => {
            if SKIP_KNOWN_PANIC_REF_TO_SKIPPED_UNIT && std::env::var_os("GV_C11_STRICT").is_none() && refs_into_skipped && p.file.ends_with("write/unit.rs") && p.message.contains("index out of bounds") {
                ctx.obs("order.skip.known_panic");
            } else {
                ctx.report_panic("order.skip.rewrite", &p, input);
            }
            return;
        }
    };
    match rw {
        Rewrite::ConvErr(_) => ctx.obs("order.skip.convert_err"),
        Rewrite::WriteErr(e) => {
            if refs_into_skipped {
                ctx.obs("order.skip.refused");
            } else {
                ctx.fail("order.skip.write_err", &format!("plan {plan:?}: {e} although nothing refers to the skipped unit"), input);
            }
        }
        Rewrite::Ok(secs) => {
            if refs_into_skipped {
                ctx.fail("order.skip.ok_for_dangling_reference", &format!("plan {plan:?}: Ok although another unit refers to an entry of the skipped unit {s}"), &|| json!({"spec": desc, "plan": format!("{plan:?}"), "sections": secs.json()}));
                return;
            }
            let mut phys: Vec<usize> = (0..n).filter(|i| plan[*i] == Act::Incremental).collect();
            phys.extend((0..n).filter(|i| plan[*i] == Act::Late));
            if compare_readback_at(ctx, stream, spec, &secs, Some(&phys), "order.skip.") {
                ctx.obs("order.skip.verified");
                ctx.obs(match mode {
                    0 => "order.skip.others_late",
                    1 => "order.skip.others_incremental",
                    _ => "order.skip.others_mixed",
                });
            }
        }
    }
}

/// Deterministic three-unit model with cross-unit references in both directions from
/// attributes, attribute expressions and location-list expressions; the units differ in
/// version / format (variant).
pub fn ord_case(enc: Enc, variant: u64) -> CaseSpec {
    let idattr = |u: usize, k: usize| AttrSpec { name: ID_AT, val: ValSpec::Udata(wr::ident(u, k)) };
    let mut encs = [enc, enc, enc];
    encs[1].version = 2 + ((enc.version - 2) + 1 + (variant as u16 % 2) * 2) % 4;
    encs[(2 - (variant as usize / 2) % 2) % 3].fmt64 = !enc.fmt64;
    let mk_unit = |u: usize| -> UnitSpec {
        let e = encs[u];
        let (n1, n2) = ((u + 1) % 3, (u + 2) % 3);
        let root = EntrySpec { parent: 0, tag: 0x11, sibling: false, reserve_at: None, deleted: false, attrs: vec![idattr(u, 0), AttrSpec { name: 0x49, val: ValSpec::DebugInfoRef(n1, 2) }] };
        let a = EntrySpec {
            parent: 0,
            tag: 0x2e,
            sibling: true,
            reserve_at: None,
            deleted: false,
            attrs: vec![
                AttrSpec { name: 0x40, val: ValSpec::Exprloc(XSpec::Ops(vec![XOp::CallRef(n2, 2), XOp::ImplicitPointer(n1, 1, -3), XOp::Call(2), XOp::VariableValue(u, 3)])) },
                AttrSpec { name: 0x02, val: ValSpec::LocationListRef(0) },
                AttrSpec { name: 0x55, val: ValSpec::RangeListRef(0) },
                AttrSpec { name: 0x03, val: ValSpec::StringRef(u % 2) },
                idattr(u, 1),
                AttrSpec { name: 0x31, val: ValSpec::DebugInfoRef(n2, 3) },
            ],
        };
        let b = EntrySpec { parent: 0, tag: 0x34, sibling: false, reserve_at: Some(1), deleted: false, attrs: vec![idattr(u, 2), AttrSpec { name: 0x49, val: ValSpec::DebugInfoRef(u, 1) }, AttrSpec { name: 0x6e, val: ValSpec::LineStringRef(0) }] };
        let a_child = EntrySpec { parent: 1, tag: 0x05, sibling: false, reserve_at: None, deleted: false, attrs: vec![idattr(u, 3), AttrSpec { name: 0x3a, val: ValSpec::FileIndex(Some(1)) }] };
        let (rlists, llists0, line) = aux_parts(e, variant);
        let mut llists = llists0;
        llists[0] = LListSpec {
            pre: vec![],
            base: llists[0].base.clone(),
            pairs: vec![(1, 5, XSpec::Ops(vec![XOp::Fbreg(-8), XOp::VariableValue(n1, 3)])), (6, 9, XSpec::Ops(vec![XOp::CallRef(n2, 0), XOp::DerefType(false, 4, 2)]))],
        };
        UnitSpec { enc: e, entries: vec![root, a, b, a_child], phantoms: vec![], rlists, llists, line: Some(line) }
    };
    CaseSpec { le: enc.le, single: false, units: vec![mk_unit(0), mk_unit(1), mk_unit(2)], strings: vec![b"alpha".to_vec(), b"beta".to_vec()], line_strings: vec![b"ls".to_vec()], symvals: wr::gen::symvals_for(enc.addr) }
}

pub fn run(ctx: &mut Ctx) {
    // ---- systematic: 64 encodings x 4 variants x every policy
    let mut idx = 0u64;
    for enc in Enc::all() {
        for variant in 0..4u64 {
            idx += 1;
            if !ctx.want("ordcat", idx) {
                continue;
            }
            let mut r = ctx.rng("ordcat", idx);
            let spec = ord_case(enc, variant);
            run_order_case(ctx, "ordcat", &spec, &mut r);
        }
    }
    // ---- random models
    let n = ctx.size(2_400, 30_000, 6);
    for i in 0..n {
        if !ctx.want("order", i) {
            continue;
        }
        let mut r = ctx.rng("order", i);
        let opts = GenOpts { symbolic: false, err_pct: 0, max_entries: 60 };
        let ext = GenExt { convertible: true, min_units: if r.chance(1, 8) { 0 } else { 2 }, xref_pct: 25 };
        let spec = wr::gen::gen_case_ext(&mut r, opts, ext);
        run_order_case(ctx, "order", &spec, &mut r);
    }
}

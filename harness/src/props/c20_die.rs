//! C20 clauses 2 and 3: `EntriesRaw::read_entry` / `read_attributes` into reused buffers,
//! and `EntriesTree::root()` after partial traversals, vs fresh state.

use super::{flush, Out};
use crate::asm::{Asm, Enc};
use crate::rt::{hex, Ctx, Rng};
use gimli::read::{Attribute, DebugAbbrev, DebugInfo, DebuggingInformationEntry, EntriesRaw, EntriesTreeNode, UnitHeader};
use gimli::{EndianSlice, RunTimeEndian, UnitOffset};
use serde_json::json;

type R<'a> = EndianSlice<'a, RunTimeEndian>;

// ---------------------------------------------------------------- generated units

#[derive(Clone, Debug)]
pub struct DieUnit {
    pub enc: Enc,
    pub abbrev: Vec<u8>,
    pub info: Vec<u8>,
    /// unit offsets of every entry (including nulls), in section order
    pub entry_offsets: Vec<usize>,
    pub hdr_size: usize,
    pub max_depth: usize,
    pub note: String,
}

struct AbbrevDef {
    code: u64,
    tag: u16,
    children: bool,
    attrs: Vec<(u16, u16)>,
}

const F_ADDR: u16 = 0x01;
const F_DATA2: u16 = 0x05;
const F_DATA4: u16 = 0x06;
const F_DATA8: u16 = 0x07;
const F_STRING: u16 = 0x08;
const F_BLOCK1: u16 = 0x0a;
const F_DATA1: u16 = 0x0b;
const F_FLAG: u16 = 0x0c;
const F_SDATA: u16 = 0x0d;
const F_UDATA: u16 = 0x0f;
const F_REF4: u16 = 0x13;
const F_FLAG_PRESENT: u16 = 0x19;

fn abbrev_defs(enc: Enc) -> Vec<AbbrevDef> {
    let fp = if enc.version >= 4 { F_FLAG_PRESENT } else { F_FLAG };
    vec![
        AbbrevDef { code: 1, tag: 0x11, children: true, attrs: vec![(0x03, F_STRING), (0x13, F_DATA2)] },
        AbbrevDef {
            code: 2,
            tag: 0x2e,
            children: true,
            attrs: vec![(0x03, F_STRING), (0x01, F_REF4), (0x11, F_ADDR), (0x3f, fp), (0x3b, F_UDATA), (0x40, F_BLOCK1)],
        },
        AbbrevDef { code: 3, tag: 0x34, children: false, attrs: vec![(0x03, F_STRING)] },
        AbbrevDef { code: 4, tag: 0x0b, children: true, attrs: vec![] },
        AbbrevDef { code: 5, tag: 0x24, children: false, attrs: vec![(0x0b, F_DATA1), (0x3e, F_DATA1), (0x03, F_STRING)] },
        AbbrevDef { code: 6, tag: 0x05, children: false, attrs: vec![] },
        AbbrevDef { code: 7, tag: 0x13, children: true, attrs: vec![(0x01, F_REF4), (0x0b, F_UDATA)] },
        AbbrevDef {
            code: 8,
            tag: 0x0d,
            children: false,
            attrs: vec![
                (0x03, F_STRING),
                (0x0b, F_DATA1),
                (0x38, F_DATA2),
                (0x0d, F_DATA4),
                (0x1c, F_DATA8),
                (0x22, F_SDATA),
                (0x32, F_FLAG),
                (0x3b, F_UDATA),
            ],
        },
        // sparse code: goes through the map path of `Abbreviations`
        AbbrevDef { code: 300, tag: 0x16, children: false, attrs: vec![(0x49, F_REF4)] },
        AbbrevDef { code: 1000, tag: 0x0b, children: true, attrs: vec![(0x03, F_STRING)] },
    ]
}

fn emit_abbrevs(enc: Enc, defs: &[AbbrevDef]) -> Vec<u8> {
    let mut a = Asm::new(enc.le);
    a.map = false;
    for d in defs {
        a.uleb(d.code).uleb(d.tag as u64).u8(d.children as u8);
        for (at, form) in &d.attrs {
            a.uleb(*at as u64).uleb(*form as u64);
        }
        a.uleb(0).uleb(0);
    }
    a.uleb(0);
    a.buf
}

fn emit_attr(a: &mut Asm, enc: Enc, form: u16, r: &mut Rng) -> Option<usize> {
    let mut patch = None;
    match form {
        F_ADDR => {
            a.uint(enc.addr as usize, r.boundary() & enc.addr_mask());
        }
        F_DATA1 | F_FLAG => {
            a.u8(r.next() as u8);
        }
        F_DATA2 => {
            a.u16(r.next() as u16);
        }
        F_DATA4 => {
            a.u32(r.next() as u32);
        }
        F_DATA8 => {
            a.u64(r.boundary());
        }
        F_STRING => {
            let n = r.usize(5);
            let s: Vec<u8> = (0..n).map(|_| b'a' + (r.below(26) as u8)).collect();
            a.cstr(&s);
        }
        F_BLOCK1 => {
            let n = r.usize(4);
            a.u8(n as u8);
            let b = r.bytes(n);
            a.bytes(&b);
        }
        F_SDATA => {
            a.sleb(r.boundary() as i64);
        }
        F_UDATA => {
            a.uleb(r.boundary());
        }
        F_REF4 => {
            patch = Some(a.len());
            a.u32(0);
        }
        F_FLAG_PRESENT => {}
        _ => {}
    }
    patch
}

/// A well-formed unit with a random tree (<= `max_nodes` real entries).
pub fn gen_unit(r: &mut Rng, enc: Enc, max_nodes: usize) -> DieUnit {
    let defs = abbrev_defs(enc);
    let abbrev = emit_abbrevs(enc, &defs);
    let mut a = Asm::new(enc.le);
    a.map = false;
    let m = a.begin_length(enc.fmt64);
    a.u16(enc.version);
    if enc.version >= 5 {
        a.u8(1).u8(enc.addr).word(enc.fmt64, 0);
    } else {
        a.word(enc.fmt64, 0).u8(enc.addr);
    }
    let hdr_size = a.len();
    let mut entry_offsets = vec![];
    // stack of sibling patch positions of open parents
    let mut open: Vec<Option<usize>> = vec![];
    let mut nodes = 0usize;
    let mut max_depth = 0usize;
    let parents: Vec<usize> = defs.iter().enumerate().filter(|(_, d)| d.children).map(|(i, _)| i).collect();
    let leaves: Vec<usize> = defs.iter().enumerate().filter(|(_, d)| !d.children).map(|(i, _)| i).collect();
    let emit = |a: &mut Asm, r: &mut Rng, d: &AbbrevDef| -> Option<usize> {
        a.uleb(d.code);
        let mut sib = None;
        for (at, form) in &d.attrs {
            let p = emit_attr(a, enc, *form, r);
            if *at == 0x01 {
                sib = p;
            } else if let Some(p) = p {
                // a plain reference: point at the root entry
                a.patch_uint(p, 4, hdr_size as u64);
            }
        }
        sib
    };
    // root
    entry_offsets.push(a.len());
    let root_children = !r.chance(1, 12);
    if root_children {
        let sib = emit(&mut a, r, &defs[0]);
        let _ = sib;
        open.push(None);
    } else {
        emit(&mut a, r, &defs[2]);
    }
    nodes += 1;
    while !open.is_empty() {
        max_depth = max_depth.max(open.len());
        let depth = open.len();
        let choice = if nodes >= max_nodes { 5 } else { r.below(if depth >= 5 { 7 } else { 9 }) };
        match choice {
            0..=3 => {
                // leaf
                entry_offsets.push(a.len());
                let d = &defs[*r.pick(&leaves)];
                let sib = emit(&mut a, r, d);
                if let Some(p) = sib {
                    a.patch_uint(p, 4, hdr_size as u64);
                }
                nodes += 1;
            }
            4..=6 => {
                // close the current parent
                entry_offsets.push(a.len());
                a.u8(0);
                if let Some(Some(p)) = open.pop() {
                    let target = a.len() as u64;
                    a.patch_uint(p, 4, target);
                }
            }
            _ => {
                // nested parent
                entry_offsets.push(a.len());
                let d = &defs[*r.pick(&parents)];
                let sib = emit(&mut a, r, d);
                // sometimes leave DW_AT_sibling as 0 (invalid: not greater than the entry's offset)
                open.push(if r.chance(1, 6) { None } else { sib });
                nodes += 1;
            }
        }
    }
    a.end_length(m);
    DieUnit { enc, abbrev, info: a.buf, entry_offsets, hdr_size, max_depth, note: "valid".into() }
}

/// A damaged copy: truncated entries, invalid abbreviation code, unknown form, byte noise.
pub fn damage(u: &DieUnit, r: &mut Rng) -> DieUnit {
    let mut d = u.clone();
    let body = u.hdr_size;
    let len_off = if u.enc.fmt64 { 4 } else { 0 };
    let len_size = if u.enc.fmt64 { 8 } else { 4 };
    let hdr_len = if u.enc.fmt64 { 12 } else { 4 };
    match r.below(5) {
        0 => {
            // truncate the entries and keep the header consistent
            if u.info.len() > body + 1 {
                let cut = body + 1 + r.usize(u.info.len() - body - 1);
                d.info.truncate(cut);
                let mut a = Asm::new(u.enc.le);
                a.buf = d.info;
                a.patch_uint(len_off, len_size, (cut - hdr_len) as u64);
                d.info = a.buf;
                d.entry_offsets.retain(|o| *o < cut);
                d.note = format!("truncated@{cut}");
            }
        }
        1 => {
            // an entry's abbreviation code becomes an undefined code
            if u.entry_offsets.len() > 1 {
                let k = 1 + r.usize(u.entry_offsets.len() - 1);
                let off = u.entry_offsets[k];
                d.info[off] = 0x7f;
                d.note = format!("bad_code@{off}");
            }
        }
        2 => {
            // an unknown form in the abbreviation table (error when the entry is read)
            let pos = r.usize(d.abbrev.len());
            d.abbrev[pos] = 0x7e;
            d.note = format!("abbrev_byte@{pos}=0x7e");
        }
        3 => {
            let n = 1 + r.usize(3);
            for _ in 0..n {
                if d.info.len() > body {
                    let pos = body + r.usize(d.info.len() - body);
                    d.info[pos] = *r.pick(&[0u8, 1, 0x7f, 0x80, 0xff, 2, 8]);
                }
            }
            d.note = "noise".into();
        }
        _ => {
            // a null where an entry was (early end of a sibling list)
            if u.entry_offsets.len() > 2 {
                let k = 1 + r.usize(u.entry_offsets.len() - 1);
                let off = u.entry_offsets[k];
                d.info[off] = 0;
                d.note = format!("null@{off}");
            }
        }
    }
    d
}

pub fn endian(enc: Enc) -> RunTimeEndian {
    enc.endian()
}

/// Parse header + abbreviations of a generated unit (None when the damage hit them).
pub fn open_unit<'a>(u: &'a DieUnit) -> Option<(UnitHeader<R<'a>>, gimli::Abbreviations)> {
    let info = DebugInfo::new(&u.info, endian(u.enc));
    let header = info.units().next().ok()??;
    let abbrevs = header.abbreviations(&DebugAbbrev::new(&u.abbrev, endian(u.enc))).ok()?;
    Some((header, abbrevs))
}

#[derive(Clone, Debug, PartialEq)]
pub struct Snap {
    offset: usize,
    depth: isize,
    tag: u16,
    has_children: bool,
    attrs: Vec<String>,
}

pub fn snap(e: &DebuggingInformationEntry<R<'_>>) -> Snap {
    Snap {
        offset: e.offset().0,
        depth: e.depth(),
        tag: e.tag().0,
        has_children: e.has_children(),
        attrs: e.attrs().iter().map(attr_str).collect(),
    }
}

fn attr_str(a: &Attribute<R<'_>>) -> String {
    format!("{:?}", a)
}

// ---------------------------------------------------------------- clause 2: entry buffers

struct Pair<'u, 'ab> {
    a: EntriesRaw<'ab, R<'u>>,
    b: EntriesRaw<'ab, R<'u>>,
}

fn entry_case(units: &[DieUnit], r: &mut Rng, out: &mut Out) {
    let opened: Vec<Option<(UnitHeader<R<'_>>, gimli::Abbreviations)>> = units.iter().map(open_unit).collect();
    if opened.iter().all(|o| o.is_none()) {
        out.stats.add("entry.unit_unusable");
        return;
    }
    let mut reused: DebuggingInformationEntry<R<'_>> = DebuggingInformationEntry::null();
    let mut reused_attrs: Vec<Attribute<R<'_>>> = Vec::new();
    let mut cur: Vec<Option<Pair<'_, '_>>> = opened.iter().map(|_| None).collect();
    let total: usize = units.iter().map(|u| u.entry_offsets.len()).sum();
    let steps = 3 * total + 8;
    let mut after_err = false;
    let mut which = 0usize;
    for step in 0..steps {
        // choose unit / position
        let jump = cur[which].is_none() || r.chance(1, 4) || cur[which].as_ref().map(|p| p.a.is_empty()).unwrap_or(true);
        if jump {
            which = r.usize(units.len());
            let Some((header, abbrevs)) = &opened[which] else { continue };
            let u = &units[which];
            let off = if u.entry_offsets.is_empty() || r.chance(1, 10) {
                u.hdr_size + r.usize(u.info.len().saturating_sub(u.hdr_size).max(1))
            } else if r.chance(1, 3) {
                u.entry_offsets[0]
            } else {
                *r.pick(&u.entry_offsets)
            };
            let a = header.entries_raw(abbrevs, Some(UnitOffset(off)));
            let b = header.entries_raw(abbrevs, Some(UnitOffset(off)));
            match (a, b) {
                (Ok(a), Ok(b)) => cur[which] = Some(Pair { a, b }),
                _ => {
                    cur[which] = None;
                    continue;
                }
            }
        }
        let Some(pair) = cur[which].as_mut() else { continue };
        out.evals += 1;
        let note = || format!("step {step}, unit {which} ({})", units[which].note);
        if r.chance(4, 5) {
            let before = reused.attrs().len();
            let ra = pair.a.read_entry(&mut reused);
            let mut fresh = DebuggingInformationEntry::null();
            let rb = pair.b.read_entry(&mut fresh);
            out.cmp("entry.reuse.result", &rb, &ra, &note);
            match rb {
                Ok(nonnull) => {
                    let (sa, sb) = (snap(&reused), snap(&fresh));
                    out.cmp("entry.reuse.entry", &sb, &sa, &note);
                    out.cmp("entry.reuse.is_null", &fresh.is_null(), &reused.is_null(), &note);
                    out.stats.add(if nonnull { "entry.read.ok" } else { "entry.read.null" });
                    if after_err {
                        out.stats.add("entry.after_err");
                        after_err = false;
                    }
                    let now = fresh.attrs().len();
                    if now < before {
                        out.stats.add("entry.attrs.shrink");
                    } else if now > before {
                        out.stats.add("entry.attrs.grow");
                    }
                }
                Err(_) => {
                    out.stats.add("entry.read.err");
                    after_err = true;
                }
            }
        } else {
            let aa = pair.a.read_abbreviation();
            let ab = pair.b.read_abbreviation();
            out.cmp("entry.reuse.read_abbreviation", &ab.as_ref().map(|o| o.map(|x| x.code())), &aa.as_ref().map(|o| o.map(|x| x.code())), &note);
            if let (Ok(Some(xa)), Ok(Some(xb))) = (aa, ab) {
                let ra = pair.a.read_attributes(xa.attributes(), &mut reused_attrs);
                let mut fresh = Vec::new();
                let rb = pair.b.read_attributes(xb.attributes(), &mut fresh);
                out.cmp("entry.reuse.read_attributes.result", &rb, &ra, &note);
                if rb.is_ok() {
                    let sa: Vec<String> = reused_attrs.iter().map(attr_str).collect();
                    let sb: Vec<String> = fresh.iter().map(attr_str).collect();
                    out.cmp("entry.reuse.read_attributes.attrs", &sb, &sa, &note);
                }
                out.stats.add("entry.read_attributes");
            }
        }
        let sa = (pair.a.next_offset().0, pair.a.next_depth(), pair.a.is_empty());
        let sb = (pair.b.next_offset().0, pair.b.next_depth(), pair.b.is_empty());
        out.cmp("entry.reuse.raw_state", &sb, &sa, &note);
    }
}

// ---------------------------------------------------------------- clause 3: tree re-rooting

#[derive(Clone, Debug, PartialEq, Default)]
struct Trace {
    entries: Vec<Snap>,
    stopped: bool,
    err: Option<gimli::Error>,
    root_err: Option<gimli::Error>,
}

struct Walk {
    budget: usize,
    policy: u64,
    t: Trace,
}

fn descend(policy: u64, offset: usize, level: usize) -> bool {
    match policy {
        0 => true,
        1 => level < 1,
        _ => crate::rt::mix64(offset as u64 ^ policy) & 1 == 0,
    }
}

fn walk<'abbrev, 'tree>(node: EntriesTreeNode<'abbrev, 'tree, R<'_>>, w: &mut Walk, level: usize) -> bool {
    if w.t.entries.len() >= w.budget {
        w.t.stopped = true;
        return false;
    }
    let s = snap(node.entry());
    let off = s.offset;
    w.t.entries.push(s);
    if level > 64 || !descend(w.policy, off, level) {
        return true;
    }
    let mut ch = node.children();
    loop {
        match ch.next() {
            Ok(Some(c)) => {
                if !walk(c, w, level + 1) {
                    return false;
                }
            }
            Ok(None) => return true,
            Err(e) => {
                w.t.err = Some(e);
                return false;
            }
        }
    }
}

fn traverse(tree: &mut gimli::EntriesTree<'_, R<'_>>, budget: usize, policy: u64) -> Trace {
    let mut w = Walk { budget, policy, t: Trace::default() };
    match tree.root() {
        Ok(root) => {
            walk(root, &mut w, 0);
        }
        Err(e) => w.t.root_err = Some(e),
    }
    w.t
}

fn tree_case(u: &DieUnit, r: &mut Rng, out: &mut Out) {
    let Some((header, abbrevs)) = open_unit(u) else {
        out.stats.add("tree.unit_unusable");
        return;
    };
    let start: Option<UnitOffset> = if r.chance(1, 4) && !u.entry_offsets.is_empty() { Some(UnitOffset(*r.pick(&u.entry_offsets))) } else { None };
    let mk = || header.entries_tree(&abbrevs, start);
    let Ok(mut reused) = mk() else {
        out.stats.add("tree.offset_unusable");
        return;
    };
    const BIG: usize = usize::MAX;
    let policies = [0u64, 1, 2 + r.below(1000)];
    let mut full: Vec<Trace> = vec![];
    for p in policies {
        let Ok(mut t) = mk() else { return };
        full.push(traverse(&mut t, BIG, p));
    }
    if full[0].root_err.is_some() {
        out.stats.add("tree.root_err");
    }
    if full[0].err.is_some() {
        out.stats.add("tree.err");
    }
    for (pi, p) in policies.iter().enumerate() {
        let n = full[pi].entries.len();
        for k in 0..=n + 1 {
            // partial traversal on the reused tree vs a fresh tree
            let got = traverse(&mut reused, k, *p);
            let Ok(mut f) = mk() else { return };
            let want = traverse(&mut f, k, *p);
            out.evals += 1;
            let note = || format!("unit {} start {:?}: partial traversal stopping after {k} entries, policy {p}", u.note, start.map(|o| o.0));
            out.cmp("tree.reroot.partial", &want, &got, &note);
            if want.stopped {
                let d = want.entries.last().map(|e| e.depth).unwrap_or(0);
                out.stats.add(match d {
                    0 => "tree.stop.depth0",
                    1 => "tree.stop.depth1",
                    2 => "tree.stop.depth2",
                    _ => "tree.stop.depth3plus",
                });
            }
            // then re-root and traverse completely (policy rotates)
            let qi = (pi + k) % policies.len();
            let got = traverse(&mut reused, BIG, policies[qi]);
            out.evals += 1;
            let note = || format!("unit {} start {:?}: full traversal (policy {}) after a partial one of {k} entries (policy {p})", u.note, start.map(|o| o.0), policies[qi]);
            out.cmp("tree.reroot.full", &full[qi], &got, &note);
            out.stats.add("tree.reroot");
            if k % 3 == 0 {
                // a clone of a used tree, taken after another partial traversal
                let _ = traverse(&mut reused, k, *p);
                let mut c = reused.clone();
                let got = traverse(&mut c, BIG, policies[qi]);
                out.cmp("tree.clone.full", &full[qi], &got, &note);
                let got = traverse(&mut reused, BIG, policies[qi]);
                out.cmp("tree.clone.original", &full[qi], &got, &note);
                out.stats.add("tree.clone");
            }
        }
    }
}

// ---------------------------------------------------------------- driver

fn unit_json(u: &DieUnit) -> serde_json::Value {
    json!({"enc": u.enc.label(), "note": u.note, "debug_abbrev": hex(&u.abbrev), "debug_info": hex(&u.info)})
}

pub fn run(ctx: &mut Ctx) {
    let n = ctx.size(4_000, 40_000, 6);
    for i in 0..n {
        if !ctx.want("entry.reuse", i) {
            continue;
        }
        let mut r = ctx.rng("entry.reuse", i);
        let enc = Enc::nth(i);
        let mut units = vec![];
        let mx = 4 + r.usize(28);
        let u0 = gen_unit(&mut r, enc, mx);
        units.push(if r.chance(1, 3) { damage(&u0, &mut r) } else { u0.clone() });
        if r.bool() {
            let enc2 = if r.bool() { enc } else { Enc { le: enc.le, ..Enc::random(&mut r) } };
            let mx = 3 + r.usize(12);
            let u1 = gen_unit(&mut r, enc2, mx);
            units.push(if r.bool() { damage(&u1, &mut r) } else { u1 });
        } else if r.bool() {
            units.push(damage(&u0, &mut r));
        }
        let input = || json!({"units": units.iter().map(unit_json).collect::<Vec<_>>()});
        let mut r2 = r.clone();
        let res = ctx.guard("EntriesRaw.read_entry.reuse", &input, || {
            let mut out = Out::default();
            entry_case(&units, &mut r2, &mut out);
            out
        });
        flush(ctx, res, &input);
        let mut d = crate::rt::fnv(b"entry");
        for u in &units {
            d = crate::rt::fnv_add(d, &u.info);
            d = crate::rt::fnv_add(d, &u.abbrev);
        }
        ctx.nontrivial(d);
        if i < 2 {
            ctx.sample("entry.reuse", || json!({"units": units.iter().map(unit_json).collect::<Vec<_>>()}));
        }
    }
    let n = ctx.size(1_600, 16_000, 6);
    for i in 0..n {
        if !ctx.want("tree.reroot", i) {
            continue;
        }
        let mut r = ctx.rng("tree.reroot", i);
        let enc = Enc::nth(i / 3);
        let mx = 3 + r.usize(22);
        let u0 = gen_unit(&mut r, enc, mx);
        let u = if i % 3 == 2 { damage(&u0, &mut r) } else { u0 };
        let input = || unit_json(&u);
        let mut r2 = r.clone();
        let res = ctx.guard("EntriesTree.root.reuse", &input, || {
            let mut out = Out::default();
            tree_case(&u, &mut r2, &mut out);
            out
        });
        flush(ctx, res, &input);
        if u.entry_offsets.len() >= 2 {
            ctx.nontrivial(crate::rt::fnv_add(crate::rt::fnv(b"tree"), &u.info));
        }
        ctx.obs_max("tree.depth", u.max_depth as u64);
        if i < 2 {
            ctx.sample("tree.reroot", || unit_json(&u));
        }
    }
}

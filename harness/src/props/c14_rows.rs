//! C14 helper — an independent call-frame row interpreter over the *supplied* (write-side)
//! instructions.
//!
//! `XInsn` mirrors `gimli::write::CallFrameInstruction` one to one (the conversion in
//! `c14.rs` is a plain constructor mapping); offsets are the unfactored values handed to the
//! writer, so nothing here knows about alignment factors or opcodes.  Semantics follow
//! DWARF 5 §6.4.2 / DESIGN.md Appendix A.5:
//!
//! * state = stack of rows, top = working row {cfa, rules: reg -> rule, args_size};
//! * `initial` = the register rules at the end of the CIE's initial instructions;
//! * an FDE instruction at a code offset different from the current one closes the row
//!   [address + current, address + new) and starts the next; the end of the instructions
//!   closes the last row at address + length;
//! * restore(reg): rule := initial[reg], or the rule is removed when there is none;
//! * remember_state pushes a copy of the working row, restore_state pops it (the location
//!   is not part of the state);
//! * negate_ra_state toggles bit 0 of the Constant rule of RA_SIGN_STATE (absent = 0).
//!
//! No recursion, no arithmetic that can overflow (addresses are combined with wrapping
//! arithmetic and masked to the address size).

use std::collections::BTreeMap;

pub const RA_SIGN_STATE: u16 = 34;

#[derive(Clone, Debug, PartialEq, Eq, Hash)]
pub enum XOp {
    /// DW_OP_breg<n> / DW_OP_bregx
    Breg(u16, i64),
    /// DW_OP_plus_uconst
    PlusUconst(u64),
    /// DW_OP_deref
    Deref,
    /// any operand-less opcode
    Simple(u8),
}

#[derive(Clone, Debug, PartialEq, Eq, Hash)]
pub enum XExpr {
    Raw(Vec<u8>),
    Ops(Vec<XOp>),
}

fn uleb(mut v: u64, out: &mut Vec<u8>) {
    loop {
        let b = (v & 0x7f) as u8;
        v >>= 7;
        if v == 0 {
            out.push(b);
            return;
        }
        out.push(b | 0x80);
    }
}

fn sleb(mut v: i64, out: &mut Vec<u8>) {
    loop {
        let b = (v & 0x7f) as u8;
        let sign = b & 0x40 != 0;
        v >>= 7;
        if (v == 0 && !sign) || (v == -1 && sign) {
            out.push(b);
            return;
        }
        out.push(b | 0x80);
    }
}

impl XExpr {
    /// The bytes this expression denotes (DWARF 5 §7.7.1 opcodes, shortest forms).
    pub fn bytes(&self) -> Vec<u8> {
        match self {
            XExpr::Raw(b) => b.clone(),
            XExpr::Ops(ops) => {
                let mut out = vec![];
                for op in ops {
                    match *op {
                        XOp::Breg(r, off) => {
                            if r < 32 {
                                out.push(0x70 + r as u8);
                            } else {
                                out.push(0x92);
                                uleb(r as u64, &mut out);
                            }
                            sleb(off, &mut out);
                        }
                        XOp::PlusUconst(v) => {
                            out.push(0x23);
                            uleb(v, &mut out);
                        }
                        XOp::Deref => out.push(0x06),
                        XOp::Simple(b) => out.push(b),
                    }
                }
                out
            }
        }
    }
}

#[derive(Clone, Debug, PartialEq, Eq, Hash)]
pub enum XInsn {
    Cfa(u16, i32),
    CfaRegister(u16),
    CfaOffset(i32),
    CfaExpression(XExpr),
    Restore(u16),
    Undefined(u16),
    SameValue(u16),
    Offset(u16, i32),
    ValOffset(u16, i32),
    Register(u16, u16),
    Expression(u16, XExpr),
    ValExpression(u16, XExpr),
    RememberState,
    RestoreState,
    ArgsSize(u32),
    NegateRaState,
}

impl XInsn {
    pub fn name(&self) -> &'static str {
        match self {
            XInsn::Cfa(..) => "Cfa",
            XInsn::CfaRegister(..) => "CfaRegister",
            XInsn::CfaOffset(..) => "CfaOffset",
            XInsn::CfaExpression(..) => "CfaExpression",
            XInsn::Restore(..) => "Restore",
            XInsn::Undefined(..) => "Undefined",
            XInsn::SameValue(..) => "SameValue",
            XInsn::Offset(..) => "Offset",
            XInsn::ValOffset(..) => "ValOffset",
            XInsn::Register(..) => "Register",
            XInsn::Expression(..) => "Expression",
            XInsn::ValExpression(..) => "ValExpression",
            XInsn::RememberState => "RememberState",
            XInsn::RestoreState => "RestoreState",
            XInsn::ArgsSize(..) => "ArgsSize",
            XInsn::NegateRaState => "NegateRaState",
        }
    }
}

#[derive(Clone, Debug, PartialEq, Eq)]
pub enum MRule {
    Undefined,
    SameValue,
    Offset(i64),
    ValOffset(i64),
    Register(u16),
    Expression(Vec<u8>),
    ValExpression(Vec<u8>),
    Constant(u64),
    /// a rule kind the writer cannot produce (read side only)
    Other(String),
}

#[derive(Clone, Debug, PartialEq, Eq)]
pub enum MCfa {
    RegOff(u16, i64),
    Expr(Vec<u8>),
}

#[derive(Clone, Debug, PartialEq, Eq)]
pub struct MRow {
    pub start: u64,
    pub end: u64,
    /// `None`: no instruction has defined the CFA yet (not compared)
    pub cfa: Option<MCfa>,
    pub rules: BTreeMap<u16, MRule>,
    pub args: u64,
}

#[derive(Clone, Debug)]
struct Work {
    cfa: Option<MCfa>,
    rules: BTreeMap<u16, MRule>,
    args: u64,
}

#[derive(Clone, Debug)]
pub struct Interp {
    cur: Work,
    stack: Vec<Work>,
    initial: Option<BTreeMap<u16, MRule>>,
}

impl Default for Interp {
    fn default() -> Self {
        Self::new()
    }
}

impl Interp {
    pub fn new() -> Interp {
        Interp { cur: Work { cfa: None, rules: BTreeMap::new(), args: 0 }, stack: vec![], initial: None }
    }

    /// End of the CIE's initial instructions: remember the initial rules.
    pub fn end_cie(&mut self) {
        self.initial = Some(self.cur.rules.clone());
    }

    pub fn in_fde(&self) -> bool {
        self.initial.is_some()
    }
    pub fn cfa_is_regoff(&self) -> bool {
        matches!(self.cur.cfa, Some(MCfa::RegOff(..)))
    }
    pub fn depth(&self) -> usize {
        self.stack.len()
    }
    pub fn rule(&self, reg: u16) -> Option<&MRule> {
        self.cur.rules.get(&reg)
    }
    pub fn nrules(&self) -> usize {
        self.cur.rules.len()
    }

    /// Can `insn` be executed in the current state without leaving the defined part of the
    /// semantics?  (Used by the generator to keep programs well-formed.)
    pub fn accepts(&self, insn: &XInsn) -> bool {
        match insn {
            XInsn::CfaRegister(_) | XInsn::CfaOffset(_) => self.cfa_is_regoff(),
            XInsn::Restore(_) => self.in_fde(),
            XInsn::RestoreState => !self.stack.is_empty(),
            XInsn::NegateRaState => matches!(self.rule(RA_SIGN_STATE), None | Some(MRule::Constant(_))),
            _ => true,
        }
    }

    pub fn step(&mut self, insn: &XInsn) -> Result<(), &'static str> {
        match insn {
            XInsn::Cfa(r, off) => self.cur.cfa = Some(MCfa::RegOff(*r, *off as i64)),
            XInsn::CfaRegister(r) => match &mut self.cur.cfa {
                Some(MCfa::RegOff(reg, _)) => *reg = *r,
                _ => return Err("def_cfa_register without a register+offset CFA"),
            },
            XInsn::CfaOffset(off) => match &mut self.cur.cfa {
                Some(MCfa::RegOff(_, o)) => *o = *off as i64,
                _ => return Err("def_cfa_offset without a register+offset CFA"),
            },
            XInsn::CfaExpression(e) => self.cur.cfa = Some(MCfa::Expr(e.bytes())),
            XInsn::Restore(r) => {
                let Some(init) = &self.initial else { return Err("restore in a CIE") };
                match init.get(r) {
                    Some(rule) => {
                        self.cur.rules.insert(*r, rule.clone());
                    }
                    None => {
                        self.cur.rules.remove(r);
                    }
                }
            }
            XInsn::Undefined(r) => {
                self.cur.rules.insert(*r, MRule::Undefined);
            }
            XInsn::SameValue(r) => {
                self.cur.rules.insert(*r, MRule::SameValue);
            }
            XInsn::Offset(r, off) => {
                self.cur.rules.insert(*r, MRule::Offset(*off as i64));
            }
            XInsn::ValOffset(r, off) => {
                self.cur.rules.insert(*r, MRule::ValOffset(*off as i64));
            }
            XInsn::Register(r, s) => {
                self.cur.rules.insert(*r, MRule::Register(*s));
            }
            XInsn::Expression(r, e) => {
                self.cur.rules.insert(*r, MRule::Expression(e.bytes()));
            }
            XInsn::ValExpression(r, e) => {
                self.cur.rules.insert(*r, MRule::ValExpression(e.bytes()));
            }
            XInsn::RememberState => self.stack.push(self.cur.clone()),
            XInsn::RestoreState => match self.stack.pop() {
                Some(w) => self.cur = w,
                None => return Err("restore_state with nothing remembered"),
            },
            XInsn::ArgsSize(n) => self.cur.args = *n as u64,
            XInsn::NegateRaState => {
                let v = match self.cur.rules.get(&RA_SIGN_STATE) {
                    None => 0,
                    Some(MRule::Constant(v)) => *v,
                    Some(_) => return Err("negate_ra_state on a non-constant rule"),
                };
                self.cur.rules.insert(RA_SIGN_STATE, MRule::Constant(v ^ 1));
            }
        }
        Ok(())
    }

    fn row(&self, start: u64, end: u64) -> MRow {
        MRow { start, end, cfa: self.cur.cfa.clone(), rules: self.cur.rules.clone(), args: self.cur.args }
    }
}

/// The unwind rows denoted by `cie` (initial instructions) and `fde` (instructions at code
/// offsets) for a function at `address` of `length` bytes.
pub fn model_rows(cie: &[XInsn], fde: &[(u32, XInsn)], address: u64, length: u32, mask: u64) -> Result<Vec<MRow>, String> {
    let mut st = Interp::new();
    for i in cie {
        st.step(i).map_err(|e| format!("CIE: {e}"))?;
    }
    st.end_cie();
    let at = |off: u32| address.wrapping_add(off as u64) & mask;
    let mut rows = vec![];
    let mut cur: u32 = 0;
    for (off, insn) in fde {
        if *off != cur {
            rows.push(st.row(at(cur), at(*off)));
            cur = *off;
        }
        st.step(insn).map_err(|e| format!("FDE: {e}"))?;
    }
    rows.push(st.row(at(cur), at(length)));
    Ok(rows)
}

//! C20 — reused contexts, buffers, iterators and caches behave like fresh ones.
//!
//! Purely differential: every observation made on reused state (an `UnwindContext` that
//! already evaluated other FDEs, a `DebuggingInformationEntry` that already held other
//! entries, an `EntriesTree` that was partially traversed, a cloned iterator, a `Dwarf`
//! with a populated abbreviation cache) is compared with the same observation on fresh
//! state.  No reference model of DWARF semantics is involved.
//!
//! Clauses (one sub-module each):
//!   1. `c20_ctx`    — `UnwindContext` histories over a pool of FDEs, heap + custom storages
//!   2./3. `c20_die` — `EntriesRaw::read_entry` buffer reuse; `EntriesTree::root` re-rooting
//!   4. `c20_iter`   — clone-at-every-position for every `Clone` iterator type
//!   5. `c20_abbrev` — `AbbreviationsCache` strategies vs no cache

use crate::props::PropInfo;
use crate::rt::Ctx;
use serde_json::Value;
use std::collections::BTreeMap;

#[path = "c20_ctx.rs"]
mod ctx_reuse;
#[path = "c20_die.rs"]
mod die_reuse;
#[path = "c20_iter.rs"]
mod iter_clone;
#[path = "c20_abbrev.rs"]
mod abbrev_cache;

pub fn info() -> PropInfo {
    PropInfo {
        id: "C20",
        level: "exploration",
        rule: "Differential reused-vs-fresh. (1) UnwindContext: a hand-assembled pool of 24 FDEs (0/1/many initial rules; CIE failing by restore-in-CIE, def_cfa_offset after a CFA expression, pop of an empty stack, unknown opcode, StackFull while saving initial rules; FDE failing mid-way by pop, invalid context, StackFull, TooManyRegisterRules, set_loc backwards, truncated operand, address overflow; FDEs leaving remembered rows; args_size; CFA/register expressions; rows pushed by the CIE) in 8 section variants (.debug_frame CIE v1/v3/v4, .eh_frame zR; both byte orders, both formats, address sizes 1/2/4/8); every history of FDEs of length <= 3 (<= 4 thorough) is executed on one context under 4 mode patterns (full table iteration / partial iteration of k rows + into_current_row / FrameDescriptionEntry::unwind_info_for_address at probe addresses / UnwindSection::unwind_info_for_address) for 6 storages (StoreOnHeap, inline [4 rules,2 rows], [1,1], Box<[8],[3]>, growable Vec, inline [200,8]); each step's rows/current row/error and the context itself (==) are compared with a brand-new context; plus seeded random histories of length 4..30 with random modes and a clone of the reused context. A history is non-trivial when it has >= 2 steps; enumerated histories are distinct by construction (index <-> (variant, history) bijection), random ones are de-duplicated by (variant, storage, ops) digest. (2) read_entry: generated units (9 abbreviations with 0..8 attributes, sparse codes, nulls, DW_AT_sibling) and byte-mutated copies; sequential and random-jump schedules over one reused DebuggingInformationEntry and one reused attribute Vec vs fresh ones, across Ok(true)/Ok(false)/Err. (3) EntriesTree::root: every stop point k (every depth) x descend policy, then re-root and traverse again, vs fresh trees; trees with errors; clones of a used tree. (4) every Clone iterator type: a reference run of n steps, then for every position p <= n a clone taken at p and the original are both driven to the end (sequentially and interleaved) and must reproduce the reference suffix; inputs are gimli::write / hand-assembled seed sections and every-k-th byte mutation of them. (5) abbreviation cache: generated .debug_abbrev with several distinct tables, erroneous tables and out-of-range offsets, .debug_info/.debug_types units sharing offsets 0/1/2/3+ times; Dwarf::abbreviations and Dwarf::unit under populate sequences over {Duplicates, All} (1..3 calls, and after swapping the sections) vs an uncached Dwarf and vs DebugAbbrev::abbreviations.",
        assumptions: &[
            "after read_entry returns Err the contents of the entry are documented as unspecified ('Some fields in the entry may be modified'): only the error is compared, and the *next* read into the dirty entry must equal a read into a fresh entry",
            "the order in which UnwindTableRow::registers() yields rules is documented as unspecified: rows are compared with rules sorted by register; a differing order is only counted (secondary.rule_order)",
            "UnwindContext == is compared only when the step reached UnwindContext::initialize (a lookup that finds no FDE leaves the context untouched, so it legitimately keeps older state)",
            "whether AbbreviationsCacheStrategy::Duplicates actually caches a table (Arc identity) is not a result in the sense of the property; only the returned abbreviations / errors are compared",
            "RawRngListIter/RngListIter/RawLocListIter/LocListIter/NameTableIter/NameBucketIter/NameHashIter/NameEntryIter/EhHdrTableIter/RangeIter/EntriesTreeIter are not Clone in the pinned tree, so the clone clause does not apply to them",
        ],
        exhaustive_subspaces: &[
            "all FDE histories of length <= 3 over the 24-FDE pool x 8 section variants x 6 storages x 4 mode patterns (rel; dbg: one variant and two storage/pattern pairs per history)",
            "thorough: all FDE histories of length 4 (one variant/storage/pattern per history)",
            "EntriesTree: every stop point of every generated tree x 3 descend policies, followed by re-rooting",
            "clone position: every position 0..=n of every reference run",
            "populate sequences: all sequences of length <= 2 over {Duplicates, All} plus 4 of length 3",
        ],
        must_observe: &[
            "ctx.hist.len2", "ctx.hist.len3", "ctx.hist.random",
            "ctx.op.full", "ctx.op.partial", "ctx.op.probe", "ctx.op.lookup",
            "ctx.storage.heap", "ctx.storage.small4x2", "ctx.storage.tiny1x1", "ctx.storage.box8x3", "ctx.storage.vec", "ctx.storage.wide200x8",
            "ctx.kind.debug_frame", "ctx.kind.eh_frame",
            "ctx.fresh.ok", "ctx.err.StackFull", "ctx.err.TooManyRegisterRules", "ctx.err.PopWithEmptyStack", "ctx.err.CfiInstructionInInvalidContext",
            "ctx.err.UnknownCallFrameInstruction", "ctx.err.InvalidCfiSetLoc", "ctx.err.UnexpectedEof", "ctx.err.AddressOverflow", "ctx.err.NoUnwindInfoForAddress",
            "ctx.ok_after_fail", "ctx.fail_after_ok", "ctx.fail_after_fail", "ctx.ctx_eq_checked", "ctx.clone_checked",
            "ctx.fde.ok0", "ctx.fde.ok1", "ctx.fde.okM", "ctx.fde.cie_restore_bad", "ctx.fde.cie_full", "ctx.fde.rule_overflow", "ctx.fde.leave_rows", "ctx.fde.args", "ctx.fde.cfa_expr",
            "entry.read.ok", "entry.read.null", "entry.read.err", "entry.after_err", "entry.attrs.shrink", "entry.attrs.grow", "entry.read_attributes",
            "tree.reroot", "tree.stop.depth0", "tree.stop.depth1", "tree.stop.depth2", "tree.stop.depth3plus", "tree.err", "tree.clone", "tree.root_err",
            "clone.DebugInfoUnitHeadersIter", "clone.DebugTypesUnitHeadersIter", "clone.EntriesCursor", "clone.EntriesRaw", "clone.LineRows", "clone.ResumedLineRows", "clone.LineInstructions",
            "clone.CfiEntriesIter.debug_frame", "clone.CfiEntriesIter.eh_frame", "clone.CallFrameInstructionIter", "clone.ArangeHeaderIter", "clone.ArangeEntryIter",
            "clone.AddrHeaderIter", "clone.AddrEntryIter", "clone.PubNamesEntryIter", "clone.PubTypesEntryIter", "clone.MacroIter", "clone.NameIndexHeaderIter",
            "clone.OperationIter", "clone.UnitIndexSectionIterator", "clone.RegisterRuleIter", "clone.positions", "clone.err_runs", "resume.sequences",
            "cache.none", "cache.Duplicates", "cache.All", "cache.populate.x2", "cache.populate.x3", "cache.swap", "cache.abbrev.ok", "cache.abbrev.err",
            "cache.offset.used1", "cache.offset.used2", "cache.offset.used3plus", "cache.offset.invalid", "cache.unit.ok", "cache.unit.err", "cache.type_units",
            "hook.ARRAYVEC_OPS",
        ],
        run,
    }
}

// ---------------------------------------------------------------- shared helpers

/// A difference between reused and fresh state, found inside a guarded closure.
#[derive(Debug, Clone)]
pub struct Mis {
    pub sig: String,
    pub want: String,
    pub got: String,
    pub note: String,
}

impl Mis {
    pub fn new(sig: impl Into<String>, want: impl Into<String>, got: impl Into<String>, note: impl Into<String>) -> Mis {
        Mis { sig: sig.into(), want: want.into(), got: got.into(), note: note.into() }
    }
}

/// Observation counters collected inside a guarded closure.
#[derive(Debug, Default, Clone)]
pub struct Stats(pub BTreeMap<String, u64>);

impl Stats {
    pub fn add(&mut self, k: &str) {
        self.add_n(k, 1);
    }
    pub fn add_n(&mut self, k: &str, n: u64) {
        if let Some(v) = self.0.get_mut(k) {
            *v += n;
        } else {
            self.0.insert(k.to_string(), n);
        }
    }
}

#[derive(Debug, Default)]
pub struct Out {
    pub mis: Vec<Mis>,
    pub stats: Stats,
    pub evals: u64,
}

impl Out {
    pub fn cmp<T: PartialEq + std::fmt::Debug>(&mut self, sig: &str, want: &T, got: &T, note: &dyn Fn() -> String) -> bool {
        if want == got {
            return true;
        }
        if self.mis.len() < 16 {
            self.mis.push(Mis::new(sig, format!("{want:?}"), format!("{got:?}"), note()));
        }
        false
    }
}

/// Report what a guarded closure found.
pub fn flush(ctx: &mut Ctx, out: Option<Out>, input: &dyn Fn() -> Value) {
    let Some(out) = out else { return };
    ctx.evals(out.evals);
    for (k, n) in &out.stats.0 {
        ctx.obs_n(k, *n);
    }
    for m in &out.mis {
        let note = m.note.clone();
        let inp = || {
            let mut v = input();
            if let Value::Object(o) = &mut v {
                o.insert("where".into(), Value::String(note.clone()));
            }
            v
        };
        ctx.check_eq(&m.sig, &m.want, &m.got, &inp);
    }
}

pub fn run(ctx: &mut Ctx) {
    // the asan profile runs every 3rd case of each stream
    ctx.asan_stride = 3;
    let av0 = gimli::verif::get(&gimli::verif::ARRAYVEC_OPS);
    ctx_reuse::run(ctx);
    let av1 = gimli::verif::get(&gimli::verif::ARRAYVEC_OPS);
    ctx.obs_n("hook.ARRAYVEC_OPS", av1.wrapping_sub(av0));
    if ctx.slow() {
        // Miri slice: only the UnwindContext reuse clause (ArrayVec clear/drop paths)
        return;
    }
    die_reuse::run(ctx);
    iter_clone::run(ctx);
    abbrev_cache::run(ctx);
    let sr = gimli::verif::get(&gimli::verif::SUBRANGE_OPS);
    ctx.obs_n("hook.SUBRANGE_OPS(total)", sr);
}

//! C19, clause "split-unit filters": `FilterUnitSection::new_split` +
//! `ConvertUnit::convert_split_with_filter` against `ConvertUnit::convert_split`.
//!
//! Workload: hand-assembled (`crate::asm`, nothing from `gimli::write`) DWARF 5 pairs of a
//! skeleton file (`.debug_info` with one `DW_UT_skeleton` unit carrying `DW_AT_dwo_name`,
//! a non-zero `DW_AT_addr_base` and a `DW_AT_low_pc`; `.debug_addr` = a foreign table full
//! of tombstones / zeros followed by this unit's table, in which the live slots are
//! surrounded by all-ones (-1), -2 and zero slots) and a `.dwo` file (`DW_UT_split_compile`
//! unit with 4-12 non-root entries named `u0e<k>` exactly like the forests of `c19.rs`,
//! `.debug_loclists` / `.debug_rnglists` with offset tables, `.debug_str_offsets` +
//! `.debug_str`, and a decoy `.debug_addr` that `make_dwo` must replace).  Reference edges:
//! `DW_FORM_ref4` attributes, exprloc expressions (`DW_OP_call4`, `DW_OP_GNU_parameter_ref`,
//! typed operations to top-level base types) and location lists reached through
//! `DW_FORM_loclistx` or `DW_FORM_sec_offset`, whose entries are `DW_LLE_startx_length`,
//! `startx_endx`, `base_addressx` + `offset_pair`, `offset_pair` relative to the unit's
//! (skeleton's) `DW_AT_low_pc`, `default_location`, `start_length`, `start_end`; lists also
//! hold dead entries (tombstone / zero slots, zero length, empty pairs).  `DW_AT_ranges`
//! through `DW_FORM_rnglistx` / `sec_offset` and `DW_AT_low_pc` through `DW_FORM_addrx` are
//! present so that the filter callback can observe the unit it is handed.
//!
//! Oracle (same closure rules as `c19.rs`, its `closure` worklist is reused on this model
//! graph: an entry pulls in its parent, everything it references from attributes,
//! expressions and *every* entry of its location lists, and its member-like children unless
//! it is a namespace): for every subset of required entries (<= 10 entries: all subsets)
//! (a) `convert_split` and (b) `new_split` + `convert_split_with_filter` are run, written,
//! read back; (b) must succeed whenever (a) does, its entry set must equal the model closure,
//! no reference may dangle, retained entries and the root must carry the attributes of (a).
//! Inside the filter loop the `read_unit` of the `FilterUnit` and of every
//! `FilterUnitEntry` must have the skeleton's `low_pc` / `addr_base`, and addresses, range
//! lists and location lists resolved through it must equal the model's.

use super::{closure, has_cycle, member_like, subsets_for, view, Edge, EdgeKind, Forest, Node};
use crate::asm::{uleb_bytes, Asm, Enc};
use crate::mon::dump::{self, D};
use crate::mon::entries::Secs;
use crate::props::c12::{conv_err_name, identity_address, load, write_dwarf};
use crate::rt::{Ctx, Rng};
use gimli::constants as c;
use gimli::write;
use gimli::SectionId;
use serde_json::{json, Value};
use std::collections::{BTreeMap, BTreeSet};

/// GENUINE FINDING (see REPORT.md): the filter scans location lists with the cooked
/// iterator (`UnitRef::locations`), which drops entries whose range is a tombstone or empty,
/// while the conversion walks the raw list and converts the expression of *every* entry
/// (before it discards zero-length ones).  An entry referenced only from such a dead entry
/// is therefore not reserved and the filtered conversion fails with `InvalidUnitRef`
/// although the unfiltered conversion of the same input succeeds.  While `true`, the main
/// streams put references only into live list entries; the stream `split.known.dead_refs`
/// keeps exercising dead entries with references and records what it sees as observations.
pub const SKIP_DEAD_ENTRY_REFS: bool = false;

// ---------------------------------------------------------------- model

#[derive(Clone, Copy, Debug, PartialEq, Eq)]
enum Lle {
    StartxLength,
    StartxEndx,
    BasexOffsetPair,
    UnitBaseOffsetPair,
    DefaultLocation,
    StartLength,
    StartEnd,
}

impl Lle {
    fn name(self) -> &'static str {
        match self {
            Lle::StartxLength => "startx_length",
            Lle::StartxEndx => "startx_endx",
            Lle::BasexOffsetPair => "base_addressx+offset_pair",
            Lle::UnitBaseOffsetPair => "unit_base+offset_pair",
            Lle::DefaultLocation => "default_location",
            Lle::StartLength => "start_length",
            Lle::StartEnd => "start_end",
        }
    }
}

#[derive(Clone, Debug)]
struct EdgeMeta {
    /// list entry kind carrying the edge (None: attribute / exprloc)
    lle: Option<Lle>,
    /// why the carrying list entry is dead, if it is
    dead: Option<&'static str>,
    /// form of the list attribute
    list_form: Option<&'static str>,
}

#[derive(Clone, Debug)]
enum OpSpec {
    Plain,
    Call4(usize),
    ParamRef(usize),
    /// variant 0..5, base type node
    Typed(u8, usize),
}

#[derive(Clone, Debug)]
struct ExprSpec {
    pre: bool,
    post: bool,
    op: OpSpec,
}

impl ExprSpec {
    fn plain(r: &mut Rng) -> ExprSpec {
        ExprSpec { pre: r.bool(), post: false, op: OpSpec::Plain }
    }
    fn emit(&self, le: bool, off: &dyn Fn(usize) -> u64) -> Vec<u8> {
        let mut a = Asm::new(le);
        a.map = false;
        if self.pre {
            a.u8(c::DW_OP_breg6.0).sleb(-8);
        }
        match &self.op {
            OpSpec::Plain => {
                a.u8(c::DW_OP_reg0.0);
            }
            OpSpec::Call4(t) => {
                a.u8(c::DW_OP_call4.0).u32(off(*t) as u32);
            }
            OpSpec::ParamRef(t) => {
                a.u8(c::DW_OP_GNU_parameter_ref.0).u32(off(*t) as u32);
            }
            OpSpec::Typed(v, t) => match v {
                0 => {
                    a.u8(c::DW_OP_deref_type.0).u8(4).uleb(off(*t));
                }
                1 => {
                    a.u8(c::DW_OP_regval_type.0).uleb(3).uleb(off(*t));
                }
                2 => {
                    a.u8(c::DW_OP_const_type.0).uleb(off(*t)).u8(4).bytes(&[1, 2, 3, 4]);
                }
                3 => {
                    a.u8(c::DW_OP_convert.0).uleb(off(*t));
                }
                _ => {
                    a.u8(c::DW_OP_reinterpret.0).uleb(off(*t));
                }
            },
        }
        if self.post {
            a.u8(c::DW_OP_stack_value.0);
        }
        a.buf
    }
}

#[derive(Clone, Debug)]
enum LocEnt {
    BaseAddressx(u64),
    StartxEndx(u64, u64, ExprSpec),
    StartxLength(u64, u64, ExprSpec),
    OffsetPair(u64, u64, ExprSpec),
    Default(ExprSpec),
    StartEnd(u64, u64, ExprSpec),
    StartLength(u64, u64, ExprSpec),
}

#[derive(Clone, Debug)]
enum RngEnt {
    BaseAddressx(u64),
    StartxEndx(u64, u64),
    StartxLength(u64, u64),
    OffsetPair(u64, u64),
    StartEnd(u64, u64),
    StartLength(u64, u64),
}

#[derive(Clone, Debug)]
enum AttrVal {
    Bytes(Vec<u8>),
    Ref4(usize),
    Expr(ExprSpec),
    /// sec_offset to location list k / range list k
    LocOff(usize),
    RngOff(usize),
}

#[derive(Clone, Debug)]
struct AttrSpec {
    at: gimli::DwAt,
    form: gimli::DwForm,
    val: AttrVal,
}

struct AddrTab {
    slots: Vec<u64>,
    live: Vec<usize>,
    tomb: Vec<usize>,
    zero: Vec<usize>,
}

pub(super) struct Case {
    enc: Enc,
    forest: Forest,
    meta: Vec<EdgeMeta>,
    main: Secs,
    dwo: Secs,
    low_pc: u64,
    addr_base: u64,
    /// expected results of resolving through the unit handed to the filter callback
    node_low_pc: BTreeMap<String, u64>,
    node_ranges: BTreeMap<String, Vec<(u64, u64)>>,
    node_locs: BTreeMap<String, Vec<(u64, u64)>>,
    has_dead_refs: bool,
}

// ---------------------------------------------------------------- generator

const CONTAINER_TOP: &[gimli::DwTag] = &[c::DW_TAG_subprogram, c::DW_TAG_structure_type, c::DW_TAG_namespace, c::DW_TAG_subprogram];
const CONTAINER_NESTED: &[gimli::DwTag] = &[c::DW_TAG_structure_type, c::DW_TAG_namespace, c::DW_TAG_lexical_block];
const LEAVES: &[gimli::DwTag] = &[
    c::DW_TAG_formal_parameter,
    c::DW_TAG_member,
    c::DW_TAG_variable,
    c::DW_TAG_variable,
    c::DW_TAG_typedef,
    c::DW_TAG_pointer_type,
    c::DW_TAG_structure_type,
];

fn gen_addr_tab(r: &mut Rng, enc: Enc, hdr: usize) -> AddrTab {
    let mask = enc.addr_mask();
    let a = enc.addr as usize;
    let mut t = AddrTab { slots: vec![], live: vec![], tomb: vec![], zero: vec![] };
    let dead = |t: &mut AddrTab, r: &mut Rng, force: Option<bool>| {
        let tomb = force.unwrap_or_else(|| r.chance(2, 3));
        let i = t.slots.len();
        if tomb {
            t.slots.push(if r.chance(1, 5) { mask.wrapping_sub(1) } else { mask });
            t.tomb.push(i);
        } else {
            t.slots.push(0);
            t.zero.push(i);
        }
    };
    // leading dead slots: with base 0 the indices below hdr/a would read a table header
    let lead = (hdr + a - 1) / a;
    for _ in 0..lead {
        dead(&mut t, r, None);
    }
    dead(&mut t, r, Some(true));
    dead(&mut t, r, Some(false));
    let nlive = 3 + r.usize(4);
    for k in 0..nlive {
        if r.chance(1, 2) {
            dead(&mut t, r, None);
        }
        let i = t.slots.len();
        t.slots.push((0x1000 + 0x100 * k as u64) & mask);
        t.live.push(i);
        if r.chance(1, 2) {
            dead(&mut t, r, None);
        }
    }
    t
}

struct ListGen<'a> {
    tab: &'a AddrTab,
    enc: Enc,
}

/// (kind, entries of the group, dead reason)
type LocGroup = (Lle, Vec<LocEnt>, Option<&'static str>);

impl<'a> ListGen<'a> {
    fn live_pair(&self, r: &mut Rng) -> (u64, u64) {
        let n = self.tab.live.len();
        let i = r.usize(n - 1);
        let j = i + 1 + r.usize(n - 1 - i);
        (self.tab.live[i] as u64, self.tab.live[j] as u64)
    }
    fn live(&self, r: &mut Rng) -> u64 {
        *r.pick(&self.tab.live) as u64
    }
    fn tomb(&self, r: &mut Rng) -> u64 {
        *r.pick(&self.tab.tomb) as u64
    }
    fn zero(&self, r: &mut Rng) -> u64 {
        *r.pick(&self.tab.zero) as u64
    }
    /// One group of location list entries with exactly one data-carrying entry.
    fn loc_group(&self, r: &mut Rng, dead: bool, first: bool, e: ExprSpec, force: Option<u64>) -> LocGroup {
        let mask = self.enc.addr_mask();
        if !dead {
            match r.below(if first { 9 } else { 8 }) {
                0 | 1 => (Lle::StartxLength, vec![LocEnt::StartxLength(self.live(r), 4 + r.below(0x40), e)], None),
                2 | 3 => {
                    let (i, j) = self.live_pair(r);
                    (Lle::StartxEndx, vec![LocEnt::StartxEndx(i, j, e)], None)
                }
                4 | 5 => {
                    let b = r.below(0x40);
                    (Lle::BasexOffsetPair, vec![LocEnt::BaseAddressx(self.live(r)), LocEnt::OffsetPair(b, b + 1 + r.below(0x20), e)], None)
                }
                6 => (Lle::StartLength, vec![LocEnt::StartLength(0x2000 + r.below(0x100), 1 + r.below(0x20), e)], None),
                7 => {
                    let b = 0x2400 + r.below(0x100);
                    (Lle::StartEnd, vec![LocEnt::StartEnd(b, b + 1 + r.below(0x20), e)], None)
                }
                _ => {
                    // relative to the unit's base address = the skeleton's DW_AT_low_pc
                    let b = r.below(0x40);
                    (Lle::UnitBaseOffsetPair, vec![LocEnt::OffsetPair(b, b + 1 + r.below(0x20), e)], None)
                }
            }
        } else {
            match force.unwrap_or_else(|| r.below(8)) {
                0 | 1 => (Lle::StartxLength, vec![LocEnt::StartxLength(self.tomb(r), 4 + r.below(0x40), e)], Some("tombstone")),
                2 => (Lle::StartxLength, vec![LocEnt::StartxLength(self.live(r), 0, e)], Some("zero_length")),
                3 => {
                    let z = self.zero(r);
                    (Lle::StartxEndx, vec![LocEnt::StartxEndx(z, self.zero(r), e)], Some("zero_slots"))
                }
                4 => (Lle::StartxEndx, vec![LocEnt::StartxEndx(self.tomb(r), self.live(r), e)], Some("tombstone")),
                5 => {
                    let b = r.below(0x40);
                    (Lle::BasexOffsetPair, vec![LocEnt::BaseAddressx(self.tomb(r)), LocEnt::OffsetPair(b, b + 1 + r.below(0x20), e)], Some("tombstone_base"))
                }
                6 => {
                    let b = r.below(0x40);
                    (Lle::BasexOffsetPair, vec![LocEnt::BaseAddressx(self.live(r)), LocEnt::OffsetPair(b, b, e)], Some("empty_pair"))
                }
                _ => (Lle::StartLength, vec![LocEnt::StartLength(mask, 1 + r.below(0x20), e)], Some("tombstone")),
            }
        }
    }
    fn rng_group(&self, r: &mut Rng, dead: bool) -> Vec<RngEnt> {
        if !dead {
            match r.below(5) {
                0 | 1 => vec![RngEnt::StartxLength(self.live(r), 4 + r.below(0x40))],
                2 => {
                    let (i, j) = self.live_pair(r);
                    vec![RngEnt::StartxEndx(i, j)]
                }
                3 => {
                    let b = r.below(0x40);
                    vec![RngEnt::BaseAddressx(self.live(r)), RngEnt::OffsetPair(b, b + 1 + r.below(0x20))]
                }
                _ => {
                    if r.bool() {
                        vec![RngEnt::StartLength(0x2000 + r.below(0x100), 1 + r.below(0x20))]
                    } else {
                        let b = 0x2400 + r.below(0x100);
                        vec![RngEnt::StartEnd(b, b + 1 + r.below(0x20))]
                    }
                }
            }
        } else {
            match r.below(4) {
                0 => vec![RngEnt::StartxLength(self.tomb(r), 4 + r.below(0x40))],
                1 => {
                    let z = self.zero(r);
                    vec![RngEnt::StartxEndx(z, self.zero(r))]
                }
                2 => {
                    let b = r.below(0x40);
                    vec![RngEnt::BaseAddressx(self.tomb(r)), RngEnt::OffsetPair(b, b + 8)]
                }
                _ => vec![RngEnt::StartxLength(self.live(r), 0)],
            }
        }
    }
}

/// Resolved ranges of a location list the way a consumer sees them (DWARF 5 7.7.3 / 2.6.2):
/// tombstone (>= -2) and empty / inverted ranges are not locations.  `default_location` is
/// reported as (0, u64::MAX), the representation of the pinned tree.
fn cooked_locs(ents: &[LocEnt], tab: &AddrTab, enc: Enc, unit_base: u64) -> Vec<(u64, u64)> {
    let mask = enc.addr_mask();
    let min_tomb = mask.wrapping_sub(1);
    let slot = |i: u64| tab.slots.get(i as usize).copied().unwrap_or(0);
    let mut base = unit_base;
    let mut out = vec![];
    for e in ents {
        let (b, e2) = match e {
            LocEnt::BaseAddressx(i) => {
                base = slot(*i);
                continue;
            }
            LocEnt::StartxEndx(i, j, _) => (slot(*i), slot(*j)),
            LocEnt::StartxLength(i, l, _) => (slot(*i), slot(*i).wrapping_add(*l) & mask),
            LocEnt::OffsetPair(b, e2, _) => {
                if base >= min_tomb {
                    continue;
                }
                (base.wrapping_add(*b) & mask, base.wrapping_add(*e2) & mask)
            }
            LocEnt::Default(_) => {
                out.push((0, u64::MAX));
                continue;
            }
            LocEnt::StartEnd(b, e2, _) => (*b, *e2),
            LocEnt::StartLength(b, l, _) => (*b, b.wrapping_add(*l) & mask),
        };
        if b >= min_tomb || b >= e2 {
            continue;
        }
        out.push((b, e2));
    }
    out
}

fn cooked_rngs(ents: &[RngEnt], tab: &AddrTab, enc: Enc, unit_base: u64) -> Vec<(u64, u64)> {
    let mask = enc.addr_mask();
    let min_tomb = mask.wrapping_sub(1);
    let slot = |i: u64| tab.slots.get(i as usize).copied().unwrap_or(0);
    let mut base = unit_base;
    let mut out = vec![];
    for e in ents {
        let (b, e2) = match e {
            RngEnt::BaseAddressx(i) => {
                base = slot(*i);
                continue;
            }
            RngEnt::StartxEndx(i, j) => (slot(*i), slot(*j)),
            RngEnt::StartxLength(i, l) => (slot(*i), slot(*i).wrapping_add(*l) & mask),
            RngEnt::OffsetPair(b, e2) => {
                if base >= min_tomb {
                    continue;
                }
                (base.wrapping_add(*b) & mask, base.wrapping_add(*e2) & mask)
            }
            RngEnt::StartEnd(b, e2) => (*b, *e2),
            RngEnt::StartLength(b, l) => (*b, b.wrapping_add(*l) & mask),
        };
        if b >= min_tomb || b >= e2 {
            continue;
        }
        out.push((b, e2));
    }
    out
}

fn emit_loclist(a: &mut Asm, enc: Enc, ents: &[LocEnt], off: &dyn Fn(usize) -> u64) {
    let asz = enc.addr as usize;
    let data = |a: &mut Asm, e: &ExprSpec| {
        let b = e.emit(enc.le, off);
        a.uleb(b.len() as u64).bytes(&b);
    };
    for e in ents {
        match e {
            LocEnt::BaseAddressx(i) => {
                a.u8(c::DW_LLE_base_addressx.0).uleb(*i);
            }
            LocEnt::StartxEndx(i, j, x) => {
                a.u8(c::DW_LLE_startx_endx.0).uleb(*i).uleb(*j);
                data(a, x);
            }
            LocEnt::StartxLength(i, l, x) => {
                a.u8(c::DW_LLE_startx_length.0).uleb(*i).uleb(*l);
                data(a, x);
            }
            LocEnt::OffsetPair(b, e2, x) => {
                a.u8(c::DW_LLE_offset_pair.0).uleb(*b).uleb(*e2);
                data(a, x);
            }
            LocEnt::Default(x) => {
                a.u8(c::DW_LLE_default_location.0);
                data(a, x);
            }
            LocEnt::StartEnd(b, e2, x) => {
                a.u8(c::DW_LLE_start_end.0).uint(asz, *b).uint(asz, *e2);
                data(a, x);
            }
            LocEnt::StartLength(b, l, x) => {
                a.u8(c::DW_LLE_start_length.0).uint(asz, *b).uleb(*l);
                data(a, x);
            }
        }
    }
    a.u8(c::DW_LLE_end_of_list.0);
}

fn emit_rnglist(a: &mut Asm, enc: Enc, ents: &[RngEnt]) {
    let asz = enc.addr as usize;
    for e in ents {
        match e {
            RngEnt::BaseAddressx(i) => {
                a.u8(c::DW_RLE_base_addressx.0).uleb(*i);
            }
            RngEnt::StartxEndx(i, j) => {
                a.u8(c::DW_RLE_startx_endx.0).uleb(*i).uleb(*j);
            }
            RngEnt::StartxLength(i, l) => {
                a.u8(c::DW_RLE_startx_length.0).uleb(*i).uleb(*l);
            }
            RngEnt::OffsetPair(b, e2) => {
                a.u8(c::DW_RLE_offset_pair.0).uleb(*b).uleb(*e2);
            }
            RngEnt::StartEnd(b, e2) => {
                a.u8(c::DW_RLE_start_end.0).uint(asz, *b).uint(asz, *e2);
            }
            RngEnt::StartLength(b, l) => {
                a.u8(c::DW_RLE_start_length.0).uint(asz, *b).uleb(*l);
            }
        }
    }
    a.u8(c::DW_RLE_end_of_list.0);
}

/// A v5 list section: header, offset table, lists.  Returns (bytes, section offsets of the lists).
fn build_list_section(enc: Enc, lists: &[Vec<u8>]) -> (Vec<u8>, Vec<u64>) {
    let mut a = Asm::new(enc.le);
    a.map = false;
    let m = a.begin_length(enc.fmt64);
    a.u16(5).u8(enc.addr).u8(0).u32(lists.len() as u32);
    let base = a.len();
    let w = enc.word() as usize;
    let mut pos = lists.len() * w;
    let mut rel = vec![];
    for l in lists {
        rel.push(pos as u64);
        pos += l.len();
    }
    for x in &rel {
        a.word(enc.fmt64, *x);
    }
    for l in lists {
        a.bytes(l);
    }
    a.end_length(m);
    let offs = rel.iter().map(|x| x + base as u64).collect();
    (a.buf, offs)
}

struct TreeNode {
    tag: gimli::DwTag,
    parent: Option<usize>,
    attrs: Vec<AttrSpec>,
    flag_children: bool,
}

fn is_container(tag: gimli::DwTag) -> bool {
    matches!(tag, c::DW_TAG_subprogram | c::DW_TAG_structure_type | c::DW_TAG_namespace | c::DW_TAG_lexical_block)
}

/// `script = Some(kind)`: the minimal witness of the dead-entry finding instead of a random
/// pair: two top-level variables, `u0e0` has a DW_AT_location list whose only entry is the
/// dead entry of the given kind and holds `DW_OP_call4 -> u0e1`.
pub(super) fn gen_case(r: &mut Rng, enc: Enc, target_n: usize, dead_refs: bool, script: Option<u64>) -> Case {
    let target_n = if script.is_some() { 2 } else { target_n };
    let le = enc.le;
    let word = enc.word() as usize;
    let hdr_addr = if enc.fmt64 { 16 } else { 8 };
    let tab = gen_addr_tab(r, enc, hdr_addr);
    let lg = ListGen { tab: &tab, enc };
    let low_idx = lg.live(r);
    let low_pc = tab.slots[low_idx as usize];

    // ---- tree: base types first among the root's children
    let nbase = if script.is_some() { 0 } else if target_n >= 5 { 1 + r.usize(2) } else { r.usize(2) };
    let mut tn: Vec<TreeNode> = vec![];
    let mut open: Vec<(Option<usize>, gimli::DwTag)> = vec![(None, c::DW_TAG_compile_unit)];
    for k in 0..target_n {
        let (tag, parent) = if k < nbase {
            (c::DW_TAG_base_type, None)
        } else if script.is_some() {
            (c::DW_TAG_variable, None)
        } else {
            let (pnode, ptag) = *r.pick(&open);
            let top = pnode.is_none();
            let tag = if r.chance(2, 5) {
                if top {
                    *r.pick(CONTAINER_TOP)
                } else if ptag == c::DW_TAG_namespace && r.chance(1, 3) {
                    c::DW_TAG_subprogram
                } else {
                    *r.pick(CONTAINER_NESTED)
                }
            } else {
                *r.pick(LEAVES)
            };
            (tag, pnode)
        };
        if is_container(tag) {
            open.push((Some(k), tag));
        }
        tn.push(TreeNode { tag, parent, attrs: vec![], flag_children: false });
    }
    let n = tn.len();
    let base_nodes: Vec<usize> = (0..nbase).collect();
    let mut has_child = vec![false; n];
    for t in &tn {
        if let Some(p) = t.parent {
            has_child[p] = true;
        }
    }
    for k in 0..n {
        tn[k].flag_children = has_child[k] || (is_container(tn[k].tag) && r.chance(1, 4));
    }
    // pre-order (explicit stack)
    let mut kids: Vec<Vec<usize>> = vec![vec![]; n];
    let mut tops = vec![];
    for k in 0..n {
        match tn[k].parent {
            Some(p) => kids[p].push(k),
            None => tops.push(k),
        }
    }
    let mut order: Vec<usize> = vec![];
    let mut depth = vec![1usize; n];
    let mut stack: Vec<usize> = tops.iter().rev().copied().collect();
    while let Some(x) = stack.pop() {
        order.push(x);
        for &k in kids[x].iter().rev() {
            depth[k] = depth[x] + 1;
            stack.push(k);
        }
    }

    // ---- strings (.debug_str_offsets.dwo)
    let mut strings: Vec<Vec<u8>> = vec![b"producer gv".to_vec()];

    // ---- attributes, edges, lists
    let mut edges: Vec<Edge> = vec![];
    let mut meta: Vec<EdgeMeta> = vec![];
    let mut loc_lists: Vec<Vec<LocEnt>> = vec![];
    let mut rng_lists: Vec<Vec<RngEnt>> = vec![];
    let mut node_low_pc = BTreeMap::new();
    let mut node_ranges = BTreeMap::new();
    let mut node_locs = BTreeMap::new();
    let mut has_dead_refs = false;
    let name_of = |k: usize| format!("u0e{}", k);
    for k in 0..n {
        let tag = tn[k].tag;
        let mut attrs: Vec<AttrSpec> = vec![];
        let mut nm = name_of(k).into_bytes();
        nm.push(0);
        attrs.push(AttrSpec { at: c::DW_AT_name, form: c::DW_FORM_string, val: AttrVal::Bytes(nm) });
        attrs.push(AttrSpec { at: c::DW_AT_decl_line, form: c::DW_FORM_data1, val: AttrVal::Bytes(vec![k as u8 + 1]) });
        if tag == c::DW_TAG_base_type {
            attrs.push(AttrSpec { at: c::DW_AT_encoding, form: c::DW_FORM_data1, val: AttrVal::Bytes(vec![c::DW_ATE_signed.0]) });
            attrs.push(AttrSpec { at: c::DW_AT_byte_size, form: c::DW_FORM_data1, val: AttrVal::Bytes(vec![4]) });
            tn[k].attrs = attrs;
            continue;
        }
        if script.is_none() && matches!(tag, c::DW_TAG_subprogram | c::DW_TAG_variable) && r.chance(1, 2) {
            let idx = strings.len();
            strings.push(format!("_Z{}link", k).into_bytes());
            attrs.push(AttrSpec { at: c::DW_AT_linkage_name, form: c::DW_FORM_strx1, val: AttrVal::Bytes(vec![idx as u8]) });
        }
        if matches!(tag, c::DW_TAG_subprogram | c::DW_TAG_lexical_block) {
            match r.below(4) {
                0 | 1 => {
                    let idx = if r.chance(1, 5) { lg.tomb(r) } else { lg.live(r) };
                    attrs.push(AttrSpec { at: c::DW_AT_low_pc, form: c::DW_FORM_addrx, val: AttrVal::Bytes(uleb_bytes(idx)) });
                    attrs.push(AttrSpec { at: c::DW_AT_high_pc, form: c::DW_FORM_data1, val: AttrVal::Bytes(vec![0x20]) });
                    node_low_pc.insert(name_of(k), tab.slots[idx as usize]);
                }
                2 => {
                    let mut ents = vec![];
                    for _ in 0..1 + r.usize(3) {
                        let dead = r.chance(1, 3);
                        ents.extend(lg.rng_group(r, dead));
                    }
                    node_ranges.insert(name_of(k), cooked_rngs(&ents, &tab, enc, low_pc));
                    let li = rng_lists.len();
                    rng_lists.push(ents);
                    if r.chance(2, 3) {
                        attrs.push(AttrSpec { at: c::DW_AT_ranges, form: c::DW_FORM_rnglistx, val: AttrVal::Bytes(uleb_bytes(li as u64)) });
                    } else {
                        attrs.push(AttrSpec { at: c::DW_AT_ranges, form: c::DW_FORM_sec_offset, val: AttrVal::RngOff(li) });
                    }
                }
                _ => {}
            }
        }
        // reference edges
        let nedges = match (script, r.below(6)) {
            (Some(_), _) => (k == 0) as usize,
            (_, 0) => 0,
            (_, 1 | 2 | 3) => 1,
            (_, 4) => 2,
            _ => 3,
        };
        let mut ref_attrs = vec![c::DW_AT_type, c::DW_AT_specification, c::DW_AT_abstract_origin, c::DW_AT_import, c::DW_AT_containing_type];
        let mut expr_attrs = vec![c::DW_AT_frame_base, c::DW_AT_data_member_location, c::DW_AT_byte_size, c::DW_AT_call_value];
        let mut list_edges: Vec<(usize, ExprSpec)> = vec![];
        for _ in 0..nedges {
            let mut kinds = vec![EdgeKind::AttrUnit, EdgeKind::ExprCall, EdgeKind::ExprCall, EdgeKind::ExprParamRef];
            if !base_nodes.is_empty() {
                kinds.push(EdgeKind::ExprTyped);
                kinds.push(EdgeKind::ExprTyped);
            }
            let kind = if script.is_some() { EdgeKind::ExprCall } else { *r.pick(&kinds) };
            let to = if script.is_some() {
                1
            } else if kind == EdgeKind::ExprTyped {
                *r.pick(&base_nodes)
            } else {
                r.usize(n)
            };
            if kind == EdgeKind::AttrUnit {
                let Some(at) = ref_attrs.pop() else { continue };
                attrs.push(AttrSpec { at, form: c::DW_FORM_ref4, val: AttrVal::Ref4(to) });
                edges.push(Edge { from: k, to, kind, in_loclist: false });
                meta.push(EdgeMeta { lle: None, dead: None, list_form: None });
                continue;
            }
            let op = match kind {
                EdgeKind::ExprCall => OpSpec::Call4(to),
                EdgeKind::ExprParamRef => OpSpec::ParamRef(to),
                _ => OpSpec::Typed(r.below(5) as u8, to),
            };
            let x = ExprSpec { pre: r.bool(), post: r.bool(), op };
            if script.is_some() || (list_edges.len() < 2 && r.chance(3, 5)) {
                list_edges.push((edges.len(), x));
                edges.push(Edge { from: k, to, kind, in_loclist: true });
                meta.push(EdgeMeta { lle: None, dead: None, list_form: None });
            } else {
                let Some(at) = expr_attrs.pop() else { continue };
                attrs.push(AttrSpec { at, form: c::DW_FORM_exprloc, val: AttrVal::Expr(x) });
                edges.push(Edge { from: k, to, kind, in_loclist: false });
                meta.push(EdgeMeta { lle: None, dead: None, list_form: None });
            }
        }
        // the location list of this entry
        if !list_edges.is_empty() || r.chance(1, 5) {
            let use_index = r.chance(2, 3);
            let form_name = if use_index { "loclistx" } else { "sec_offset" };
            let mut groups: Vec<(LocGroup, bool)> = vec![];
            let mut unit_base_first: Option<LocGroup> = None;
            for (ei, x) in list_edges.drain(..) {
                let dead = script.is_some() || (dead_refs && r.chance(1, 2));
                let mut g = if r.chance(1, 8) && !dead {
                    (Lle::DefaultLocation, vec![LocEnt::Default(x)], None)
                } else {
                    lg.loc_group(r, dead, unit_base_first.is_none(), x, script)
                };
                meta[ei] = EdgeMeta { lle: Some(g.0), dead: g.2, list_form: Some(form_name) };
                if g.2.is_some() {
                    has_dead_refs = true;
                }
                if g.0 == Lle::UnitBaseOffsetPair {
                    unit_base_first = Some((g.0, std::mem::take(&mut g.1), g.2));
                } else {
                    groups.push((g, true));
                }
            }
            for _ in 0..(if script.is_some() { 0 } else { r.usize(3) }) {
                let dead = r.chance(1, 2);
                let plain = ExprSpec::plain(r);
                let g = lg.loc_group(r, dead, false, plain, None);
                groups.push((g, false));
            }
            // default_location entries may stand anywhere; keep at most one
            r.shuffle(&mut groups);
            let mut seen_default = false;
            let mut ents: Vec<LocEnt> = vec![];
            if let Some(g) = unit_base_first {
                ents.extend(g.1);
            }
            for (g, _) in groups {
                if g.0 == Lle::DefaultLocation {
                    if seen_default {
                        // (cannot happen for edge carriers more than once per list in practice; keep both)
                    }
                    seen_default = true;
                }
                ents.extend(g.1);
            }
            let _ = seen_default;
            node_locs.insert(name_of(k), cooked_locs(&ents, &tab, enc, low_pc));
            let li = loc_lists.len();
            loc_lists.push(ents);
            if use_index {
                attrs.push(AttrSpec { at: c::DW_AT_location, form: c::DW_FORM_loclistx, val: AttrVal::Bytes(uleb_bytes(li as u64)) });
            } else {
                attrs.push(AttrSpec { at: c::DW_AT_location, form: c::DW_FORM_sec_offset, val: AttrVal::LocOff(li) });
            }
        }
        // name stays first (identity), the rest in random order
        let mut rest = attrs.split_off(1);
        r.shuffle(&mut rest);
        attrs.extend(rest);
        tn[k].attrs = attrs;
    }

    // ---- .debug_rnglists.dwo (independent of entry offsets)
    let rl: Vec<Vec<u8>> = rng_lists
        .iter()
        .map(|l| {
            let mut a = Asm::new(le);
            a.map = false;
            emit_rnglist(&mut a, enc, l);
            a.buf
        })
        .collect();
    let (rng_sec, rng_offs) = build_list_section(enc, &rl);

    // ---- layout to a fixed point (typed operations hold ULEB128 entry offsets)
    let root_attrs: Vec<AttrSpec> = vec![
        AttrSpec { at: c::DW_AT_producer, form: c::DW_FORM_strx1, val: AttrVal::Bytes(vec![0]) },
        AttrSpec { at: c::DW_AT_language, form: c::DW_FORM_data1, val: AttrVal::Bytes(vec![0x0c]) },
        AttrSpec { at: c::DW_AT_name, form: c::DW_FORM_string, val: AttrVal::Bytes(b"root0\0".to_vec()) },
        AttrSpec { at: c::DW_AT_dwo_name, form: c::DW_FORM_string, val: AttrVal::Bytes(b"x.dwo\0".to_vec()) },
    ];
    let dwo_id = 0x0123_4567_89ab_cdefu64 ^ r.next();
    let mut offs: Vec<u64> = vec![0; n];
    let mut loc_offs: Vec<u64> = vec![0; loc_lists.len()];
    let mut info = vec![];
    let mut loc_sec = vec![];
    for _round in 0..6 {
        // location lists with the current entry offsets
        let ll: Vec<Vec<u8>> = loc_lists
            .iter()
            .map(|l| {
                let mut a = Asm::new(le);
                a.map = false;
                emit_loclist(&mut a, enc, l, &|t| offs[t]);
                a.buf
            })
            .collect();
        let (sec, lo) = build_list_section(enc, &ll);
        let mut a = Asm::new(le);
        a.map = false;
        let m = a.begin_length(enc.fmt64);
        a.u16(5).u8(c::DW_UT_split_compile.0).u8(enc.addr).word(enc.fmt64, 0).u64(dwo_id);
        let emit_attrs = |a: &mut Asm, attrs: &[AttrSpec]| {
            for at in attrs {
                match &at.val {
                    AttrVal::Bytes(b) => {
                        a.bytes(b);
                    }
                    AttrVal::Ref4(t) => {
                        a.u32(offs[*t] as u32);
                    }
                    AttrVal::Expr(x) => {
                        let b = x.emit(le, &|t| offs[t]);
                        a.uleb(b.len() as u64).bytes(&b);
                    }
                    AttrVal::LocOff(k) => {
                        a.word(enc.fmt64, lo[*k]);
                    }
                    AttrVal::RngOff(k) => {
                        a.word(enc.fmt64, rng_offs[*k]);
                    }
                }
            }
        };
        a.uleb(1);
        emit_attrs(&mut a, &root_attrs);
        let mut new_offs = vec![0u64; n];
        for (pos, &k) in order.iter().enumerate() {
            new_offs[k] = a.len() as u64;
            a.uleb(pos as u64 + 2);
            emit_attrs(&mut a, &tn[k].attrs);
            if tn[k].flag_children && !has_child[k] {
                a.u8(0);
            }
            if !has_child[k] {
                let next_depth = order.get(pos + 1).map(|&x| depth[x]).unwrap_or(0);
                for _ in next_depth..depth[k] {
                    a.u8(0);
                }
            }
        }
        if n == 0 {
            // root without children: nothing to close
        }
        a.end_length(m);
        let stable = new_offs == offs && lo == loc_offs;
        offs = new_offs;
        loc_offs = lo;
        info = a.buf;
        loc_sec = sec;
        if stable {
            break;
        }
    }

    // ---- .debug_abbrev.dwo
    let mut ab = Asm::new(le);
    ab.map = false;
    let emit_abbrev = |ab: &mut Asm, code: u64, tag: gimli::DwTag, children: bool, attrs: &[AttrSpec]| {
        ab.uleb(code).uleb(tag.0 as u64).u8(children as u8);
        for at in attrs {
            ab.uleb(at.at.0 as u64).uleb(at.form.0 as u64);
        }
        ab.u8(0).u8(0);
    };
    emit_abbrev(&mut ab, 1, c::DW_TAG_compile_unit, n > 0, &root_attrs);
    for (pos, &k) in order.iter().enumerate() {
        emit_abbrev(&mut ab, pos as u64 + 2, tn[k].tag, tn[k].flag_children, &tn[k].attrs);
    }
    ab.u8(0);

    // ---- .debug_str.dwo / .debug_str_offsets.dwo
    let mut strs = Asm::new(le);
    strs.map = false;
    let mut so = Asm::new(le);
    so.map = false;
    let m = so.begin_length(enc.fmt64);
    so.u16(5).u16(0);
    for s in &strings {
        so.word(enc.fmt64, strs.len() as u64);
        strs.cstr(s);
    }
    so.end_length(m);

    let mut dwo = Secs::default();
    dwo.set(SectionId::DebugInfo, info);
    dwo.set(SectionId::DebugAbbrev, ab.buf);
    dwo.set(SectionId::DebugLocLists, loc_sec);
    dwo.set(SectionId::DebugRngLists, rng_sec);
    dwo.set(SectionId::DebugStr, strs.buf);
    dwo.set(SectionId::DebugStrOffsets, so.buf);
    dwo.set(SectionId::DebugAddr, vec![0xdd; 64]);

    // ---- skeleton file: .debug_addr = foreign table + this unit's table
    let mut ad = Asm::new(le);
    ad.map = false;
    let asz = enc.addr as usize;
    let m = ad.begin_length(enc.fmt64);
    ad.u16(5).u8(enc.addr).u8(0);
    let mask = enc.addr_mask();
    for _ in 0..tab.slots.len() + 2 {
        ad.uint(asz, if r.chance(3, 4) { mask } else { 0 });
    }
    ad.end_length(m);
    let m = ad.begin_length(enc.fmt64);
    ad.u16(5).u8(enc.addr).u8(0);
    let addr_base = ad.len() as u64;
    for s in &tab.slots {
        ad.uint(asz, *s);
    }
    ad.end_length(m);

    let mut sk_attrs: Vec<(gimli::DwAt, gimli::DwForm, Vec<u8>)> = vec![];
    sk_attrs.push((c::DW_AT_dwo_name, c::DW_FORM_string, b"x.dwo\0".to_vec()));
    {
        let mut a = Asm::new(le);
        a.word(enc.fmt64, addr_base);
        sk_attrs.push((c::DW_AT_addr_base, c::DW_FORM_sec_offset, a.buf));
    }
    if r.chance(2, 3) {
        sk_attrs.push((c::DW_AT_low_pc, c::DW_FORM_addrx, uleb_bytes(low_idx)));
    } else {
        let mut a = Asm::new(le);
        a.uint(asz, low_pc);
        sk_attrs.push((c::DW_AT_low_pc, c::DW_FORM_addr, a.buf));
    }
    r.shuffle(&mut sk_attrs);
    let mut si = Asm::new(le);
    si.map = false;
    let m = si.begin_length(enc.fmt64);
    si.u16(5).u8(c::DW_UT_skeleton.0).u8(enc.addr).word(enc.fmt64, 0).u64(dwo_id);
    si.uleb(1);
    for (_, _, b) in &sk_attrs {
        si.bytes(b);
    }
    si.end_length(m);
    let mut sa = Asm::new(le);
    sa.map = false;
    sa.uleb(1).uleb(c::DW_TAG_skeleton_unit.0 as u64).u8(0);
    for (at, form, _) in &sk_attrs {
        sa.uleb(at.0 as u64).uleb(form.0 as u64);
    }
    sa.u8(0).u8(0).u8(0);
    let mut main = Secs::default();
    main.set(SectionId::DebugInfo, si.buf);
    main.set(SectionId::DebugAbbrev, sa.buf);
    main.set(SectionId::DebugAddr, ad.buf);
    let _ = word;

    let nodes: Vec<Node> = (0..n).map(|k| Node { unit: 0, k, tag: tn[k].tag, parent: tn[k].parent, name: name_of(k) }).collect();
    let forest = Forest { enc, nunits: 1, nodes, edges, secs: dwo.clone() };
    Case { enc, forest, meta, main, dwo, low_pc, addr_base, node_low_pc, node_ranges, node_locs, has_dead_refs }
}

// ---------------------------------------------------------------- conversion under test

/// What the filter loop saw through the units it was handed.
#[derive(Debug, Default, PartialEq)]
struct Seen {
    /// (low_pc, addr_base) of FilterUnit::read_unit, of read_skeleton_unit
    unit: Vec<(u64, u64)>,
    skeleton: Vec<Option<(u64, u64)>>,
    /// distinct (low_pc, addr_base) of FilterUnitEntry::read_unit
    entry_units: BTreeSet<(u64, u64)>,
    low_pc: BTreeMap<String, Result<Option<u64>, String>>,
    ranges: BTreeMap<String, Result<Vec<(u64, u64)>, String>>,
    locs: BTreeMap<String, Result<Vec<(u64, u64)>, String>>,
}

fn entry_name<R: gimli::Reader>(e: &gimli::DebuggingInformationEntry<R>) -> Option<String> {
    match e.attr_value(c::DW_AT_name) {
        Some(gimli::AttributeValue::String(s)) => {
            let b = s.to_slice().ok()?;
            super::parse_name(&b)
        }
        _ => None,
    }
}

fn convert_pair(case: &Case, required: Option<&BTreeSet<String>>, seen: &mut Seen) -> Result<write::Dwarf, write::ConvertError> {
    let endian = case.enc.endian();
    let parent = load(&case.main, endian);
    let mut split = load(&case.dwo, endian);
    split.make_dwo(&parent);
    let mut out = write::Dwarf::new();
    {
        let mut conv = out.convert(&parent)?;
        while let Some((mut unit, skel_root)) = conv.read_unit()? {
            let skel_ref = unit.read_unit;
            let mut cs = match required {
                None => unit.convert_split(&split)?,
                Some(req) => {
                    let mut filter = write::FilterUnitSection::new_split(&split, skel_ref)?;
                    while let Some(mut fu) = filter.read_unit()? {
                        seen.unit.push((fu.read_unit.low_pc, fu.read_unit.addr_base.0 as u64));
                        seen.skeleton.push(fu.read_skeleton_unit.map(|s| (s.low_pc, s.addr_base.0 as u64)));
                        let mut entry = fu.null_entry();
                        while fu.read_entry(&mut entry)? {
                            let Some(nm) = entry_name(&entry) else { continue };
                            let ru = entry.read_unit;
                            seen.entry_units.insert((ru.low_pc, ru.addr_base.0 as u64));
                            if let Some(v) = entry.attr_value(c::DW_AT_low_pc) {
                                seen.low_pc.insert(nm.clone(), ru.attr_address(v).map_err(|e| dump::err_name(&e)));
                            }
                            if let Some(v) = entry.attr_value(c::DW_AT_ranges) {
                                let res = (|| -> Result<Vec<(u64, u64)>, gimli::Error> {
                                    let mut v2 = vec![];
                                    if let Some(mut it) = ru.attr_ranges(v)? {
                                        while let Some(x) = it.next()? {
                                            v2.push((x.begin, x.end));
                                            if v2.len() > 1000 {
                                                break;
                                            }
                                        }
                                    }
                                    Ok(v2)
                                })();
                                seen.ranges.insert(nm.clone(), res.map_err(|e| dump::err_name(&e)));
                            }
                            if let Some(v) = entry.attr_value(c::DW_AT_location) {
                                if !matches!(v, gimli::AttributeValue::Exprloc(_)) {
                                    let res = (|| -> Result<Vec<(u64, u64)>, gimli::Error> {
                                        let mut v2 = vec![];
                                        if let Some(mut it) = ru.attr_locations(v)? {
                                            while let Some(x) = it.next()? {
                                                v2.push((x.range.begin, x.range.end));
                                                if v2.len() > 1000 {
                                                    break;
                                                }
                                            }
                                        }
                                        Ok(v2)
                                    })();
                                    seen.locs.insert(nm.clone(), res.map_err(|e| dump::err_name(&e)));
                                }
                            }
                            if req.contains(&nm) {
                                fu.require_entry(entry.offset);
                            }
                        }
                    }
                    unit.convert_split_with_filter(filter)?
                }
            };
            let (mut su, sroot) = cs.read_unit()?;
            su.convert(sroot, &identity_address)?;
            // the skeleton root's remaining attributes (DW_AT_low_pc), as the convert example does
            let root_id = su.unit.root();
            for attr in &skel_root.attrs {
                let v = su.convert_attribute_value(skel_root.read_unit, attr, &identity_address)?;
                su.unit.get_mut(root_id).set(attr.name(), v);
            }
        }
    }
    Ok(out)
}

fn run_pair(case: &Case, required: Option<&BTreeSet<String>>, seen: &mut Seen) -> Result<D, String> {
    let endian = case.enc.endian();
    let mut w = convert_pair(case, required, seen).map_err(|e| format!("conv.{}", conv_err_name(&e)))?;
    let out = write_dwarf(&mut w, endian).map_err(|e| format!("write.{}", dump::err_name(&e)))?;
    Ok(dump::dump_dwarf(&load(&out, endian)))
}

/// `->name` strings below an attribute list.
fn ref_targets(d: &D, out: &mut Vec<String>) {
    let mut stack = vec![d];
    while let Some(x) = stack.pop() {
        match x {
            D::S(s) => {
                if let Some(t) = s.strip_prefix("->") {
                    out.push(t.to_string());
                }
            }
            D::T(_, b) => stack.push(b),
            D::L(v) => stack.extend(v.iter()),
            D::R(f) => stack.extend(f.iter().map(|(_, v)| v)),
            _ => {}
        }
    }
}

fn root_attrs(d: &D) -> Option<(&D, Option<&D>)> {
    let u = d.get("units")?.list().first()?;
    let root = u.get("forest")?.list().first()?;
    Some((root.get("attrs")?, u.get("header")))
}

pub(super) fn check_case(ctx: &mut Ctx, case: &Case, r: &mut Rng, known_stream: bool) {
    let f = &case.forest;
    let n = f.nodes.len();
    let model = || {
        json!({
            "enc": f.enc.label(),
            "nodes": f.nodes.iter().map(|x| json!({"name": x.name, "tag": format!("{}", x.tag), "parent": x.parent.map(|p| f.nodes[p].name.clone())})).collect::<Vec<_>>(),
            "edges": f.edges.iter().zip(case.meta.iter()).map(|(e, m)| json!({"from": f.nodes[e.from].name, "to": f.nodes[e.to].name, "kind": e.kind.name(), "list_entry": m.lle.map(|l| l.name()), "dead": m.dead, "list_form": m.list_form})).collect::<Vec<_>>(),
            "skeleton": {"low_pc": case.low_pc, "addr_base": case.addr_base},
            "skeleton_file": case.main.json(),
            "dwo_file": case.dwo.json(),
        })
    };
    // ---- (a) unfiltered split conversion
    let base_input = || json!({"stage": "convert_split", "model": model()});
    let Some(base) = ctx.guard("convert_split", &base_input, || run_pair(case, None, &mut Seen::default())) else {
        return;
    };
    let base = match base {
        Ok(d) => d,
        Err(e) => {
            // the generator only produces well-formed pairs
            let sig = format!("c19.split.unfiltered.err.{}", e);
            ctx.fail(&sig, &format!("{}: convert_split of a well-formed skeleton + split unit pair failed", sig), &base_input);
            return;
        }
    };
    ctx.obs("split.unfiltered.ok");
    let base_view = view(&base);
    if base_view.entries.len() != n || base_view.dangling || base_view.error.is_some() {
        let sig = "c19.split.unfiltered.entries";
        ctx.fail(sig, &format!("{}: convert_split output has {} named entries (model {}), dangling={}, error={:?}", sig, base_view.entries.len(), n, base_view.dangling, base_view.error), &base_input);
        return;
    }
    // the model graph must be the graph gimli reads back (edges in dead list entries are not
    // visible in the read-back view: resolved lists skip them)
    {
        let mut got: BTreeSet<(String, String)> = BTreeSet::new();
        for (name, (_, _, attrs)) in &base_view.entries {
            let mut t = vec![];
            ref_targets(attrs, &mut t);
            for x in t {
                got.insert((name.clone(), x));
            }
        }
        let want: BTreeSet<(String, String)> = f.edges.iter().zip(case.meta.iter()).filter(|(_, m)| m.dead.is_none()).map(|(e, _)| (f.nodes[e.from].name.clone(), f.nodes[e.to].name.clone())).collect();
        let all: BTreeSet<(String, String)> = f.edges.iter().map(|e| (f.nodes[e.from].name.clone(), f.nodes[e.to].name.clone())).collect();
        if !want.is_subset(&got) || !got.is_subset(&all) {
            let sig = "c19.split.unfiltered.edges";
            ctx.fail(sig, &format!("{}: references read back from convert_split {:?} differ from the model's live edges {:?}", sig, got, want), &base_input);
            return;
        }
    }
    // ---- graph facts
    for (e, m) in f.edges.iter().zip(case.meta.iter()) {
        ctx.obs(&format!("split.edge.{}", e.kind.name()));
        if let Some(l) = m.lle {
            ctx.obs(&format!("split.edge.lle.{}", l.name()));
            ctx.obs(&format!("split.edge.list_form.{}", m.list_form.unwrap_or("?")));
            if let Some(d) = m.dead {
                ctx.obs(&format!("split.edge.dead_entry.{}", d));
            }
        }
    }
    for t in 0..n {
        let incoming: Vec<usize> = (0..f.edges.len()).filter(|&i| f.edges[i].to == t && f.edges[i].from != t).collect();
        if !incoming.is_empty() && incoming.iter().all(|&i| f.edges[i].in_loclist) {
            ctx.obs("split.edge.only_from_loclist");
            if incoming.iter().all(|&i| matches!(case.meta[i].lle, Some(Lle::StartxLength | Lle::StartxEndx | Lle::BasexOffsetPair))) {
                ctx.obs("split.edge.only_from_indexed_entry");
            }
        }
    }
    if has_cycle(f) {
        ctx.obs("split.graph.cycle");
    }
    let (subsets, exhaustive) = subsets_for(r, n);
    ctx.obs(if exhaustive { "split.subsets.exhaustive" } else { "split.subsets.sampled" });
    let digest = crate::rt::fnv_add(case.main.digest(), &case.dwo.digest().to_le_bytes());
    let mut seen_checked = false;
    for req in &subsets {
        ctx.eval();
        let expect = closure(f, req);
        let req_names: BTreeSet<String> = req.iter().map(|&i| f.nodes[i].name.clone()).collect();
        let expect_names: BTreeSet<String> = expect.iter().map(|&i| f.nodes[i].name.clone()).collect();
        let input = || json!({"stage": "convert_split_with_filter", "required": req_names, "expected_output": expect_names, "model": model()});
        let mut seen = Seen::default();
        let Some(res) = ctx.guard("convert_split_with_filter", &input, || run_pair(case, Some(&req_names), &mut seen)) else {
            continue;
        };
        if !req.is_empty() {
            ctx.nontrivial(crate::rt::fnv_add(digest, format!("split{:?}", req).as_bytes()));
            if expect.len() < n {
                ctx.obs("split.closure.proper_subset");
            }
        }
        for (i, nd) in f.nodes.iter().enumerate() {
            if let Some(p) = nd.parent {
                if expect.contains(&p) && member_like(nd.tag) && f.nodes[p].tag != c::DW_TAG_namespace {
                    ctx.obs("split.backedge.member_like.pulled");
                } else if expect.contains(&p) && !expect.contains(&i) {
                    ctx.obs("split.backedge.not_pulled");
                }
            }
        }
        // ---- the unit handed to the filter callback (same for every subset: check once per case)
        if !seen_checked && !seen.unit.is_empty() {
            seen_checked = true;
            let sk = (case.low_pc, case.addr_base);
            let want_units = vec![sk];
            if seen.unit != want_units || seen.skeleton != vec![Some(sk)] || seen.entry_units.iter().any(|x| *x != sk) {
                let sig = "c19.split.callback.unit_fields";
                ctx.fail(
                    sig,
                    &format!("{}: (low_pc, addr_base) of FilterUnit::read_unit {:x?}, read_skeleton_unit {:x?}, FilterUnitEntry::read_unit {:x?}; the skeleton has {:x?}", sig, seen.unit, seen.skeleton, seen.entry_units, sk),
                    &input,
                );
            } else {
                ctx.obs("split.callback.unit_fields");
            }
            let want_low: BTreeMap<String, Result<Option<u64>, String>> = case.node_low_pc.iter().map(|(k, v)| (k.clone(), Ok(Some(*v)))).collect();
            if seen.low_pc != want_low {
                let sig = "c19.split.callback.address";
                ctx.fail(sig, &format!("{}: DW_AT_low_pc (addrx) resolved through the callback's unit {:x?}, model {:x?}", sig, seen.low_pc, want_low), &input);
            } else if !want_low.is_empty() {
                ctx.obs("split.callback.address");
            }
            let want_rng: BTreeMap<String, Result<Vec<(u64, u64)>, String>> = case.node_ranges.iter().map(|(k, v)| (k.clone(), Ok(v.clone()))).collect();
            if seen.ranges != want_rng {
                let sig = "c19.split.callback.ranges";
                ctx.fail(sig, &format!("{}: DW_AT_ranges resolved through the callback's unit {:x?}, model {:x?}", sig, seen.ranges, want_rng), &input);
            } else if !want_rng.is_empty() {
                ctx.obs("split.callback.ranges");
            }
            let want_loc: BTreeMap<String, Result<Vec<(u64, u64)>, String>> = case.node_locs.iter().map(|(k, v)| (k.clone(), Ok(v.clone()))).collect();
            if seen.locs != want_loc {
                let sig = "c19.split.callback.locations";
                ctx.fail(sig, &format!("{}: location list ranges resolved through the callback's unit {:x?}, model {:x?}", sig, seen.locs, want_loc), &input);
            } else if !want_loc.is_empty() {
                ctx.obs("split.callback.locations");
            }
        }
        let d = match res {
            Err(e) => {
                if known_stream {
                    ctx.obs(&format!("split.known.filtered.err.{}", e));
                } else {
                    let sig = format!("c19.split.filtered.err.{}", e);
                    ctx.fail(&sig, &format!("{}: convert_split_with_filter failed although convert_split of the same pair succeeds", sig), &input);
                }
                continue;
            }
            Ok(d) => d,
        };
        ctx.obs("split.filtered.ok");
        let v = view(&d);
        let got: BTreeSet<String> = v.entries.keys().cloned().collect();
        if got != expect_names {
            let missing: Vec<&String> = expect_names.difference(&got).collect();
            let extra: Vec<&String> = got.difference(&expect_names).collect();
            if known_stream {
                ctx.obs("split.known.filtered.set_mismatch");
            } else {
                let sig = if !missing.is_empty() { "c19.split.output_set.missing" } else { "c19.split.output_set.extra" };
                ctx.fail(sig, &format!("{}: required {:?}: output lacks {:?} and has unexpected {:?} (model closure has {} entries, output {})", sig, req_names, missing, extra, expect_names.len(), got.len()), &input);
            }
            continue;
        }
        if v.dangling || v.error.is_some() {
            let sig = "c19.split.output.dangling_reference";
            ctx.fail(sig, &format!("{}: the filtered output contains a dangling reference or an unreadable node ({:?})", sig, v.error), &input);
            continue;
        }
        let out_units = d.get("units").map(|u| u.list().len()).unwrap_or(0);
        if out_units != 1 {
            let sig = "c19.split.output.unit_count";
            ctx.fail(sig, &format!("{}: {} units in the output of one skeleton + split pair", sig, out_units), &input);
            continue;
        }
        let mut bad = None;
        for (name, (parent, tag, attrs)) in &v.entries {
            let Some((bp, bt, ba)) = base_view.entries.get(name) else {
                bad = Some(format!("{} is not in the unfiltered output", name));
                break;
            };
            if bp != parent {
                bad = Some(format!("{}: parent {:?} <> unfiltered {:?}", name, parent, bp));
                break;
            }
            if bt != tag {
                bad = Some(format!("{}: tag differs", name));
                break;
            }
            if let Some(diff) = dump::first_diff(ba, attrs) {
                bad = Some(format!("{}: attributes differ from convert_split at {}", name, diff));
                break;
            }
            ctx.obs("split.attrs.compared");
        }
        if let Some(b) = bad {
            let sig = "c19.split.retained.attributes";
            ctx.fail(sig, &format!("{}: {}", sig, b), &input);
            continue;
        }
        if root_attrs(&base) != root_attrs(&d) || root_attrs(&d).is_none() {
            let sig = "c19.split.root.attributes";
            ctx.fail(sig, &format!("{}: unit header / root attributes differ from convert_split", sig), &input);
        }
    }
    ctx.sample(if known_stream { "split.known" } else { "split" }, || json!({"subsets": subsets.len(), "model": model()}));
}

fn pick_enc(r: &mut Rng) -> Enc {
    Enc::new(r.bool(), r.chance(1, 3), 5, *r.pick(&[2u8, 4, 4, 8, 8]))
}

/// Non-split twin of the dead-entry finding, through the plain `convert_with_filter` path of
/// `c19.rs`: one unit built with `gimli::write`, `u0e0` has a DW_AT_location list whose only
/// entry (tombstone start / empty range) holds `DW_OP_call4 -> u0e1`.
fn nonsplit_dead_witness(enc: Enc, variant: u64) -> Option<Forest> {
    use gimli::write::{Address, AttributeValue, Location};
    let mut dw = write::Dwarf::new();
    let mut unit = write::Unit::new(enc.encoding(), write::LineProgram::none());
    let root = unit.root();
    unit.get_mut(root).set(c::DW_AT_name, AttributeValue::String(b"root0".to_vec()));
    let e0 = unit.add(root, c::DW_TAG_variable);
    let e1 = unit.add(root, c::DW_TAG_variable);
    unit.get_mut(e0).set(c::DW_AT_name, AttributeValue::String(b"u0e0".to_vec()));
    unit.get_mut(e1).set(c::DW_AT_name, AttributeValue::String(b"u0e1".to_vec()));
    let mut e = write::Expression::new();
    e.op_call(e1);
    let loc = match variant {
        0 => Location::StartLength { begin: Address::Constant(enc.addr_mask()), length: 4, data: e },
        _ => Location::StartEnd { begin: Address::Constant(0x30), end: Address::Constant(0x20), data: e },
    };
    let lid = unit.locations.add(write::LocationList(vec![loc]));
    unit.get_mut(e0).set(c::DW_AT_location, AttributeValue::LocationListRef(lid));
    dw.units.add(unit);
    let secs = write_dwarf(&mut dw, enc.endian()).ok()?;
    let nodes = vec![
        Node { unit: 0, k: 0, tag: c::DW_TAG_variable, parent: None, name: "u0e0".into() },
        Node { unit: 0, k: 1, tag: c::DW_TAG_variable, parent: None, name: "u0e1".into() },
    ];
    Some(Forest { enc, nunits: 1, nodes, edges: vec![Edge { from: 0, to: 1, kind: EdgeKind::ExprCall, in_loclist: true }], secs })
}

pub fn run(ctx: &mut Ctx) {
    // minimal witnesses of the dead-entry finding: split (kinds 0..8 of the dead entries) and non-split
    for k in 0..10u64 {
        if !ctx.want_hashed("split.known.witness", k) {
            continue;
        }
        let mut r = ctx.rng("split.known.witness", k);
        let enc = Enc::new(true, false, 5, 8);
        let key = "known.filtered.err.conv.InvalidUnitRef";
        if k < 8 {
            let case = gen_case(&mut r, enc, 2, true, Some(k));
            let skey = format!("split.{}", key);
            let before = ctx.obs.get(&skey).copied().unwrap_or(0);
            check_case(ctx, &case, &mut r, SKIP_DEAD_ENTRY_REFS);
            let after = ctx.obs.get(&skey).copied().unwrap_or(0);
            let what = case.meta.first().map(|m| format!("{}.{}", m.lle.map(|l| l.name()).unwrap_or("?"), m.dead.unwrap_or("live"))).unwrap_or_default();
            ctx.obs(&format!("split.known.witness.{}.{}", what, if after > before { "InvalidUnitRef" } else { "ok" }));
            if after > before {
                ctx.sample("split.known.witness", || json!({"dead_entry": what, "required": ["u0e0"], "expected_output": ["u0e0", "u0e1"], "observed": "FilterUnitSection::new_split + convert_split_with_filter + ConvertUnit::convert fails with ConvertError::InvalidUnitRef; convert_split of the same pair succeeds", "skeleton_file": case.main.json(), "dwo_file": case.dwo.json()}));
            }
        } else if let Some(f) = nonsplit_dead_witness(enc, k - 8) {
            let before = ctx.obs.get(key).copied().unwrap_or(0);
            super::check_forest(ctx, &f, &mut r, SKIP_DEAD_ENTRY_REFS);
            let after = ctx.obs.get(key).copied().unwrap_or(0);
            ctx.obs(&format!("split.known.witness.nonsplit.{}.{}", if k == 8 { "start_length.tombstone" } else { "start_end.inverted" }, if after > before { "InvalidUnitRef" } else { "ok" }));
        }
    }
    // small pairs: every subset of required entries
    let n_small = ctx.size(36, 400, 3);
    for i in 0..n_small {
        if !ctx.want_hashed("split.small", i) {
            continue;
        }
        let mut r = ctx.rng("split.small", i);
        let enc = pick_enc(&mut r);
        let target = 4 + r.usize(7); // 4..=10
        let dead_refs = !SKIP_DEAD_ENTRY_REFS && r.chance(1, 3);
        let case = gen_case(&mut r, enc, target, dead_refs, None);
        check_case(ctx, &case, &mut r, false);
    }
    // larger pairs: sampled subsets
    let n_large = ctx.size(120, 1500, 3);
    for i in 0..n_large {
        if !ctx.want_hashed("split.large", i) {
            continue;
        }
        let mut r = ctx.rng("split.large", i);
        let enc = pick_enc(&mut r);
        let target = 11 + r.usize(2); // 11..=12
        let dead_refs = !SKIP_DEAD_ENTRY_REFS && r.chance(1, 3);
        let case = gen_case(&mut r, enc, target, dead_refs, None);
        check_case(ctx, &case, &mut r, false);
    }
    // references carried by dead list entries (observations only while skipped)
    let n_known = ctx.size(40, 300, 3);
    for i in 0..n_known {
        if !ctx.want_hashed("split.known.dead_refs", i) {
            continue;
        }
        let mut r = ctx.rng("split.known.dead_refs", i);
        let enc = pick_enc(&mut r);
        let target = 4 + r.usize(4);
        let case = gen_case(&mut r, enc, target, true, None);
        if case.has_dead_refs {
            ctx.obs("split.known.dead_refs.cases");
        }
        check_case(ctx, &case, &mut r, SKIP_DEAD_ENTRY_REFS);
    }
}

#[allow(dead_code)]
fn _unused(_: Value) {}

//! C15 generators: boundary catalogues, the atom enumeration of the `single` stream, random
//! programs over every builder, and programs of the evaluable subset.

use super::xcore::*;
use crate::rt::Rng;
use gimli::constants as dw;

pub const UVALS: &[u64] = &[
    0, 1, 2, 30, 31, 32, 33, 63, 64, 127, 128, 129, 255, 256, 0x3fff, 0x4000, 0xffff, 0x1_0000, 0x1f_ffff, 0x20_0000,
    0x7fff_ffff, 0x8000_0000, 0xffff_ffff, 0x1_0000_0000, (1 << 56) - 1, 1 << 56, 0x7fff_ffff_ffff_ffff,
    0x8000_0000_0000_0000, 0xffff_ffff_ffff_fffe, 0xffff_ffff_ffff_ffff,
];

pub const IVALS: &[i64] = &[
    0, 1, -1, 2, 31, 32, 63, 64, -63, -64, -65, 127, 128, -128, -129, 8191, 8192, -8192, -8193, 0x7fff_ffff, 0x8000_0000,
    -0x8000_0000, -0x8000_0001, i64::MAX, i64::MIN, i64::MIN + 1,
];

pub const REGS: &[u16] = &[0, 1, 30, 31, 32, 33, 127, 128, 16383, 16384, 65535];
pub const PICKS: &[u8] = &[0, 1, 2, 3, 127, 128, 255];
pub const BLOCKS: &[usize] = &[0, 1, 2, 8, 125, 126, 127, 128, 129, 255];

fn block(n: usize, salt: u64) -> Vec<u8> {
    (0..n).map(|i| (i as u64).wrapping_mul(37).wrapping_add(salt) as u8).collect()
}

// ---------------------------------------------------------------- fixed layout of `single`

/// Unit 0: 0 root, 1 base_type, 2 variable (the host), 3 subprogram, 4 base_type (added
/// after the host, moved to the front by the writer), 5 base_type child of 3, 6 variable
/// child of 3.  Unit 1: 0 root, 1 base_type, 2 variable.
pub fn single_layout(enc0: crate::asm::Enc, enc1: crate::asm::Enc) -> Plan {
    let e = |parent: usize, tag: gimli::DwTag| EntryPlan { parent, tag: tag.0, sibling: false, attrs: vec![] };
    Plan {
        le: enc0.le,
        units: vec![
            UnitPlan {
                enc: enc0,
                entries: vec![
                    e(0, dw::DW_TAG_compile_unit),
                    e(0, dw::DW_TAG_base_type),
                    e(0, dw::DW_TAG_variable),
                    e(0, dw::DW_TAG_subprogram),
                    e(0, dw::DW_TAG_base_type),
                    e(3, dw::DW_TAG_base_type),
                    e(3, dw::DW_TAG_variable),
                ],
            },
            UnitPlan { enc: enc1, entries: vec![e(0, dw::DW_TAG_compile_unit), e(0, dw::DW_TAG_base_type), e(0, dw::DW_TAG_variable)] },
        ],
    }
}

pub const SINGLE_HOST: usize = 2;

fn u0(entry: usize) -> ERef {
    ERef { unit: 0, entry }
}

/// Every builder with its boundary operands (references relative to `single_layout`).
pub fn atoms(le: bool) -> Vec<(&'static str, B)> {
    let mut v: Vec<(&'static str, B)> = vec![];
    for (op, _) in simple_table() {
        v.push(("op", B::Simple(op)));
    }
    for a in [0u64, 1, 0x7f, 0x80, 0xff, 0x100, 0xffff, 0x1_0000, 0xffff_ffff, 0x1_0000_0000, u64::MAX] {
        v.push(("op_addr", B::Addr(a)));
    }
    for &c in UVALS {
        v.push(("op_constu", B::Constu(c)));
        v.push(("op_plus_uconst", B::PlusUconst(c)));
    }
    for &c in IVALS {
        v.push(("op_consts", B::Consts(c)));
        v.push(("op_fbreg", B::Fbreg(c)));
    }
    for &r in REGS {
        v.push(("op_reg", B::Reg(r)));
        for o in [0i64, -1, 63, 64, -64, -65, i64::MIN, i64::MAX] {
            v.push(("op_breg", B::Breg(r, o)));
        }
        for t in [1usize, 4] {
            v.push(("op_regval_type", B::RegvalType(r, u0(t))));
        }
    }
    // safe targets (root, earlier base type, reordered base type, the host itself) and
    // forward targets (3, 5, 6)
    for t in [0usize, 1, 2, 4, 3, 5, 6] {
        v.push(("op_regval_type", B::RegvalType(5, u0(t))));
        v.push(("op_convert", B::Convert(Some(u0(t)))));
        v.push(("op_reinterpret", B::Reinterpret(Some(u0(t)))));
        v.push(("op_deref_type", B::DerefType(4, u0(t))));
        v.push(("op_xderef_type", B::XderefType(2, u0(t))));
        v.push(("op_const_type", B::ConstType(u0(t), block(4, t as u64))));
        v.push(("op_call", B::Call(u0(t))));
        v.push(("op_gnu_parameter_ref", B::ParameterRef(u0(t))));
    }
    v.push(("op_convert", B::Convert(None)));
    v.push(("op_reinterpret", B::Reinterpret(None)));
    for &p in PICKS {
        v.push(("op_pick", B::Pick(p)));
    }
    v.push(("op_deref", B::Deref));
    v.push(("op_xderef", B::Xderef));
    for s in [0u8, 1, 2, 4, 8, 9, 127, 128, 255] {
        v.push(("op_deref_size", B::DerefSize(s)));
        v.push(("op_xderef_size", B::XderefSize(s)));
        v.push(("op_deref_type", B::DerefType(s, u0(1))));
        v.push(("op_xderef_type", B::XderefType(s, u0(4))));
    }
    for &n in BLOCKS {
        v.push(("op_implicit_value", B::ImplicitValue(block(n, 3))));
        v.push(("op_const_type", B::ConstType(u0(1), block(n, 5))));
    }
    v.push(("op_const_type", B::ConstType(u0(1), block(256, 5))));
    for n in [256usize, 16380, 16381, 16383, 16384] {
        v.push(("op_implicit_value", B::ImplicitValue(block(n, 9))));
    }
    for unit in 0..2usize {
        for entry in 0..3usize {
            let t = ERef { unit, entry };
            v.push(("op_call_ref", B::CallRef(t)));
            v.push(("op_variable_value", B::VariableValue(t)));
            for o in [0i64, -1, 63, 64, -65, i64::MIN, i64::MAX] {
                v.push(("op_implicit_pointer", B::ImplicitPointer(t, o)));
            }
        }
    }
    for t in [3usize, 6] {
        v.push(("op_call_ref", B::CallRef(u0(t))));
        v.push(("op_variable_value", B::VariableValue(u0(t))));
        v.push(("op_implicit_pointer", B::ImplicitPointer(u0(t), 7)));
    }
    for &c in UVALS {
        if c < (1 << 61) {
            v.push(("op_piece", B::Piece(c)));
        }
        v.push(("op_bit_piece", B::BitPiece(c, 0)));
        v.push(("op_bit_piece", B::BitPiece(7, c)));
    }
    v.push(("op_piece", B::Piece((1 << 61) - 1)));
    v.push(("op_bit_piece", B::BitPiece(u64::MAX, u64::MAX)));
    for i in [0u32, 1, 127, 128, 16383, 16384, u32::MAX - 1, u32::MAX] {
        v.push(("op_wasm_local", B::WasmLocal(i)));
        v.push(("op_wasm_global", B::WasmGlobal(i)));
        v.push(("op_wasm_stack", B::WasmStack(i)));
    }
    // entry_value: empty, boundary lengths of the nested block (uleb length 127/128), nesting,
    // branches and references inside
    v.push(("op_entry_value", B::EntryValue(vec![])));
    for &r in &[0u16, 31, 32, 128] {
        v.push(("op_entry_value", B::EntryValue(vec![B::Reg(r)])));
    }
    for n in [123usize, 124, 125, 126, 127, 16380] {
        // implicit_value of n bytes is 1 + uleb(n) + n bytes long
        v.push(("op_entry_value", B::EntryValue(vec![B::ImplicitValue(block(n, 1))])));
        v.push(("op_entry_value", B::EntryValue(vec![B::EntryValue(vec![B::ImplicitValue(block(n, 2))]), B::Simple(dw::DW_OP_nop.0)])));
    }
    v.push(("op_entry_value", B::EntryValue(vec![B::Skip(2), B::Constu(32), B::Bra(1), B::Pick(1), B::Skip(5)])));
    v.push(("op_entry_value", B::EntryValue(vec![B::EntryValue(vec![B::EntryValue(vec![B::Bra(1), B::Pick(2), B::Skip(0)])]), B::Skip(0)])));
    v.push(("op_entry_value", B::EntryValue(vec![B::RegvalType(32, u0(1)), B::Convert(Some(u0(4))), B::Call(u0(6)), B::CallRef(ERef { unit: 1, entry: 2 })])));
    v.push(("op_entry_value", B::EntryValue(vec![B::Convert(Some(u0(5)))])));
    for k in 0..14u64 {
        for val in [0u64, 0x7f, 0x80, 0xffff_ffff_ffff_ff80] {
            v.push(("raw", B::Raw(vec![raw_op(k, val, le)])));
        }
    }
    v
}

/// The expression around an atom.  0: alone; 1: forward over it, backward to it, to the end;
/// 2: the same inside an entry_value; 3: backward over it to the start, forward to the end.
pub fn wrap(atom: &B, w: u64) -> Vec<B> {
    let atom = atom.clone();
    let is_raw = matches!(atom, B::Raw(_));
    match w % 4 {
        0 => vec![atom],
        1 if !is_raw => vec![B::Skip(2), atom, B::Bra(1), B::Skip(5), B::Simple(dw::DW_OP_nop.0)],
        2 if !is_raw => vec![B::Constu(32), B::EntryValue(vec![B::Skip(2), atom, B::Bra(1)]), B::Skip(0)],
        _ => {
            if is_raw {
                vec![atom, B::Bra(0), B::Skip(4), B::Pick(2)]
            } else {
                vec![B::Pick(1), atom, B::Bra(0), B::Skip(5), B::Constu(31)]
            }
        }
    }
}

// ---------------------------------------------------------------- random programs (all builders)

pub struct GenCtx {
    pub le: bool,
    pub addr_mask: u64,
    pub host_unit: usize,
    /// entries of the host unit that are safe targets of ULEB references
    pub safe: Vec<usize>,
    /// all entries of the host unit
    pub n_host: usize,
    /// entry counts of all units
    pub n_entries: Vec<usize>,
    pub allow_refs: bool,
    /// allow ULEB references to any entry of the host unit (location lists; forward cases)
    pub any_uleb: bool,
}

fn pick_u(r: &mut Rng) -> u64 {
    match r.below(4) {
        0 | 1 => *r.pick(UVALS),
        2 => r.below(70),
        _ => r.boundary(),
    }
}
fn pick_i(r: &mut Rng) -> i64 {
    match r.below(4) {
        0 | 1 => *r.pick(IVALS),
        2 => r.irange(-70, 70),
        _ => r.boundary() as i64,
    }
}
fn pick_reg(r: &mut Rng) -> u16 {
    if r.chance(2, 3) {
        *r.pick(REGS)
    } else {
        r.below(65536) as u16
    }
}
fn pick_block(r: &mut Rng, max: usize) -> Vec<u8> {
    let n = if r.chance(1, 2) { *r.pick(BLOCKS) } else { r.usize(20) };
    let n = n.min(max);
    let s = r.next();
    block(n, s)
}

fn uleb_target(r: &mut Rng, g: &GenCtx) -> ERef {
    let entry = if g.any_uleb { r.usize(g.n_host) } else { *r.pick(&g.safe) };
    ERef { unit: g.host_unit, entry }
}
fn any_target(r: &mut Rng, g: &GenCtx) -> ERef {
    let unit = r.usize(g.n_entries.len());
    ERef { unit, entry: r.usize(g.n_entries[unit]) }
}

pub fn gen_ops(r: &mut Rng, g: &GenCtx, len: usize, depth: usize) -> Vec<B> {
    let mut v: Vec<B> = Vec::with_capacity(len);
    if len > 0 && r.chance(1, 6) {
        let n = 1 + r.usize(3);
        let ops = (0..n).map(|_| raw_op(r.next(), pick_u(r), g.le)).collect();
        v.push(B::Raw(ops));
    }
    let simple = simple_table();
    while v.len() < len {
        let k = r.below(if g.allow_refs { 40 } else { 28 });
        let b = match k {
            0 | 1 => B::Simple(r.pick(&simple).0),
            2 => B::Constu(pick_u(r)),
            3 => B::Consts(pick_i(r)),
            4 => B::Fbreg(pick_i(r)),
            5 => B::Breg(pick_reg(r), pick_i(r)),
            6 => B::Pick(if r.chance(2, 3) { *r.pick(PICKS) } else { r.next() as u8 }),
            7 => B::Deref,
            8 => B::Xderef,
            9 => B::DerefSize(r.next() as u8),
            10 => B::XderefSize(r.next() as u8),
            11 => B::PlusUconst(pick_u(r)),
            12 | 13 | 14 => B::Skip(usize::MAX),
            15 | 16 | 17 => B::Bra(usize::MAX),
            18 => B::Convert(None),
            19 => B::Reinterpret(None),
            20 => {
                if depth < 3 {
                    let n = r.usize(5);
                    B::EntryValue(gen_ops(r, g, n, depth + 1))
                } else {
                    B::Simple(dw::DW_OP_nop.0)
                }
            }
            21 => B::Reg(pick_reg(r)),
            22 => B::ImplicitValue(pick_block(r, 300)),
            23 => B::Piece(pick_u(r) & ((1 << 61) - 1)),
            24 => B::BitPiece(pick_u(r), pick_u(r)),
            25 => B::WasmLocal(pick_u(r) as u32),
            26 => B::WasmGlobal(pick_u(r) as u32),
            27 => {
                if r.chance(1, 2) {
                    B::WasmStack(pick_u(r) as u32)
                } else {
                    B::Addr(pick_u(r) & g.addr_mask)
                }
            }
            28 => B::ConstType(uleb_target(r, g), pick_block(r, 255)),
            29 => B::RegvalType(pick_reg(r), uleb_target(r, g)),
            30 => B::DerefType(r.next() as u8, uleb_target(r, g)),
            31 => B::XderefType(r.next() as u8, uleb_target(r, g)),
            32 => B::Convert(Some(uleb_target(r, g))),
            33 => B::Reinterpret(Some(uleb_target(r, g))),
            34 => B::Call(ERef { unit: g.host_unit, entry: r.usize(g.n_host) }),
            35 => B::ParameterRef(ERef { unit: g.host_unit, entry: r.usize(g.n_host) }),
            36 => B::CallRef(any_target(r, g)),
            37 => B::VariableValue(any_target(r, g)),
            _ => B::ImplicitPointer(any_target(r, g), pick_i(r)),
        };
        v.push(b);
    }
    // branch targets: any operation start or the end, never the branch itself
    let n = v.len();
    for i in 0..n {
        let t = loop {
            let t = match r.below(5) {
                0 => n,
                1 => (i + 1).min(n),
                2 => i.saturating_sub(1 + r.usize(2)),
                _ => r.usize(n + 1),
            };
            if t != i {
                break t;
            }
        };
        match &mut v[i] {
            B::Skip(x) | B::Bra(x) => *x = t,
            _ => {}
        }
    }
    v
}

// ---------------------------------------------------------------- evaluable programs

fn eval_u(r: &mut Rng, mask: u64) -> u64 {
    pick_u(r) & mask
}

/// A stack-neutral snippet (needs one item, leaves one) that changes the top of the stack in
/// a way that depends on every operation in it.
fn snippet(r: &mut Rng, mask: u64, out: &mut Vec<B>) {
    let s = |op: gimli::DwOp| B::Simple(op.0);
    match r.below(16) {
        0 => out.push(B::PlusUconst(pick_u(r))),
        1 => out.extend([B::Constu(eval_u(r, mask)), s(dw::DW_OP_plus)]),
        2 => out.extend([B::Consts(pick_i(r)), s(dw::DW_OP_xor)]),
        3 => out.push(s(if r.bool() { dw::DW_OP_not } else { dw::DW_OP_neg })),
        4 => out.extend([B::Pick(0), s(dw::DW_OP_plus)]),
        5 => out.extend([s(dw::DW_OP_dup), B::Pick(1), s(dw::DW_OP_plus), s(dw::DW_OP_minus)]),
        6 => out.extend([B::Constu(eval_u(r, mask)), B::Constu(r.below(40)), s(dw::DW_OP_rot), s(dw::DW_OP_plus), s(dw::DW_OP_plus)]),
        7 => out.extend([B::Constu(r.below(70)), s(dw::DW_OP_swap), B::Pick(1), s(dw::DW_OP_mul), s(dw::DW_OP_plus)]),
        8 => out.extend([B::Constu(eval_u(r, mask)), B::Constu(r.below(34)), B::Pick(2), s(dw::DW_OP_plus), s(dw::DW_OP_plus), s(dw::DW_OP_xor)]),
        9 => out.extend([
            B::Constu(r.below(34)),
            B::Consts(pick_i(r)),
            B::Constu(eval_u(r, mask)),
            B::Pick(3),
            s(dw::DW_OP_plus),
            s(dw::DW_OP_plus),
            s(dw::DW_OP_plus),
            s(dw::DW_OP_minus),
        ]),
        10 => out.extend([B::Breg(pick_reg(r), pick_i(r)), s(dw::DW_OP_plus)]),
        11 => out.extend([B::Fbreg(pick_i(r)), s(dw::DW_OP_xor)]),
        12 => out.push(s(dw::DW_OP_nop)),
        13 => out.extend([B::Addr(eval_u(r, mask)), s(dw::DW_OP_minus)]),
        14 => {
            let cmp = *r.pick(&[dw::DW_OP_lt, dw::DW_OP_le, dw::DW_OP_gt, dw::DW_OP_ge, dw::DW_OP_eq, dw::DW_OP_ne]);
            out.extend([B::Pick(0), B::Consts(pick_i(r)), s(cmp), s(dw::DW_OP_plus)]);
        }
        _ => out.extend([s(dw::DW_OP_call_frame_cfa), s(dw::DW_OP_and), s(dw::DW_OP_form_tls_address)]),
    }
}

pub fn gen_eval(r: &mut Rng, le: bool, addr: u8, depth: usize) -> Vec<B> {
    let mask = if addr >= 8 { u64::MAX } else { (1u64 << (8 * addr as u32)) - 1 };
    let s = |op: gimli::DwOp| B::Simple(op.0);
    let mut p: Vec<B> = vec![];
    // initial value
    match r.below(9) {
        0 => {
            let mut ops = vec![raw_op(1 + r.below(11), pick_u(r), le)];
            for _ in 0..r.usize(3) {
                ops.push(if r.bool() { raw_op(12, pick_u(r), le) } else { raw_op(0, 0, le) });
            }
            p.push(B::Raw(ops));
        }
        1 | 2 => p.push(B::Constu(eval_u(r, mask))),
        3 => p.push(B::Consts(pick_i(r))),
        4 => p.push(B::Addr(eval_u(r, mask))),
        5 => p.push(B::Breg(pick_reg(r), pick_i(r))),
        6 => p.push(B::Fbreg(pick_i(r))),
        7 if depth < 2 => p.push(B::EntryValue(gen_eval(r, le, addr, depth + 1))),
        _ => p.push(s(gimli::DwOp(dw::DW_OP_lit0.0 + r.below(32) as u8))),
    }
    if r.chance(1, 40) {
        // deliberately short of operands
        p.clear();
        p.push(B::Constu(3));
        p.push(s(dw::DW_OP_plus));
        return p;
    }
    let blocks = r.usize(6);
    for _ in 0..blocks {
        match r.below(9) {
            0 | 1 => snippet(r, mask, &mut p),
            2 => {
                // forward skip over 1..3 snippets
                let at = p.len();
                p.push(B::Skip(usize::MAX));
                for _ in 0..1 + r.usize(3) {
                    snippet(r, mask, &mut p);
                }
                p[at] = B::Skip(p.len());
            }
            3 | 4 => {
                // conditional forward branch over snippets
                let cmp = *r.pick(&[dw::DW_OP_lt, dw::DW_OP_le, dw::DW_OP_gt, dw::DW_OP_ge, dw::DW_OP_eq, dw::DW_OP_ne]);
                p.extend([B::Pick(0), B::Consts(if r.bool() { 0 } else { pick_i(r) }), s(cmp)]);
                let at = p.len();
                p.push(B::Bra(usize::MAX));
                for _ in 0..1 + r.usize(3) {
                    snippet(r, mask, &mut p);
                }
                p[at] = B::Bra(p.len());
            }
            5 | 6 => {
                // counted loop: backward conditional branch over snippets
                p.push(B::Constu(1 + r.below(4)));
                let top = p.len();
                p.push(s(dw::DW_OP_swap));
                for _ in 0..r.usize(4) {
                    snippet(r, mask, &mut p);
                }
                p.extend([s(dw::DW_OP_swap), B::Constu(1), s(dw::DW_OP_minus), B::Pick(0), B::Bra(top), s(dw::DW_OP_drop)]);
            }
            7 => {
                // memory
                if r.bool() {
                    p.push(B::Deref);
                } else {
                    p.push(B::DerefSize(1 + r.below(addr as u64) as u8));
                }
            }
            _ => {
                if depth < 2 {
                    p.push(B::EntryValue(gen_eval(r, le, addr, depth + 1)));
                    p.push(s(dw::DW_OP_plus));
                } else {
                    snippet(r, mask, &mut p);
                }
            }
        }
    }
    if r.chance(1, 5) {
        // jump to the end over a tail that would change the result
        let at = p.len();
        p.push(B::Skip(usize::MAX));
        for _ in 0..1 + r.usize(2) {
            snippet(r, mask, &mut p);
        }
        p[at] = B::Skip(p.len());
    } else if r.chance(1, 4) && depth == 0 {
        p.push(s(dw::DW_OP_stack_value));
    }
    p
}

//! C14 workloads: regression witnesses, the three enumerations and the random tables.

use super::rows::{Interp, XExpr, XInsn, XOp, RA_SIGN_STATE};
use super::{check_table, enc_supported, format_range, mask_of, XAddr, XCie, XFde, XTable, SUPPORTED_FORMATS};
use crate::rt::{Ctx, Rng};

/// Configuration rotated by an index: (eh, le, fmt64, version, asize).
fn config(k: u64) -> (bool, bool, bool, u16, u8) {
    let eh = k % 2 == 1;
    let le = (k / 2) % 2 == 0;
    let fmt64 = (k / 4) % 2 == 1;
    let version = if eh { 1 } else { [1u16, 3, 4][((k / 8) % 3) as usize] };
    let asize = if (k / 24) % 2 == 0 { 8 } else { 4 };
    (eh, le, fmt64, version, asize)
}
const NCONFIG: u64 = 48;

fn base_cie(fmt64: bool, version: u16, asize: u8, caf: u8, daf: i8) -> XCie {
    XCie { fmt64, version, asize, caf, daf, ra: 16, personality: None, lsda_enc: None, fde_enc: 0, signal: false, insns: vec![] }
}

// ================================================================ regress

pub fn regress(ctx: &mut Ctx) {
    let mut cases: Vec<XTable> = vec![];
    for k in 0..NCONFIG {
        let (eh, le, fmt64, version, asize) = config(k);
        // zero data factor, non-zero offset (was a division by zero)
        let mut c = base_cie(fmt64, version, asize, 1, 0);
        c.insns.push(XInsn::Cfa(7, 8));
        let f = XFde { cie: 0, addr: XAddr::Const(0x1000), len: 0x40, lsda: None, insns: vec![(0, XInsn::Offset(3, 8))] };
        cases.push(XTable { eh, le, sec_asize: asize, cies: vec![c.clone()], fdes: vec![f] });
        // zero data factor, zero offsets and unfactored CFA offsets are fine
        let f = XFde { cie: 0, addr: XAddr::Const(0x1000), len: 0x40, lsda: None, insns: vec![(0, XInsn::Offset(3, 0)), (4, XInsn::Cfa(6, 24)), (8, XInsn::ValOffset(0x40, 0))] };
        cases.push(XTable { eh, le, sec_asize: asize, cies: vec![c], fdes: vec![f] });
        // zero code factor
        let mut c = base_cie(fmt64, version, asize, 0, -8);
        c.insns.push(XInsn::Cfa(7, 8));
        let f = XFde { cie: 0, addr: XAddr::Const(0x1000), len: 0x40, lsda: None, insns: vec![(0, XInsn::Offset(3, -8)), (4, XInsn::CfaOffset(16))] };
        cases.push(XTable { eh, le, sec_asize: asize, cies: vec![c.clone()], fdes: vec![f] });
        let f = XFde { cie: 0, addr: XAddr::Const(0x1000), len: 0x40, lsda: None, insns: vec![(0, XInsn::Offset(3, -8)), (0, XInsn::CfaOffset(16))] };
        cases.push(XTable { eh, le, sec_asize: asize, cies: vec![c], fdes: vec![f] });
        // i32::MIN / -1
        let mut c = base_cie(fmt64, version, asize, 1, -1);
        c.insns.push(XInsn::Cfa(7, 8));
        for insn in [XInsn::Offset(3, i32::MIN), XInsn::ValOffset(3, i32::MIN), XInsn::Cfa(3, i32::MIN), XInsn::CfaOffset(i32::MIN)] {
            let f = XFde { cie: 0, addr: XAddr::Const(0x1000), len: 0x40, lsda: None, insns: vec![(0, insn)] };
            cases.push(XTable { eh, le, sec_asize: asize, cies: vec![c.clone()], fdes: vec![f] });
        }
        // padding: every number of instruction bytes 0..16 in CIE and FDE
        for n in 0..17u32 {
            let mut c = base_cie(fmt64, version, asize, 4, -8);
            for j in 0..n {
                c.insns.push(if j % 2 == 0 { XInsn::RememberState } else { XInsn::RestoreState });
            }
            if n % 2 == 1 {
                c.insns.push(XInsn::RestoreState);
            }
            let mut f = XFde { cie: 0, addr: XAddr::Const(0x1000), len: 0x40, lsda: None, insns: vec![] };
            for j in 0..n {
                f.insns.push((0, XInsn::SameValue(j as u16)));
            }
            cases.push(XTable { eh, le, sec_asize: asize, cies: vec![c], fdes: vec![f] });
        }
        // return address register around the one-byte boundary
        for ra in [0x7fu16, 0x80, 0xff, 0x100, 0x3fff, 0x4000, 0xffff] {
            let mut c = base_cie(fmt64, version, asize, 4, -8);
            c.ra = ra;
            c.insns.push(XInsn::Cfa(7, 8));
            c.insns.push(XInsn::Offset(ra, -8));
            let f = XFde { cie: 0, addr: XAddr::Const(0x1000), len: 0x40, lsda: None, insns: vec![(4, XInsn::CfaOffset(16))] };
            cases.push(XTable { eh, le, sec_asize: asize, cies: vec![c], fdes: vec![f] });
        }
    }
    for (i, t) in cases.iter().enumerate() {
        if !ctx.want("regress", i as u64) {
            continue;
        }
        check_table(ctx, t, "regress");
    }
}

// ================================================================ enumeration: advance_loc

const ADV_FACTORED: [u32; 16] = [0, 1, 2, 0x3e, 0x3f, 0x40, 0x41, 0xfe, 0xff, 0x100, 0x101, 0xfffe, 0xffff, 0x10000, 0x10001, 0x12345];

pub fn enum_adv(ctx: &mut Ctx) {
    let mut idx = 0u64;
    for caf in 0..=255u32 {
        for (pi, &fd) in ADV_FACTORED.iter().enumerate() {
            for mis in 0..3u32 {
                idx += 1;
                if !ctx.want("adv", idx) {
                    continue;
                }
                let (eh, le, fmt64, version, asize) = config(idx.wrapping_add(ctx.seed.wrapping_mul(7)) % NCONFIG);
                let m: i64 = match mis {
                    0 => 0,
                    1 => 1,
                    _ => -1,
                };
                // caf == 0: the "factored" value is the byte delta itself
                let d1 = if caf == 0 { fd as i64 + m.max(0) } else { fd as i64 * caf as i64 + m };
                if d1 < 0 {
                    continue;
                }
                let fd2 = ADV_FACTORED[(pi + 5 + (idx as usize % 7)) % ADV_FACTORED.len()];
                let d2 = fd2 as i64 * caf as i64;
                let o1 = d1 as u32;
                let o2 = (d1 + d2) as u32;
                let daf: i8 = if idx % 2 == 0 { -8 } else { 4 };
                let mut c = base_cie(fmt64, version, asize, caf as u8, daf);
                c.insns.push(XInsn::Cfa(7, 8));
                c.insns.push(XInsn::Offset(16, daf as i32));
                let insns = vec![
                    (0, XInsn::CfaOffset(16)),
                    (o1, XInsn::Offset(6, 2 * daf as i32)),
                    (o1, XInsn::CfaRegister(6)),
                    (o2, XInsn::Restore(6)),
                    (o2, XInsn::Cfa(7, 8)),
                ];
                let f = XFde { cie: 0, addr: XAddr::Const(0x40_0000), len: o2.saturating_add(16), lsda: None, insns };
                check_table(ctx, &XTable { eh, le, sec_asize: asize, cies: vec![c], fdes: vec![f] }, "adv");
            }
        }
    }
}

// ================================================================ enumeration: data offsets

const DATA_REGS: [u16; 8] = [0, 0x3f, 0x40, 0x7f, 0x80, 0x3fff, 0x4000, 0xffff];

pub fn enum_data(ctx: &mut Ctx) {
    let mut idx = 0u64;
    for daf in -128i64..=127 {
        for variant in 0..4u32 {
            for pat in 0..19u32 {
                for mis in 0..3i64 {
                    idx += 1;
                    if !ctx.want("data", idx) {
                        continue;
                    }
                    let div = if daf == 0 { 1 } else { daf };
                    let k: i64 = match pat {
                        0 => 0,
                        1 => 1,
                        2 => -1,
                        3 => 0x3f,
                        4 => 0x40,
                        5 => -0x40,
                        6 => -0x41,
                        7 => 0x7f,
                        8 => 0x80,
                        9 => -0x80,
                        10 => -0x81,
                        11 => 0x1fff,
                        12 => -0x2000,
                        13 => 0x2000,
                        14 => i32::MAX as i64 / div,
                        15 => i32::MIN as i64 / div,
                        16 => (i32::MAX as i64 / div) - div.signum(),
                        17 => 2,
                        _ => -2,
                    };
                    let m = [0i64, 1, -1][mis as usize];
                    let off = if daf == 0 { k + m } else { k * daf + m };
                    if off < i32::MIN as i64 || off > i32::MAX as i64 {
                        continue;
                    }
                    let off = off as i32;
                    let reg = DATA_REGS[(idx % 8) as usize];
                    let (eh, le, fmt64, version, asize) = config(idx.wrapping_add(ctx.seed.wrapping_mul(5)) % NCONFIG);
                    // a code factor different from |daf| and from 1
                    let mut caf = 2 + (idx % 13) as u8;
                    if caf as i64 == daf.abs() {
                        caf += 1;
                    }
                    let mut c = base_cie(fmt64, version, asize, caf, daf as i8);
                    c.insns.push(XInsn::Cfa(7, 8));
                    let insn = match variant {
                        0 => XInsn::Cfa(reg, off),
                        1 => XInsn::CfaOffset(off),
                        2 => XInsn::Offset(reg, off),
                        _ => XInsn::ValOffset(reg, off),
                    };
                    let o = caf as u32 * 3;
                    let f = XFde {
                        cie: 0,
                        addr: XAddr::Const(0x1000),
                        len: o * 4,
                        lsda: None,
                        insns: vec![(0, XInsn::SameValue(reg)), (o, insn), (o * 2, XInsn::Undefined(1))],
                    };
                    check_table(ctx, &XTable { eh, le, sec_asize: asize, cies: vec![c], fdes: vec![f] }, "data");
                }
            }
        }
    }
}

// ================================================================ enumeration: pointer encodings

pub fn enum_enc(ctx: &mut Ctx) {
    let mut idx = 0u64;
    for enc in 0..=255u32 {
        let enc = enc as u8;
        for role in 0..3u32 {
            for asize in [1u8, 2, 4, 8] {
                for eh in [false, true] {
                    for pat in 0..10u32 {
                        idx += 1;
                        if !ctx.want("enc", idx) {
                            continue;
                        }
                        let mask = mask_of(asize);
                        let val = match pat {
                            0 => 0,
                            1 => 0x10,
                            2 => 0xa0,
                            3 => 0x7fff & mask,
                            4 => 0x8000 & mask,
                            5 => mask / 2,
                            6 => mask / 2 + 1,
                            7 => mask - 0x10.min(mask),
                            8 => mask,
                            _ => {
                                if asize < 8 {
                                    mask + 1
                                } else {
                                    0x1234_5678_9abc
                                }
                            }
                        };
                        let le = idx % 2 == 0;
                        let fmt64 = (idx / 2) % 3 == 0;
                        let version = if eh { 1 } else { [1u16, 3, 4][(idx % 3) as usize] };
                        let mut c = base_cie(fmt64, version, asize, 1, -4);
                        c.insns.push(XInsn::Cfa(7, 8));
                        let mut f = XFde { cie: 0, addr: XAddr::Const(0x20 & mask), len: 0x10, lsda: None, insns: vec![(1, XInsn::CfaOffset(16))] };
                        match role {
                            0 => {
                                if enc == 0 {
                                    continue; // no 'R'
                                }
                                c.fde_enc = enc;
                                // keep address + length inside the address size when possible
                                f.addr = XAddr::Const(if val <= mask && val > mask - 0x10 { mask - 0x10 } else { val });
                            }
                            1 => {
                                c.lsda_enc = Some(enc);
                                f.lsda = Some(XAddr::Const(val));
                            }
                            _ => c.personality = Some((enc, XAddr::Const(val))),
                        }
                        if asize == 1 {
                            f.len = 4;
                        }
                        check_table(ctx, &XTable { eh, le, sec_asize: asize, cies: vec![c], fdes: vec![f] }, "enc");
                    }
                }
            }
        }
    }
}

// ================================================================ random tables

const REG_CHOICES: [u16; 22] = [0, 1, 2, 3, 6, 7, 16, 30, 31, 32, 33, RA_SIGN_STATE, 0x3e, 0x3f, 0x40, 0x41, 0x7f, 0x80, 0xff, 0x3fff, 0x4000, 0xffff];
const FACTORED_K: [i64; 16] = [0, 1, -1, 2, -2, 3, 0x3f, 0x40, -0x40, -0x41, 0x7f, 0x80, -0x80, -0x81, 0x1fff, -0x2000];
const ADV_RANDOM: [u32; 22] = [1, 1, 1, 2, 2, 3, 4, 8, 0x3e, 0x3f, 0x40, 0x41, 0xfe, 0xff, 0x100, 0x101, 0xfffe, 0xffff, 0x10000, 0x10001, 0x20000, 0x7ffff];

fn gen_expr(r: &mut Rng) -> XExpr {
    match r.below(10) {
        0 => XExpr::Raw(vec![]),
        1..=4 => {
            let n = 1 + r.usize(6);
            XExpr::Raw(r.bytes(n))
        }
        5 => {
            let n = [0x7fusize, 0x80, 0x81, 200][r.usize(4)];
            XExpr::Raw(r.bytes(n))
        }
        _ => {
            let n = 1 + r.usize(4);
            XExpr::Ops(
                (0..n)
                    .map(|_| match r.below(4) {
                        0 => XOp::Breg(*r.pick(&[0u16, 7, 31, 32, 0x7f, 0x80, 0xffff]), r.irange(-300, 300)),
                        1 => XOp::PlusUconst(r.boundary()),
                        2 => XOp::Deref,
                        _ => XOp::Simple(*r.pick(&[0x12u8, 0x22, 0x1c, 0x9c, 0x96])),
                    })
                    .collect(),
            )
        }
    }
}

/// An offset the data factor can express (sign as requested where possible).
fn good_data_off(r: &mut Rng, daf: i8, want_negative: Option<bool>) -> i32 {
    if daf == 0 {
        return 0;
    }
    for _ in 0..8 {
        let k = if r.chance(1, 2) { *r.pick(&FACTORED_K) } else { r.irange(-20, 20) };
        let off = k * daf as i64;
        if off < i32::MIN as i64 || off > i32::MAX as i64 {
            continue;
        }
        match want_negative {
            Some(true) if off >= 0 => continue,
            Some(false) if off < 0 => continue,
            _ => {}
        }
        return off as i32;
    }
    match want_negative {
        Some(true) => -(daf as i32).abs(),
        _ => (daf as i32).abs(),
    }
}

fn unfactored_off(r: &mut Rng) -> i32 {
    match r.below(4) {
        0 => *r.pick(&[0i32, 1, 7, 8, 0x7f, 0x80, 0x3fff, 0x4000, i32::MAX]),
        1 => r.range(0, i32::MAX as u64) as i32,
        _ => r.range(0, 512) as i32,
    }
}

fn gen_insn(r: &mut Rng, st: &Interp, daf: i8, pool: &[u16]) -> XInsn {
    for _ in 0..20 {
        let reg = *r.pick(pool);
        let i = match r.below(20) {
            0 | 1 => {
                if r.chance(1, 3) {
                    XInsn::Cfa(reg, good_data_off(r, daf, Some(true)))
                } else {
                    XInsn::Cfa(reg, unfactored_off(r))
                }
            }
            2 => XInsn::CfaRegister(reg),
            3 | 4 => {
                if r.chance(1, 3) {
                    XInsn::CfaOffset(good_data_off(r, daf, Some(true)))
                } else {
                    XInsn::CfaOffset(unfactored_off(r))
                }
            }
            5 => XInsn::CfaExpression(gen_expr(r)),
            6 => XInsn::Restore(reg),
            7 => XInsn::Undefined(reg),
            8 => XInsn::SameValue(reg),
            9 | 10 | 11 => XInsn::Offset(reg, good_data_off(r, daf, None)),
            12 => XInsn::ValOffset(reg, good_data_off(r, daf, None)),
            13 => XInsn::Register(reg, *r.pick(pool)),
            14 => XInsn::Expression(reg, gen_expr(r)),
            15 => XInsn::ValExpression(reg, gen_expr(r)),
            16 => XInsn::RememberState,
            17 => XInsn::RestoreState,
            18 => XInsn::ArgsSize(match r.below(3) {
                0 => *r.pick(&[0u32, 1, 0x7f, 0x80, 0x3fff, 0x4000, u32::MAX]),
                _ => r.below(4096) as u32,
            }),
            _ => XInsn::NegateRaState,
        };
        if matches!(i, XInsn::RememberState) && st.depth() >= 6 {
            continue;
        }
        if st.accepts(&i) {
            return i;
        }
    }
    XInsn::SameValue(pool[0])
}

/// A pointer value for `enc`: mostly inside the safe zone of the format.
fn gen_ptr_val(r: &mut Rng, enc: u8, asize: u8) -> u64 {
    let mask = mask_of(asize);
    match r.below(10) {
        0 => return r.boundary_bits(asize as u32 * 8),
        1 => return r.below(0x40),
        _ => {}
    }
    let Some((lo, hi)) = format_range(enc & 0x0f, asize) else { return r.boundary_bits(asize as u32 * 8) };
    let pcrel = enc & 0x70 == 0x10;
    let lo = if pcrel { (lo + 0x2000).max(0) } else { lo.max(0) };
    let hi = hi.min(mask as i128);
    if lo > hi {
        return r.boundary_bits(asize as u32 * 8);
    }
    let (lo, hi) = (lo as u64, hi as u64);
    match r.below(4) {
        0 => lo,
        1 => hi,
        2 => lo + r.below(0x1000).min(hi - lo),
        _ => r.range(lo, hi),
    }
}

fn pick_enc(r: &mut Rng) -> u8 {
    let fmt = *r.pick(&SUPPORTED_FORMATS);
    let app = if r.bool() { 0x10 } else { 0 };
    let ind = if r.chance(1, 4) { 0x80 } else { 0 };
    fmt | app | ind
}

fn gen_cie(r: &mut Rng, eh: bool, sec_asize: u8, pool: &[u16]) -> XCie {
    let version = if eh { 1 } else { *r.pick(&[1u16, 3, 4]) };
    let asize = if version == 4 && !eh && r.chance(1, 6) { *r.pick(&[1u8, 2, 4, 8]) } else { sec_asize };
    let caf = match r.below(20) {
        0..=8 => *r.pick(&[1u8, 2, 4, 8]),
        9..=12 => *r.pick(&[3u8, 5, 16, 64, 127, 128, 255]),
        13..=18 => r.range(1, 255) as u8,
        _ => 0,
    };
    let daf = match r.below(20) {
        0..=8 => *r.pick(&[-8i8, -4, -2, -1, 1, 2, 4, 8]),
        9..=12 => *r.pick(&[-128i8, 127, -127, 3, -3, 16, -16, 64]),
        13..=18 => r.irange(-128, 127) as i8,
        _ => 0,
    };
    let ra = if version == 1 { *r.pick(&[0u16, 7, 16, 30, 0x3f, 0x40, 0x7f, 0x80, 0xff]) } else { *r.pick(&[0u16, 16, 30, 0x7f, 0x80, 0xff, 0x100, 0x3fff, 0x4000, 0xffff]) };
    let personality = if r.chance(3, 10) {
        let e = pick_enc(r);
        Some((e, XAddr::Const(gen_ptr_val(r, e, asize))))
    } else {
        None
    };
    let lsda_enc = if r.chance(3, 10) { Some(pick_enc(r)) } else { None };
    let fde_enc = if r.chance(4, 10) { pick_enc(r) } else { 0 };
    let signal = r.chance(1, 5);
    let mut st = Interp::new();
    let mut insns = vec![];
    let n = r.small(5);
    for _ in 0..n {
        let i = gen_insn(r, &st, daf, pool);
        let _ = st.step(&i);
        insns.push(i);
    }
    XCie { fmt64: r.chance(1, 3), version, asize, caf, daf, ra, personality, lsda_enc, fde_enc, signal, insns }
}

/// Change exactly one field of `c` (the result must differ from `c`).
fn near_dup(r: &mut Rng, c: &XCie, eh: bool, sec_asize: u8, pool: &[u16]) -> XCie {
    let mut d = c.clone();
    for _ in 0..10 {
        match r.below(11) {
            0 => d.fmt64 = !c.fmt64,
            1 => {
                if !eh && c.asize == sec_asize {
                    d.version = match c.version {
                        1 => 3,
                        3 => 4,
                        _ => {
                            if c.ra <= 0xff {
                                1
                            } else {
                                3
                            }
                        }
                    };
                }
            }
            2 => d.caf = c.caf.wrapping_add(1),
            3 => d.daf = c.daf.wrapping_neg(),
            4 => d.ra = c.ra ^ 1,
            5 => d.signal = !c.signal,
            6 => {
                d.personality = match &c.personality {
                    None => Some((0x1b, XAddr::Const(0x4000))),
                    Some((e, XAddr::Const(v))) => {
                        if r.bool() {
                            Some((*e, XAddr::Const(v ^ 4)))
                        } else {
                            None
                        }
                    }
                    Some(_) => None,
                }
            }
            7 => {
                d.lsda_enc = match c.lsda_enc {
                    None => Some(0x1b),
                    Some(e) => Some(e ^ 0x80),
                }
            }
            8 => d.fde_enc = if c.fde_enc == 0 { 0x1b } else { c.fde_enc ^ 0x80 },
            9 => d.insns.push(XInsn::SameValue(*r.pick(pool))),
            _ => {
                if d.version == 4 && !eh {
                    d.asize = if c.asize == 8 { 4 } else { 8 };
                }
            }
        }
        if d != *c {
            return d;
        }
    }
    d.signal = !c.signal;
    d
}

fn gen_fde(r: &mut Rng, cies: &[XCie], pool: &[u16]) -> XFde {
    let ci = r.usize(cies.len());
    let c = &cies[ci];
    let mask = mask_of(c.asize);
    let mut st = Interp::new();
    for i in &c.insns {
        let _ = st.step(i);
    }
    st.end_cie();
    let n = match r.below(10) {
        0 => 0,
        1..=6 => 1 + r.usize(8),
        7 | 8 => 8 + r.usize(16),
        _ => 20 + r.usize(21),
    };
    let limit: u64 = (mask / 2).min(0x7fff_ffff);
    let mut cur: u64 = 0;
    let mut insns = vec![];
    for _ in 0..n {
        if c.caf != 0 && !r.chance(2, 5) {
            let fd = if c.asize <= 2 { 1 + r.below(3) as u32 } else { *r.pick(&ADV_RANDOM) };
            let next = cur + fd as u64 * c.caf as u64;
            if next <= limit {
                cur = next;
            }
        }
        let i = gen_insn(r, &st, c.daf, pool);
        let _ = st.step(&i);
        insns.push((cur as u32, i));
    }
    let extra = match r.below(4) {
        0 => 0,
        1 => 1,
        _ => r.below(64),
    };
    let len = (cur + extra).min(limit.max(cur)).min(mask) as u32;
    let span = (len as u64).max(cur);
    let top = mask - span.min(mask);
    let enc = if c.fde_enc != 0 { c.fde_enc } else { 0 };
    let addr = gen_ptr_val(r, enc, c.asize).min(top);
    let lsda = c.lsda_enc.map(|e| XAddr::Const(gen_ptr_val(r, e, c.asize)));
    XFde { cie: ci, addr: XAddr::Const(addr), len, lsda, insns }
}

fn unsupported_enc(r: &mut Rng) -> u8 {
    loop {
        let e = r.next() as u8;
        if !enc_supported(e) && e != 0 {
            return e;
        }
    }
}

/// Make exactly one feature of the table unexpressible.  Returns the class name or None
/// when the chosen class does not apply to this table.
fn inject(r: &mut Rng, t: &mut XTable, dbg: bool) -> Option<&'static str> {
    if t.fdes.is_empty() {
        return None;
    }
    let fi = r.usize(t.fdes.len());
    let ci = t.fdes[fi].cie;
    match r.below(9) {
        0 => {
            // data offset
            let daf = t.cies[ci].daf;
            let in_cie = r.bool();
            let list: Vec<&mut XInsn> = if in_cie { t.cies[ci].insns.iter_mut().collect() } else { t.fdes[fi].insns.iter_mut().map(|x| &mut x.1).collect() };
            for i in list {
                let off = match i {
                    XInsn::Offset(_, o) | XInsn::ValOffset(_, o) => o,
                    XInsn::Cfa(_, o) | XInsn::CfaOffset(o) if *o < 0 => o,
                    _ => continue,
                };
                if daf == 0 {
                    *off = -8;
                    return Some("data_zero_factor");
                }
                if daf.unsigned_abs() >= 2 && *off > i32::MIN + 2 {
                    *off -= 1;
                    return Some("data_misaligned");
                }
            }
            None
        }
        1 => {
            // code offset off the factor
            let caf = t.cies[ci].caf;
            let f = &mut t.fdes[fi];
            if f.insns.is_empty() || caf == 1 {
                return None;
            }
            let k = r.usize(f.insns.len());
            for x in f.insns[k..].iter_mut() {
                x.0 = x.0.saturating_add(1);
            }
            Some(if caf == 0 { "code_zero_factor" } else { "code_misaligned" })
        }
        2 => {
            // decreasing code offset (release build only)
            if dbg {
                return None;
            }
            let f = &mut t.fdes[fi];
            if f.insns.len() < 2 {
                return None;
            }
            let k = 1 + r.usize(f.insns.len() - 1);
            if f.insns[k - 1].0 == 0 {
                for x in f.insns[k - 1..].iter_mut() {
                    x.0 = x.0.saturating_add(8);
                }
            }
            let prev = f.insns[k - 1].0;
            f.insns[k].0 = prev - (1 + r.below(prev as u64) as u32).min(prev);
            Some("code_decreasing")
        }
        3 => {
            if t.cies[ci].version != 1 {
                return None;
            }
            t.cies[ci].ra = *r.pick(&[0x100u16, 0x101, 0x3fff, 0xffff]);
            Some("ra_v1")
        }
        4 => {
            t.cies[ci].version = if t.eh { *r.pick(&[0u16, 2, 3, 4, 5, 0xffff]) } else { *r.pick(&[0u16, 2, 5, 6, 0x101, 0xffff]) };
            Some("version")
        }
        5 => {
            let e = unsupported_enc(r);
            match r.below(3) {
                0 => t.cies[ci].fde_enc = e,
                1 => {
                    t.cies[ci].lsda_enc = Some(e);
                    for f in t.fdes.iter_mut() {
                        if f.cie == ci && f.lsda.is_none() {
                            f.lsda = Some(XAddr::Const(0x3000));
                        }
                    }
                }
                _ => t.cies[ci].personality = Some((e, XAddr::Const(0x3000))),
            }
            Some("enc")
        }
        6 => {
            // value too large
            let asize = t.cies[ci].asize;
            let mask = mask_of(asize);
            match r.below(4) {
                0 if asize < 8 && t.cies[ci].fde_enc == 0 => {
                    t.fdes[fi].addr = XAddr::Const(mask + 1 + r.below(16));
                    Some("addr_too_large")
                }
                1 if asize < 4 && t.cies[ci].fde_enc == 0 => {
                    t.fdes[fi].len = mask as u32 + 1 + r.below(16) as u32;
                    Some("len_too_large")
                }
                2 => {
                    t.cies[ci].fde_enc = *r.pick(&[0x02u8, 0x0a]);
                    t.fdes[fi].len = *r.pick(&[0x1_0000u32, 0x12_3456, u32::MAX]);
                    Some("len_too_large")
                }
                _ => {
                    if asize < 4 {
                        return None;
                    }
                    t.cies[ci].personality = Some((*r.pick(&[0x02u8, 0x0a, 0x82]), XAddr::Const(0x1_2345 + r.below(0x1000))));
                    Some("ptr_too_large")
                }
            }
        }
        7 => {
            let a = XAddr::Symbol(r.usize(4), r.irange(-8, 8));
            match r.below(3) {
                0 => t.fdes[fi].addr = a,
                1 => {
                    if t.cies[ci].lsda_enc.is_none() {
                        return None;
                    }
                    t.fdes[fi].lsda = Some(a);
                }
                _ => {
                    let e = t.cies[ci].personality.as_ref().map(|p| p.0).unwrap_or(0x1b);
                    t.cies[ci].personality = Some((e, a));
                }
            }
            Some("symbol")
        }
        _ => {
            // i32::MIN with factor -1
            if t.cies[ci].daf != -1 {
                return None;
            }
            let last = t.fdes[fi].insns.last().map(|x| x.0).unwrap_or(0);
            t.fdes[fi].insns.push((last, XInsn::Offset(3, i32::MIN)));
            Some("data_min_neg1")
        }
    }
}

pub fn gen_table(r: &mut Rng, dbg: bool) -> (XTable, Option<&'static str>, bool) {
    let eh = r.bool();
    let le = r.bool();
    let sec_asize = *r.pick(&[4u8, 8, 4, 8, 4, 8, 4, 8, 2, 1]);
    let npool = 3 + r.usize(4);
    let mut pool: Vec<u16> = (0..npool).map(|_| if r.chance(1, 8) { r.below(0x10000) as u16 } else { *r.pick(&REG_CHOICES) }).collect();
    if r.chance(1, 3) {
        pool.push(RA_SIGN_STATE);
    }
    let ncies = 1 + r.small(3) as usize;
    let mut cies: Vec<XCie> = vec![];
    let mut near = false;
    for i in 0..ncies {
        let c = if i > 0 && r.chance(1, 3) {
            cies[r.usize(i)].clone()
        } else if i > 0 && r.chance(1, 2) {
            near = true;
            let k = r.usize(i);
            near_dup(r, &cies[k], eh, sec_asize, &pool)
        } else {
            gen_cie(r, eh, sec_asize, &pool)
        };
        cies.push(c);
    }
    let nf = match r.below(16) {
        0 => 0,
        1..=8 => 1 + r.usize(3),
        _ => 2 + r.usize(5),
    };
    let fdes: Vec<XFde> = (0..nf).map(|_| gen_fde(r, &cies, &pool)).collect();
    let mut t = XTable { eh, le, sec_asize, cies, fdes };
    let mut injected = None;
    if r.chance(3, 10) {
        injected = inject(r, &mut t, dbg);
    }
    (t, injected, near)
}

pub fn random(ctx: &mut Ctx) {
    let n = ctx.size(60_000, 1_200_000, 6);
    let dbg = ctx.dbg();
    for i in 0..n {
        if !ctx.want("rand", i) {
            continue;
        }
        let mut r = ctx.rng("rand", i);
        let (t, injected, near) = gen_table(&mut r, dbg);
        if near {
            ctx.obs("cie.near_dup");
        }
        if let Some(c) = injected {
            ctx.obs(&format!("injected.{c}"));
        }
        check_table(ctx, &t, "rand");
    }
}

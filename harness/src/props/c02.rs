//! C02 — DIE forest reported exactly as encoded by every navigation API.
//!
//! Oracle: the model produced by `gen::info` (flat DIE stream with offsets, Appendix A.3
//! depths, tags, children flags) and agreement among the navigation paths:
//!  1. `EntriesRaw::read_entry` (incl. nulls, `next_offset` / `next_depth` predictions),
//!  2. `EntriesCursor::next_dfs`,
//!  3. `EntriesCursor::next_entry` (incl. nulls; `current/offset/depth/next_offset/next_depth`),
//!  4. `next_entry` + `next_sibling` descent reconstructing parent / position of every entry,
//!  5. `EntriesTree::root` + recursive `children()`,
//!  6. positioned reads at every entry offset: `UnitHeader::entry`, `entries_at_offset`
//!     (dfs suffix and sibling list), `entries_tree(Some(off))` (subtree), `entries_raw(Some(off))`,
//!  7. the same through `Dwarf::unit` / `Unit` wrappers (read/dwarf.rs).
//! Plus unit-header accessors against the encoded header, offset conversions / bounds, and
//! `Abbreviations::get` for every code scheme; tables with duplicate codes must be rejected.

use crate::asm::Enc;
use crate::gen::info::{
    forest_depths, items_from_depths, AbbrevDecl, AbbrevTable, AttrDecl, AttrVal, Built, InfoCfg, Item, ItemModel, Sec, TypeOffset, UnitCfg, UnitKind,
    UnitModel, Val,
};
use crate::model::forms::{self, Expect, Pay};
use crate::props::c03::headers;
use crate::props::PropInfo;
use crate::rt::{hex, Ctx, Rng};
use gimli::{EndianSlice, RunTimeEndian, UnitOffset};
use serde_json::{json, Value};
use std::collections::BTreeMap;

#[path = "c02_corpus.rs"]
mod corpus;

type Rd<'a> = EndianSlice<'a, RunTimeEndian>;

pub fn info() -> PropInfo {
    PropInfo {
        id: "C02",
        level: "exploration",
        rule: "Units are assembled by gen::info from a pre-order depth sequence (children flags, closing nulls, optional empty child lists, 0-3 trailing nulls) with per-node abbreviations. Systematic: every ordered forest with 1..6 nodes (196 shapes) x 9 DW_AT_sibling modes {none, right on every parent, right on a subset (also on childless entries), self, backward, inside own entry, beyond the unit, non-reference forms, wrong-forward on childless entries (secondary)} x trailing padding 0..3, rotating over the 64 encodings, unit kinds and 7 abbreviation code schemes {sequential, permuted, sparse, huge (2^32+5, 2^63, 2^64-1 ...), vec-then-map order, descending, random}; every header layout: {v2,v3,v4} x {compile unit, .debug_types type unit} and v5 x 6 unit types x 2 formats x 2 byte orders x 4 address sizes, also concatenated into multi-unit sections; abbreviation tables of 1..8 declarations per scheme with lookups of every declared and of absent codes, and every position pair (i,j) duplicated. Seeded random: forests up to 60 nodes, occasionally 3000 entries / 2000-deep chains / 5000 siblings, 1-4 units per section sharing or not sharing tables. Every entry offset is used as a start position (sampled to 48 starts for units above 400 items). Corpus: two small C translation units are compiled and linked at check time (quick: gcc v4 with type units, gcc v5 -O2, clang v2; thorough: gcc/clang x DWARF 2-5 x -O0/-O2, type units, gcc DWARF64) and every unit's header and entry sequence (section offset, depth, tag, attribute names, nulls) is compared with llvm-dwarfdump. A case is non-trivial when the unit has at least 2 items; distinct = digest of (.debug_abbrev, .debug_info, .debug_types).",
        assumptions: &[
            "a unit may contain several top-level entries (a forest); depth bookkeeping follows DESIGN.md Appendix A.3 (a null is reported at the current depth, then the depth drops by one)",
            "DW_AT_sibling values that are not a unit reference greater than the entry's offset, lie inside the entry itself or beyond the unit must leave the reported forest unchanged; wrong forward values on childless entries are a secondary observation; wrong forward values on entries with children are not generated",
            "the recursive tree API is exercised up to depth 300 (its recursion is the caller's)",
            "offsets that are not entry starts are not required to fail; UnitHeader::entry at a null is a secondary observation",
            "the error variant for duplicate abbreviation codes is a secondary observation (rejection is judged)",
            "usize is 64 bits on this host",
            "corpus: llvm-dwarfdump 14 is the oracle for compiler-built objects; depth is taken from its indentation (2 columns per level); tool failures are inconclusive",
        ],
        exhaustive_subspaces: &[
            "ordered forests with <= 6 nodes x sibling modes x trailing padding 0..3",
            "unit header layouts: version x unit type x format x byte order x address size",
            "duplicate abbreviation code at every position pair for tables of <= 6 declarations, per code scheme",
        ],
        must_observe: MUST,
        run,
    }
}

const MUST: &[&str] = &[
    "path.raw", "path.dfs", "path.next_entry", "path.sibling_walk", "path.tree", "path.pos.entry", "path.pos.dfs", "path.pos.siblings", "path.pos.tree",
    "path.pos.raw", "path.dwarf_unit",
    "unit.v2.Compile", "unit.v3.Compile", "unit.v4.Compile", "unit.v2.Type", "unit.v3.Type", "unit.v4.Type", "unit.v5.Compile", "unit.v5.Type", "unit.v5.Partial",
    "unit.v5.Skeleton", "unit.v5.SplitCompile", "unit.v5.SplitType", "unit.format32", "unit.format64", "unit.le", "unit.be", "unit.addr1", "unit.addr2",
    "unit.addr4", "unit.addr8", "section.debug_types", "section.multi_unit",
    "sibling.None", "sibling.RightAll", "sibling.RightSubset", "sibling.SelfRef", "sibling.Backward", "sibling.Inside", "sibling.Beyond", "sibling.NonRef",
    "sibling.WrongChildless", "sibling.target.null", "sibling.target.end", "sibling.target.entry",
    "codes.Sequential", "codes.Permuted", "codes.Sparse", "codes.Huge", "codes.VecMap", "codes.Descending", "codes.Random",
    "abbrev.get.declared", "abbrev.get.absent", "abbrev.duplicate.rejected", "abbrev.unterminated",
    "padding.0", "padding.1", "padding.2", "padding.3", "shape.empty_child_list", "shape.multi_root", "shape.deep_chain", "shape.wide", "shape.large",
    "bounds.checked", "header.from_offset", "corpus.object", "corpus.unit", "corpus.entry", "corpus.type_unit",
];

// ------------------------------------------------------------------ observation vocabulary

#[derive(Clone, Debug, PartialEq, Eq)]
pub struct Ent {
    pub off: u64,
    pub depth: i64,
    pub null: bool,
    pub tag: u16,
    pub children: bool,
    pub nattrs: usize,
}

fn ent_of(e: &gimli::DebuggingInformationEntry<Rd<'_>>) -> Ent {
    Ent { off: e.offset().0 as u64, depth: e.depth() as i64, null: e.is_null(), tag: e.tag().0, children: e.has_children(), nattrs: e.attrs().len() }
}

fn e2s<T>(r: gimli::Result<T>) -> Result<T, String> {
    r.map_err(|e| format!("{e:?}"))
}

type Abb = gimli::Abbreviations;
type Hdr<'a> = gimli::UnitHeader<Rd<'a>>;

/// path 1
fn raw_seq(h: &Hdr<'_>, ab: &Abb, start: Option<u64>) -> Result<(Vec<Ent>, bool), String> {
    let mut raw = e2s(h.entries_raw(ab, start.map(|o| UnitOffset(o as usize))))?;
    let mut out = vec![];
    let mut pred_ok = true;
    let mut e = gimli::DebuggingInformationEntry::null();
    while !raw.is_empty() {
        let po = raw.next_offset().0 as u64;
        let pd = raw.next_depth() as i64;
        e2s(raw.read_entry(&mut e))?;
        let x = ent_of(&e);
        pred_ok &= x.off == po && x.depth == pd;
        out.push(x);
    }
    Ok((out, pred_ok))
}

/// path 2
fn dfs_seq(mut c: gimli::EntriesCursor<'_, Rd<'_>>) -> Result<(Vec<Ent>, bool), String> {
    let mut out = vec![];
    while let Some(e) = e2s(c.next_dfs())? {
        out.push(ent_of(e));
    }
    // exhausted cursors stay exhausted
    let mut stays = true;
    for _ in 0..2 {
        stays &= matches!(c.next_dfs(), Ok(None));
        stays &= c.current().is_none();
    }
    Ok((out, stays))
}

/// path 3
fn entry_seq(mut c: gimli::EntriesCursor<'_, Rd<'_>>) -> Result<(Vec<Ent>, bool), String> {
    let mut out = vec![];
    let mut ok = true;
    loop {
        let po = c.next_offset().0 as u64;
        let pd = c.next_depth() as i64;
        if !e2s(c.next_entry())? {
            break;
        }
        let off = c.offset().0 as u64;
        let depth = c.depth() as i64;
        ok &= off == po && depth == pd;
        match c.current() {
            Some(e) => {
                let x = ent_of(e);
                ok &= x.off == off && x.depth == depth;
                out.push(x);
            }
            None => out.push(Ent { off, depth, null: true, tag: 0, children: false, nattrs: 0 }),
        }
    }
    ok &= matches!(c.next_entry(), Ok(false)) && c.current().is_none();
    Ok((out, ok))
}

/// path 6b: cursor started at `off`; first entry, then repeated next_sibling.
fn sibling_list(h: &Hdr<'_>, ab: &Abb, off: u64) -> Result<(Vec<Ent>, bool), String> {
    let mut c = e2s(h.entries_at_offset(ab, UnitOffset(off as usize)))?;
    let mut out = vec![];
    if !e2s(c.next_entry())? {
        return Ok((out, true));
    }
    match c.current() {
        Some(e) => out.push(ent_of(e)),
        None => return Ok((out, true)),
    }
    while let Some(e) = e2s(c.next_sibling())? {
        out.push(ent_of(e));
    }
    // "Once Ok(None) is returned, this method will continue to return Ok(None)"
    let mut stays = true;
    for _ in 0..2 {
        stays &= matches!(c.next_sibling(), Ok(None));
    }
    Ok((out, stays))
}

/// path 4: (offset, parent offset, position in its sibling list), sorted by offset.
fn sibling_walk(h: &Hdr<'_>, ab: &Abb, budget: &mut u64) -> Result<Vec<(u64, Option<u64>, usize)>, String> {
    let mut out = vec![];
    let mut c = h.entries(ab);
    if !e2s(c.next_entry())? || c.current().is_none() {
        return Ok(out);
    }
    let mut stack = vec![(c, None::<u64>)];
    while let Some((mut c, parent)) = stack.pop() {
        let mut pos = 0usize;
        loop {
            let (off, has_children) = match c.current() {
                Some(e) => (e.offset().0 as u64, e.has_children()),
                None => break,
            };
            out.push((off, parent, pos));
            pos += 1;
            if *budget == 0 {
                return Err("budget".into());
            }
            *budget -= 1;
            if has_children {
                let mut child = c.clone();
                if e2s(child.next_entry())? && child.current().is_some() {
                    stack.push((child, Some(off)));
                }
            }
            if e2s(c.next_sibling())?.is_none() {
                break;
            }
        }
    }
    out.sort();
    Ok(out)
}

/// Does a partial traversal descend into the children of the entry at `off`?
/// mode 0: always; mode 1: never (only the root's direct children are listed);
/// mode 2: only for entries at even offsets.  Skipping a node's children is what makes
/// `EntriesTree::next` use its DW_AT_sibling fast path / depth-based skipping.
fn descend(mode: u8, off: u64) -> bool {
    match mode {
        0 => true,
        1 => false,
        _ => off % 2 == 0,
    }
}

/// path 5
fn walk_tree(node: gimli::EntriesTreeNode<'_, '_, Rd<'_>>, depth: i64, parent: Option<u64>, mode: u8, out: &mut Vec<(Ent, Option<u64>)>) -> gimli::Result<()> {
    let mut x = ent_of(node.entry());
    let reported_depth = x.depth;
    // the tree position is what is judged; the entry's own depth field must agree with it
    x.depth = depth;
    if reported_depth != depth {
        x.nattrs = usize::MAX; // poison: makes the comparison fail visibly
    }
    let off = x.off;
    out.push((x, parent));
    if depth > 0 && !descend(mode, off) {
        return Ok(());
    }
    let mut ch = node.children();
    while let Some(c) = ch.next()? {
        walk_tree(c, depth + 1, Some(off), mode, out)?;
    }
    // an exhausted child iterator stays exhausted
    if ch.next()?.is_some() {
        out.push((Ent { off: u64::MAX, depth, null: true, tag: 0, children: false, nattrs: 0 }, parent));
    }
    Ok(())
}

/// Full traversal (twice: `root()` can be taken again), then the two partial traversals.
fn tree_seq(mut t: gimli::EntriesTree<'_, Rd<'_>>) -> Result<Vec<Vec<(Ent, Option<u64>)>>, String> {
    let mut all = vec![];
    for mode in [0u8, 0, 1, 2] {
        let mut out = vec![];
        let root = e2s(t.root())?;
        e2s(walk_tree(root, 0, None, mode, &mut out))?;
        all.push(out);
    }
    if all[0] != all[1] {
        return Err("second root() traversal differs from the first".into());
    }
    all.remove(1);
    Ok(all)
}

#[derive(Clone, Debug, PartialEq, Eq)]
pub struct HeaderObs {
    pub section: &'static str,
    pub offset: u64,
    pub unit_length: u64,
    pub length_including_self: u64,
    pub header_size: u64,
    pub size_of_header: u64,
    pub root_offset: u64,
    pub version: u16,
    pub fmt64: bool,
    pub address_size: u8,
    pub encoding: (bool, u16, u8),
    pub abbrev_offset: u64,
    pub kind: &'static str,
    pub signature: u64,
    pub type_offset: u64,
    pub dwo_id: u64,
    pub info_offset: Option<u64>,
    pub types_offset: Option<u64>,
}

fn header_obs(h: &Hdr<'_>) -> HeaderObs {
    let (kind, signature, type_offset, dwo_id) = match h.type_() {
        gimli::UnitType::Compilation => ("Compile", 0, 0, 0),
        gimli::UnitType::Type { type_signature, type_offset } => ("Type", type_signature.0, type_offset.0 as u64, 0),
        gimli::UnitType::Partial => ("Partial", 0, 0, 0),
        gimli::UnitType::Skeleton(d) => ("Skeleton", 0, 0, d.0),
        gimli::UnitType::SplitCompilation(d) => ("SplitCompile", 0, 0, d.0),
        gimli::UnitType::SplitType { type_signature, type_offset } => ("SplitType", type_signature.0, type_offset.0 as u64, 0),
    };
    let e = h.encoding();
    HeaderObs {
        section: match h.section() {
            gimli::SectionId::DebugInfo => "Info",
            gimli::SectionId::DebugTypes => "Types",
            _ => "other",
        },
        offset: h.offset().0 as u64,
        unit_length: h.unit_length() as u64,
        length_including_self: h.length_including_self() as u64,
        header_size: h.header_size() as u64,
        size_of_header: h.size_of_header() as u64,
        root_offset: h.root_offset().0 as u64,
        version: h.version(),
        fmt64: h.format() == gimli::Format::Dwarf64,
        address_size: h.address_size(),
        encoding: (e.format == gimli::Format::Dwarf64, e.version, e.address_size),
        abbrev_offset: h.debug_abbrev_offset().0 as u64,
        kind,
        signature,
        type_offset,
        dwo_id,
        info_offset: h.debug_info_offset().map(|o| o.0 as u64),
        types_offset: h.debug_types_offset().map(|o| o.0 as u64),
    }
}

fn header_model(u: &UnitModel) -> HeaderObs {
    let isz = if u.enc.fmt64 { 12 } else { 4 };
    HeaderObs {
        section: if u.sec == Sec::Info { "Info" } else { "Types" },
        offset: u.offset,
        unit_length: u.unit_length,
        length_including_self: u.unit_length + isz,
        header_size: u.header_size,
        size_of_header: u.header_size,
        root_offset: u.header_size,
        version: u.enc.version,
        fmt64: u.enc.fmt64,
        address_size: u.enc.addr,
        encoding: (u.enc.fmt64, u.enc.version, u.enc.addr),
        abbrev_offset: u.abbrev_offset,
        kind: match u.kind {
            UnitKind::Compile => "Compile",
            UnitKind::Type => "Type",
            UnitKind::Partial => "Partial",
            UnitKind::Skeleton => "Skeleton",
            UnitKind::SplitCompile => "SplitCompile",
            UnitKind::SplitType => "SplitType",
        },
        signature: if u.kind.has_type() { u.type_signature } else { 0 },
        type_offset: if u.kind.has_type() { u.type_offset } else { 0 },
        dwo_id: if u.kind.has_dwo_id() { u.dwo_id } else { 0 },
        info_offset: if u.sec == Sec::Info { Some(u.offset) } else { None },
        types_offset: if u.sec == Sec::Types { Some(u.offset) } else { None },
    }
}

/// Everything gimli reports about one unit.
#[derive(Clone, Debug)]
pub struct UnitObs {
    pub header: HeaderObs,
    pub header_from_offset_same: Option<bool>,
    /// (offset probed, is_in_bounds, section->unit conversion, range_from ok, entries_at_offset ok)
    pub bounds: Vec<(u64, bool, Option<u64>, bool, bool)>,
    pub abbrevs: Result<(), String>,
    pub raw: Result<(Vec<Ent>, bool), String>,
    pub dfs: Result<(Vec<Ent>, bool), String>,
    pub entries: Result<(Vec<Ent>, bool), String>,
    pub walk: Result<Vec<(u64, Option<u64>, usize)>, String>,
    pub tree: Option<Result<Vec<Vec<(Ent, Option<u64>)>>, String>>,
    pub dwarf_unit: Option<Result<(Vec<Ent>, Vec<Ent>), String>>,
    /// per start item index
    pub pos: Vec<PosObs>,
    /// UnitHeader::entry at null offsets is an error
    pub entry_at_null_err: Vec<bool>,
}

#[derive(Clone, Debug)]
pub struct PosObs {
    pub item: usize,
    pub entry: Result<Ent, String>,
    pub dfs: Result<(Vec<Ent>, bool), String>,
    pub siblings: Result<(Vec<Ent>, bool), String>,
    pub tree: Option<Result<Vec<Vec<(Ent, Option<u64>)>>, String>>,
    pub raw: Result<(Vec<Ent>, bool), String>,
}

pub struct Plan {
    /// item indices used as start positions, per unit
    pub starts: Vec<Vec<usize>>,
    /// run the recursive tree API (depth <= 300)
    pub tree: Vec<bool>,
}

fn observe(b: &Built, plan: &Plan) -> Result<Vec<UnitObs>, String> {
    let endian = if b.le { RunTimeEndian::Little } else { RunTimeEndian::Big };
    let da = gimli::DebugAbbrev::new(&b.debug_abbrev, endian);
    let di = gimli::DebugInfo::new(&b.debug_info, endian);
    let hs = headers(b)?;
    let mut dwarf = gimli::Dwarf::default();
    dwarf.debug_info = di;
    dwarf.debug_abbrev = da;
    dwarf.debug_types = gimli::DebugTypes::new(&b.debug_types, endian);
    let mut out = vec![];
    for (ui, (um, h)) in b.units.iter().zip(hs.iter()).enumerate() {
        let header = header_obs(h);
        let header_from_offset_same = if um.sec == Sec::Info {
            Some(di.header_from_offset(gimli::DebugInfoOffset(um.offset as usize)).map(|x| x == *h).unwrap_or(false))
        } else {
            None
        };
        let ab_res = e2s(h.abbreviations(&da));
        let mut bounds = vec![];
        for x in [0u64, 1, um.header_size.wrapping_sub(1), um.header_size, um.header_size + 1, um.end.wrapping_sub(1), um.end, um.end + 1, um.end + 1000, u32::MAX as u64] {
            let uo = UnitOffset(x as usize);
            let inb = uo.is_in_bounds(h);
            let conv = gimli::UnitSectionOffset((um.offset + x) as usize).to_unit_offset(h).map(|o| o.0 as u64);
            let rf = h.range_from(uo..).is_ok();
            let ea = match &ab_res {
                Ok(ab) => h.entries_at_offset(ab, uo).is_ok(),
                Err(_) => false,
            };
            bounds.push((x, inb, conv, rf, ea));
        }
        let ab = match ab_res {
            Ok(a) => a,
            Err(e) => {
                out.push(UnitObs {
                    header,
                    header_from_offset_same,
                    bounds,
                    abbrevs: Err(e),
                    raw: Err("-".into()),
                    dfs: Err("-".into()),
                    entries: Err("-".into()),
                    walk: Err("-".into()),
                    tree: None,
                    dwarf_unit: None,
                    pos: vec![],
                    entry_at_null_err: vec![],
                });
                continue;
            }
        };
        let raw = raw_seq(h, &ab, None);
        let dfs = dfs_seq(h.entries(&ab));
        let entries = entry_seq(h.entries(&ab));
        let mut budget = 40_000_000u64;
        let walk = sibling_walk(h, &ab, &mut budget);
        let do_tree = plan.tree[ui];
        let tree = if do_tree { Some(e2s(h.entries_tree(&ab, None)).and_then(tree_seq)) } else { None };
        // path 7: through Dwarf / Unit
        let dwarf_unit = if um.items.len() <= 400 {
            Some((|| {
                let unit = e2s(dwarf.unit(*h))?;
                let a = dfs_seq(unit.entries())?.0;
                let mut raw = e2s(unit.entries_raw(None))?;
                let mut bseq = vec![];
                let mut e = gimli::DebuggingInformationEntry::null();
                while !raw.is_empty() {
                    e2s(raw.read_entry(&mut e))?;
                    bseq.push(ent_of(&e));
                }
                Ok((a, bseq))
            })())
        } else {
            None
        };
        let mut pos = vec![];
        let mut entry_at_null_err = vec![];
        for &i in &plan.starts[ui] {
            let im = &um.items[i];
            if im.null {
                entry_at_null_err.push(h.entry(&ab, UnitOffset(im.offset as usize)).is_err());
                continue;
            }
            let off = im.offset;
            let uo = UnitOffset(off as usize);
            pos.push(PosObs {
                item: i,
                entry: e2s(h.entry(&ab, uo)).map(|e| ent_of(&e)),
                dfs: e2s(h.entries_at_offset(&ab, uo)).and_then(dfs_seq),
                siblings: sibling_list(h, &ab, off),
                tree: if do_tree { Some(e2s(h.entries_tree(&ab, Some(uo))).and_then(tree_seq)) } else { None },
                raw: raw_seq(h, &ab, Some(off)),
            });
        }
        out.push(UnitObs { header, header_from_offset_same, bounds, abbrevs: Ok(()), raw, dfs, entries, walk, tree, dwarf_unit, pos, entry_at_null_err });
    }
    Ok(out)
}

// ------------------------------------------------------------------ model derivations

fn ent_model(m: &ItemModel, rel: i64) -> Ent {
    Ent { off: m.offset, depth: m.depth - rel, null: m.null, tag: if m.null { 0 } else { m.tag }, children: m.children, nattrs: m.attrs.len() }
}

/// parent item index of every item (None for top-level entries and for nulls).
fn parents(items: &[ItemModel]) -> Vec<Option<usize>> {
    let mut open: Vec<Option<usize>> = vec![];
    let mut out = vec![];
    for (i, m) in items.iter().enumerate() {
        let d = m.depth;
        if m.null {
            out.push(None);
            if d >= 1 {
                if let Some(slot) = open.get_mut((d - 1) as usize) {
                    *slot = None;
                }
            }
            continue;
        }
        let p = if d >= 1 { open.get((d - 1) as usize).copied().flatten() } else { None };
        out.push(p);
        if m.children && d >= 0 {
            let du = d as usize;
            if open.len() <= du {
                open.resize(du + 1, None);
            }
            open[du] = Some(i);
        }
    }
    out
}

/// Entries following item `i` at the same depth until the null that closes their list.
fn siblings_after(items: &[ItemModel], i: usize) -> Vec<usize> {
    let d = items[i].depth;
    let mut out = vec![];
    for j in (i + 1)..items.len() {
        let m = &items[j];
        if m.depth > d {
            continue;
        }
        if m.depth < d {
            break;
        }
        if m.null {
            break;
        }
        out.push(j);
    }
    out
}

/// Items of the subtree rooted at `i` (pre-order, entries only).
fn subtree(items: &[ItemModel], i: usize) -> Vec<usize> {
    let d = items[i].depth;
    let mut out = vec![i];
    if !items[i].children {
        return out;
    }
    for j in (i + 1)..items.len() {
        let m = &items[j];
        if m.depth <= d {
            break;
        }
        if m.null {
            if m.depth == d + 1 {
                break;
            }
            continue;
        }
        out.push(j);
    }
    out
}

// ------------------------------------------------------------------ case construction

#[derive(Clone, Copy, Debug, PartialEq, Eq)]
pub enum Sib {
    None,
    RightAll,
    RightSubset,
    SelfRef,
    Backward,
    Inside,
    Beyond,
    NonRef,
    WrongChildless,
}
const SIBS: [Sib; 9] = [Sib::None, Sib::RightAll, Sib::RightSubset, Sib::SelfRef, Sib::Backward, Sib::Inside, Sib::Beyond, Sib::NonRef, Sib::WrongChildless];

#[derive(Clone, Copy, Debug, PartialEq, Eq)]
pub enum Scheme {
    Sequential,
    Permuted,
    Sparse,
    Huge,
    VecMap,
    Descending,
    Random,
}
const SCHEMES: [Scheme; 7] = [Scheme::Sequential, Scheme::Permuted, Scheme::Sparse, Scheme::Huge, Scheme::VecMap, Scheme::Descending, Scheme::Random];

/// Assign codes to `n` declarations (in table order).
fn scheme_codes(r: &mut Rng, scheme: Scheme, n: usize) -> Vec<u64> {
    let n64 = n as u64;
    match scheme {
        Scheme::Sequential => (1..=n64).collect(),
        Scheme::Permuted => {
            let mut v: Vec<u64> = (1..=n64).collect();
            r.shuffle(&mut v);
            v
        }
        Scheme::Descending => (1..=n64).rev().collect(),
        Scheme::VecMap => {
            // e.g. 1,2,5,3,4: later codes arrive before the dense prefix reaches them
            let mut v: Vec<u64> = (1..=n64).collect();
            if n >= 3 {
                let k = 1 + r.usize(n - 2);
                let last = v.remove(n - 1);
                v.insert(k, last);
            }
            if n >= 5 && r.bool() {
                v.swap(0, 2);
            }
            v
        }
        Scheme::Sparse => {
            let pool = [1u64, 3, 1000, 7, 64, 127, 128, 129, 16383, 16384, 5000, 2, 255, 256, 65535, 65536, 1 << 21, 100_000];
            distinct_from(r, &pool, n)
        }
        Scheme::Huge => {
            let pool = [
                (1u64 << 32) + 5, 1 << 63, u64::MAX, 1 << 32, (1 << 32) - 1, (1 << 63) - 1, u64::MAX - 1, (1 << 63) + 1, 1 << 35, 1 << 42, 1 << 49, 1 << 56,
                (1 << 56) - 1, i64::MAX as u64 - 7, 3, 1,
            ];
            distinct_from(r, &pool, n)
        }
        Scheme::Random => {
            let mut v: Vec<u64> = vec![];
            while v.len() < n {
                let c = match r.below(3) {
                    0 => 1 + r.below(2 * n64 + 2),
                    1 => r.boundary(),
                    _ => r.next(),
                };
                if c != 0 && !v.contains(&c) {
                    v.push(c);
                }
            }
            v
        }
    }
}

fn distinct_from(r: &mut Rng, pool: &[u64], n: usize) -> Vec<u64> {
    let mut p = pool.to_vec();
    r.shuffle(&mut p);
    let mut v: Vec<u64> = p.into_iter().take(n).collect();
    let mut extra = 200_000u64;
    while v.len() < n {
        extra += 1 + r.below(1000);
        if !v.contains(&extra) {
            v.push(extra);
        }
    }
    v
}

#[derive(Clone, Copy, Debug, PartialEq, Eq, Hash, PartialOrd, Ord)]
struct Shape {
    children: bool,
    /// form of the DW_AT_sibling attribute (0 = none)
    sib_form: u16,
    /// 0 none, 1 data1 first, 2 string last, 3 udata first, 4 data2 + flag_present
    extra: u8,
}

fn shape_attrs(s: Shape) -> Vec<AttrDecl> {
    let mut v = vec![];
    match s.extra {
        1 => v.push(AttrDecl::new(0x3b, forms::F_DATA1)),
        3 => v.push(AttrDecl::new(0x0b, forms::F_UDATA)),
        4 => {
            v.push(AttrDecl::new(0x39, forms::F_DATA2));
            v.push(AttrDecl::new(0x3f, forms::F_FLAG_PRESENT));
        }
        _ => {}
    }
    if s.sib_form != 0 {
        v.push(AttrDecl::new(forms::AT_SIBLING, s.sib_form));
    }
    if s.extra == 2 {
        v.push(AttrDecl::new(forms::AT_NAME, forms::F_STRING));
    }
    v
}

pub struct ForestSpec<'a> {
    pub enc: Enc,
    pub kind: UnitKind,
    pub depths: &'a [u8],
    pub leaf_children: Vec<bool>,
    pub sib: Sib,
    pub scheme: Scheme,
    pub trailing: usize,
    /// declarations that no DIE uses, mixed into the table
    pub unused_decls: usize,
    pub terminated: bool,
}

/// What the generator intended for each DW_AT_sibling attribute.
#[derive(Clone, Debug)]
struct SibNote {
    item: usize,
    attr: usize,
    /// Some(target item index) when the value is meant to be right
    right: Option<usize>,
}

pub struct ForestUnit {
    pub table: AbbrevTable,
    pub unit: UnitCfg,
    notes: Vec<SibNote>,
    pub strict: bool,
}

/// Build one unit (and its own abbreviation table) for a forest.
pub fn forest_unit(r: &mut Rng, sp: &ForestSpec<'_>, table_index: usize) -> ForestUnit {
    let n = sp.depths.len();
    // --- shapes per node
    let small = n <= 8;
    let mid = n <= 500;
    let ref_forms: Vec<u16> = {
        let mut v = vec![forms::F_REF4, forms::F_REF8, forms::F_REF_UDATA];
        if small {
            v.push(forms::F_REF1);
        }
        if mid {
            v.push(forms::F_REF2);
        }
        v
    };
    let nonref_forms = [forms::F_DATA4, forms::F_REF_ADDR, forms::F_UDATA, forms::F_SEC_OFFSET, forms::F_DATA8, forms::F_REF_SIG8, forms::F_GNU_REF_ALT];
    let mut shapes: Vec<Shape> = vec![];
    let mut wrong_node: Vec<bool> = vec![false; n];
    for i in 0..n {
        let has_child = i + 1 < n && sp.depths[i + 1] == sp.depths[i] + 1;
        let children = has_child || sp.leaf_children.get(i).copied().unwrap_or(false);
        let extra = r.below(5) as u8;
        let rf = ref_forms[r.usize(ref_forms.len())];
        // deliberately wrong values only in forms wide enough that truncation cannot turn them
        // into a plausible forward offset
        let wf = [forms::F_REF4, forms::F_REF8, forms::F_REF_UDATA][r.usize(3)];
        let sib_form = match sp.sib {
            Sib::None => 0,
            Sib::RightAll => if children { rf } else { 0 },
            Sib::RightSubset => if r.bool() { rf } else { 0 },
            Sib::SelfRef | Sib::Backward | Sib::Inside | Sib::Beyond => {
                // wrong value on some parents, right values or nothing elsewhere
                if children && r.chance(2, 3) {
                    wrong_node[i] = true;
                    wf
                } else if r.chance(1, 3) {
                    rf
                } else {
                    0
                }
            }
            Sib::NonRef => {
                if r.chance(2, 3) {
                    wrong_node[i] = true;
                    nonref_forms[r.usize(nonref_forms.len())]
                } else {
                    0
                }
            }
            Sib::WrongChildless => {
                if !children && r.chance(2, 3) {
                    wrong_node[i] = true;
                    wf
                } else if children && r.bool() {
                    rf
                } else {
                    0
                }
            }
        };
        shapes.push(Shape { children, sib_form, extra });
    }
    // --- distinct shapes -> declarations
    let mut uniq: Vec<Shape> = shapes.clone();
    uniq.sort();
    uniq.dedup();
    r.shuffle(&mut uniq);
    let total = uniq.len() + sp.unused_decls;
    let codes = scheme_codes(r, sp.scheme, total);
    // table order: used and unused declarations interleaved
    let mut slots: Vec<Option<Shape>> = uniq.iter().map(|s| Some(*s)).collect();
    for _ in 0..sp.unused_decls {
        let at = r.usize(slots.len() + 1);
        slots.insert(at, None);
    }
    let mut decls = vec![];
    let mut decl_of: BTreeMap<Shape, usize> = BTreeMap::new();
    for (k, s) in slots.iter().enumerate() {
        let tag = 0x11 + k as u16;
        match s {
            Some(s) => {
                decl_of.insert(*s, k);
                decls.push(AbbrevDecl { code: codes[k], tag, children: s.children, attrs: shape_attrs(*s) });
            }
            None => decls.push(AbbrevDecl { code: codes[k], tag, children: r.bool(), attrs: vec![AttrDecl::new(0x03, forms::F_STRP), AttrDecl::new(0x49, forms::F_REF4)] }),
        }
    }
    // --- items
    let shapes2 = shapes.clone();
    let (mut items, node_item) = items_from_depths(
        sp.depths,
        &sp.leaf_children,
        |i, flag| {
            debug_assert_eq!(shapes2[i].children, flag);
            decl_of[&shapes2[i]]
        },
        |_| vec![],
    );
    for _ in 0..sp.trailing {
        items.push(Item::Null);
    }
    // depth per item (Appendix A.3) to find the item after each subtree
    let mut idepth = vec![0i64; items.len()];
    {
        let mut d = 0i64;
        for (p, it) in items.iter().enumerate() {
            idepth[p] = d;
            match it {
                Item::Null => d -= 1,
                Item::Die { abbrev, .. } => {
                    if decls[*abbrev].children {
                        d += 1;
                    }
                }
            }
        }
    }
    let nitems = items.len();
    let mut notes = vec![];
    for i in 0..n {
        let p = node_item[i];
        let s = shapes[i];
        let d = idepth[p];
        // the item right after this entry's subtree
        let after = if s.children {
            let mut q = p + 1;
            while q < nitems && !(matches!(items[q], Item::Null) && idepth[q] == d + 1) {
                q += 1;
            }
            (q + 1).min(nitems)
        } else {
            p + 1
        };
        let mut vals = vec![];
        let attrs = shape_attrs(s);
        for (k, ad) in attrs.iter().enumerate() {
            if ad.name == forms::AT_SIBLING {
                let mut v = AttrVal::new(Val::Ref { item: after, delta: 0 });
                let mut right = Some(after);
                if ad.form == forms::F_REF_UDATA {
                    v.leb_len = 5;
                }
                if wrong_node[i] {
                    right = None;
                    v.val = match sp.sib {
                        Sib::SelfRef => Val::Ref { item: p, delta: 0 },
                        Sib::Backward => match r.below(3) {
                            0 => Val::U(r.below(11)),
                            1 => Val::Ref { item: r.usize(p + 1), delta: if p == 0 { -1 } else { 0 } },
                            _ => Val::Ref { item: 0, delta: 0 },
                        },
                        Sib::Inside => Val::Ref { item: p, delta: 1 },
                        Sib::Beyond => match r.below(3) {
                            0 => Val::Ref { item: nitems, delta: 1 + r.below(3) as i64 },
                            1 => Val::Ref { item: nitems, delta: 64 + r.below(200) as i64 },
                            _ => Val::Ref { item: nitems, delta: 0x7000 },
                        },
                        // a harmful forward offset (middle of the following item) in a form that is
                        // not a unit reference, or on an entry without children
                        Sib::NonRef | Sib::WrongChildless => Val::Ref { item: (p + 2).min(nitems), delta: if p + 2 < nitems { 0 } else { -1 } },
                        _ => v.val.clone(),
                    };
                    if sp.sib == Sib::Backward && p == 0 {
                        v.val = Val::U(r.below(4));
                    }
                }
                notes.push(SibNote { item: p, attr: k, right });
                vals.push(v);
            } else {
                vals.push(match ad.form {
                    forms::F_STRING => AttrVal::new(Val::Bytes(crate::gen::info::filler(r.usize(7), i as u64))),
                    forms::F_UDATA => AttrVal::u(r.boundary()),
                    forms::F_FLAG_PRESENT => AttrVal::new(Val::Nothing),
                    _ => AttrVal::u(r.below(65536)),
                });
            }
        }
        if let Item::Die { vals: v, code_len, .. } = &mut items[p] {
            *v = vals;
            // occasionally a padded (non-canonical) abbreviation code
            let d = &decls[decl_of[&s]];
            if d.code < 128 && r.chance(1, 12) {
                *code_len = 2;
            }
        }
    }
    let mut unit = UnitCfg::new(sp.enc, sp.kind, table_index, items);
    unit.type_signature = r.next();
    unit.dwo_id = r.next();
    unit.type_offset = if r.bool() { TypeOffset::Item(r.usize(nitems.max(1))) } else { TypeOffset::Raw(r.boundary() & 0xffff_ffff) };
    ForestUnit { table: AbbrevTable { decls, terminated: sp.terminated }, unit, notes, strict: sp.sib != Sib::WrongChildless }
}

// ------------------------------------------------------------------ oracle

fn input_json(b: &Built, tag: &str, extra: &str) -> Value {
    json!({
        "what": tag,
        "detail": extra,
        "le": b.le,
        "units": b.units.iter().map(|u| json!({"enc": u.enc.label(), "kind": format!("{:?}", u.kind), "sec": format!("{:?}", u.sec), "offset": u.offset, "items": u.items.len()})).collect::<Vec<_>>(),
        "debug_abbrev": hex(&b.debug_abbrev),
        "debug_info": hex(&b.debug_info),
        "debug_types": hex(&b.debug_types),
    })
}

fn cmp_seq(ctx: &mut Ctx, sig: &str, exp: &[Ent], got: &Result<(Vec<Ent>, bool), String>, strict: bool, input: &dyn Fn() -> Value) {
    match got {
        Ok((g, flag)) => {
            if strict {
                if g.as_slice() != exp {
                    // find the first difference for a readable message
                    let k = exp.iter().zip(g.iter()).position(|(a, b)| a != b).unwrap_or(exp.len().min(g.len()));
                    ctx.check_eq(sig, &(exp.len(), k, exp.get(k)), &(g.len(), k, g.get(k)), input);
                }
                ctx.check_eq(&format!("{sig}.protocol"), &true, flag, input);
            } else if g.as_slice() != exp {
                ctx.obs("secondary.mismatch.wrong_sibling_on_childless_followed");
            }
        }
        Err(e) => {
            if strict {
                ctx.fail(&format!("{sig}.err"), &format!("{sig}: well-formed unit rejected: {e}"), input);
            } else {
                ctx.obs("secondary.mismatch.wrong_sibling_on_childless_error");
            }
        }
    }
}

fn cmp_tree(ctx: &mut Ctx, sig: &str, items: &[ItemModel], root: usize, par: &[Option<usize>], got: &Result<Vec<Vec<(Ent, Option<u64>)>>, String>, strict: bool, input: &dyn Fn() -> Value) {
    match got {
        Ok(gs) => {
            for (mode, g) in [0u8, 1, 2].iter().zip(gs.iter()) {
                let exp = tree_model(items, root, par, *mode);
                if g.as_slice() != exp.as_slice() {
                    if strict {
                        let k = exp.iter().zip(g.iter()).position(|(a, b)| a != b).unwrap_or(exp.len().min(g.len()));
                        let name = ["full", "direct_children", "partial"][*mode as usize];
                        ctx.check_eq(&format!("{sig}.{name}"), &(exp.len(), k, exp.get(k)), &(g.len(), k, g.get(k)), input);
                    } else {
                        ctx.obs("secondary.mismatch.wrong_sibling_on_childless_followed");
                    }
                }
            }
        }
        Err(e) => {
            if strict {
                ctx.fail(&format!("{sig}.err"), &format!("{sig}: well-formed unit rejected: {e}"), input);
            } else {
                ctx.obs("secondary.mismatch.wrong_sibling_on_childless_error");
            }
        }
    }
}

fn tree_model(items: &[ItemModel], root: usize, par: &[Option<usize>], mode: u8) -> Vec<(Ent, Option<u64>)> {
    let rel = items[root].depth;
    // pruned[j]: j lies below an entry whose children the traversal does not visit
    let mut pruned: BTreeMap<usize, bool> = BTreeMap::new();
    let mut out = vec![];
    for j in subtree(items, root) {
        if j == root {
            pruned.insert(j, false);
            out.push((ent_model(&items[j], rel), None));
            continue;
        }
        let p = par[j];
        let hidden = match p {
            Some(p) => pruned.get(&p).copied().unwrap_or(true) || (p != root && !descend(mode, items[p].offset)),
            None => true,
        };
        pruned.insert(j, hidden);
        if !hidden {
            out.push((ent_model(&items[j], rel), p.map(|p| items[p].offset)));
        }
    }
    out
}

/// Judge one built case.  `strict[u]` is false for units whose sibling attributes are wrong in a
/// way the property does not cover.
fn judge(ctx: &mut Ctx, b: &Built, plan: &Plan, obs: &Result<Vec<UnitObs>, String>, strict: &[bool], tag: &str, detail: &str) {
    let input = || input_json(b, tag, detail);
    let obs = match obs {
        Ok(o) => o,
        Err(e) => {
            ctx.fail("units.headers", &format!("unit headers of a well-formed section could not be read: {e}"), &input);
            return;
        }
    };
    if b.units.len() > 1 {
        ctx.obs("section.multi_unit");
    }
    for (ui, (um, uo)) in b.units.iter().zip(obs.iter()).enumerate() {
        let strict = strict[ui];
        // ---- header
        ctx.check_eq("unit_header", &header_model(um), &uo.header, &input);
        ctx.obs(&format!("unit.v{}.{:?}", um.enc.version, um.kind));
        ctx.obs(if um.enc.fmt64 { "unit.format64" } else { "unit.format32" });
        ctx.obs(if um.enc.le { "unit.le" } else { "unit.be" });
        ctx.obs(&format!("unit.addr{}", um.enc.addr));
        if um.sec == Sec::Types {
            ctx.obs("section.debug_types");
        }
        if let Some(same) = uo.header_from_offset_same {
            ctx.obs("header.from_offset");
            ctx.check_eq("header_from_offset", &true, &same, &input);
        }
        for (x, inb, conv, rf, ea) in &uo.bounds {
            ctx.obs("bounds.checked");
            let exp = *x >= um.header_size && *x < um.end;
            ctx.check_eq("is_in_bounds", &(*x, exp), &(*x, *inb), &input);
            ctx.check_eq("to_unit_offset", &(*x, if exp { Some(*x) } else { None }), &(*x, *conv), &input);
            ctx.check_eq("range_from.in_bounds", &(*x, exp), &(*x, *rf), &input);
            ctx.check_eq("entries_at_offset.in_bounds", &(*x, exp), &(*x, *ea), &input);
        }
        if let Err(e) = &uo.abbrevs {
            ctx.fail("abbreviations.err", &format!("well-formed abbreviation table rejected: {e}"), &input);
            continue;
        }
        if um.items.is_empty() {
            continue;
        }
        let items = &um.items;
        let par = parents(items);
        let all: Vec<Ent> = items.iter().map(|m| ent_model(m, 0)).collect();
        let nonnull: Vec<Ent> = all.iter().filter(|e| !e.null).cloned().collect();
        // ---- whole-unit paths
        ctx.obs("path.raw");
        cmp_seq(ctx, "raw.read_entry", &all, &uo.raw, true, &input);
        ctx.obs("path.dfs");
        cmp_seq(ctx, "cursor.next_dfs", &nonnull, &uo.dfs, true, &input);
        ctx.obs("path.next_entry");
        cmp_seq(ctx, "cursor.next_entry", &all, &uo.entries, true, &input);
        // sibling walk
        ctx.obs("path.sibling_walk");
        {
            // model: entries reachable from the first top-level list
            let mut exp: Vec<(u64, Option<u64>, usize)> = vec![];
            if !items[0].null {
                let mut lists: Vec<(usize, Option<usize>)> = vec![(0, None)];
                while let Some((first, parent)) = lists.pop() {
                    let mut list = vec![first];
                    list.extend(siblings_after(items, first));
                    for (pos, &j) in list.iter().enumerate() {
                        exp.push((items[j].offset, parent.map(|p| items[p].offset), pos));
                        if items[j].children && j + 1 < items.len() && !items[j + 1].null {
                            lists.push((j + 1, Some(j)));
                        }
                    }
                }
            }
            exp.sort();
            match &uo.walk {
                Ok(g) => {
                    if *g != exp {
                        if strict {
                            let k = exp.iter().zip(g.iter()).position(|(a, b)| a != b).unwrap_or(exp.len().min(g.len()));
                            ctx.check_eq("cursor.next_sibling.walk", &(exp.len(), exp.get(k)), &(g.len(), g.get(k)), &input);
                        } else {
                            ctx.obs("secondary.mismatch.wrong_sibling_on_childless_followed");
                        }
                    }
                }
                Err(e) if e == "budget" => ctx.inconclusive("sibling walk budget exhausted"),
                Err(e) => {
                    if strict {
                        ctx.fail("cursor.next_sibling.walk.err", &format!("sibling walk failed on a well-formed unit: {e}"), &input)
                    } else {
                        ctx.obs("secondary.mismatch.wrong_sibling_on_childless_error");
                    }
                }
            }
        }
        if let Some(t) = &uo.tree {
            ctx.obs("path.tree");
            if !items[0].null {
                cmp_tree(ctx, "tree.children", items, 0, &par, t, strict, &input);
            }
        }
        if let Some(d) = &uo.dwarf_unit {
            ctx.obs("path.dwarf_unit");
            match d {
                Ok((a, r)) => {
                    if *a != nonnull {
                        ctx.check_eq("Unit.entries.next_dfs", &nonnull.len(), &a.len(), &input);
                        ctx.fail("Unit.entries.next_dfs.seq", "Unit::entries reports a different sequence than the encoded one", &input);
                    }
                    if *r != all {
                        ctx.fail("Unit.entries_raw.seq", "Unit::entries_raw reports a different sequence than the encoded one", &input);
                    }
                }
                Err(e) => ctx.fail("Dwarf.unit.err", &format!("Dwarf::unit failed on a well-formed unit: {e}"), &input),
            }
        }
        // ---- positioned reads
        for p in &uo.pos {
            let i = p.item;
            let m = &items[i];
            let rel = m.depth;
            ctx.obs("path.pos.entry");
            match &p.entry {
                Ok(e) => {
                    ctx.check_eq("UnitHeader.entry", &ent_model(m, rel), e, &input);
                }
                Err(e) => ctx.fail("UnitHeader.entry.err", &format!("entry at unit+0x{:x} not readable: {e}", m.offset), &input),
            }
            ctx.obs("path.pos.dfs");
            let suffix_nonnull: Vec<Ent> = items[i..].iter().filter(|x| !x.null).map(|x| ent_model(x, rel)).collect();
            cmp_seq(ctx, "entries_at_offset.next_dfs", &suffix_nonnull, &p.dfs, true, &input);
            ctx.obs("path.pos.raw");
            let suffix_all: Vec<Ent> = items[i..].iter().map(|x| ent_model(x, rel)).collect();
            cmp_seq(ctx, "entries_raw.at_offset", &suffix_all, &p.raw, true, &input);
            ctx.obs("path.pos.siblings");
            let mut sl = vec![ent_model(m, rel)];
            sl.extend(siblings_after(items, i).into_iter().map(|j| ent_model(&items[j], rel)));
            cmp_seq(ctx, "entries_at_offset.next_sibling", &sl, &p.siblings, strict, &input);
            if let Some(t) = &p.tree {
                ctx.obs("path.pos.tree");
                cmp_tree(ctx, "entries_tree.at_offset", items, i, &par, t, strict, &input);
            }
        }
        for ok in &uo.entry_at_null_err {
            if !*ok {
                ctx.obs("secondary.mismatch.entry_at_null_accepted");
            }
        }
        let _ = plan;
    }
}

/// Plan start positions and tree usage from the model.
fn make_plan(b: &Built, r: &mut Rng) -> Plan {
    let mut starts = vec![];
    let mut tree = vec![];
    for u in &b.units {
        let n = u.items.len();
        let maxd = u.items.iter().map(|m| m.depth).max().unwrap_or(0);
        tree.push(maxd <= 300 && n <= 12_000 && n > 0);
        if n <= 400 {
            starts.push((0..n).collect());
        } else {
            let mut s: Vec<usize> = (0..48).map(|_| r.usize(n)).collect();
            s.push(0);
            s.push(n - 1);
            s.push(n / 2);
            s.sort();
            s.dedup();
            starts.push(s);
        }
    }
    Plan { starts, tree }
}

fn run_case(ctx: &mut Ctx, cfg: &InfoCfg, notes: &[Vec<SibNote>], strict_in: &[bool], tag: &str, detail: &str, r: &mut Rng) -> Built {
    let b = cfg.build();
    ctx.eval();
    // the generator's "right" sibling values must really name the intended item
    let mut strict = strict_in.to_vec();
    for (ui, ns) in notes.iter().enumerate() {
        let um = &b.units[ui];
        for nt in ns {
            let Some(target) = nt.right else { continue };
            let want = um.items.get(target).map(|m| m.offset).unwrap_or(um.end);
            let have = match um.items[nt.item].attrs.get(nt.attr).map(|a| &a.expect) {
                Some(Expect::Val(mv)) => match mv.pay {
                    Pay::Int(x) => x as u64,
                    _ => u64::MAX,
                },
                _ => u64::MAX,
            };
            if want != have {
                strict[ui] = false;
                ctx.obs("harness.sibling_value_truncated");
            } else if target >= um.items.len() {
                ctx.obs("sibling.target.end");
            } else if um.items[target].null {
                ctx.obs("sibling.target.null");
            } else {
                ctx.obs("sibling.target.entry");
            }
        }
    }
    let plan = make_plan(&b, r);
    let input = || input_json(&b, tag, detail);
    let obs = ctx.guard(tag, &input, || observe(&b, &plan));
    if let Some(obs) = obs {
        judge(ctx, &b, &plan, &obs, &strict, tag, detail);
    }
    if b.units.iter().any(|u| u.items.len() >= 2) {
        let mut bytes = b.debug_abbrev.clone();
        bytes.extend_from_slice(&b.debug_info);
        bytes.extend_from_slice(&b.debug_types);
        ctx.nontrivial_bytes("c02", &bytes);
    }
    b
}

// ------------------------------------------------------------------ workloads

fn kind_for(enc: Enc, k: u64) -> UnitKind {
    if enc.version >= 5 {
        UnitKind::ALL[(k % 6) as usize]
    } else if k % 3 == 0 {
        UnitKind::Type
    } else {
        UnitKind::Compile
    }
}

fn shape_obs(ctx: &mut Ctx, depths: &[u8], leaf_children: &[bool], trailing: usize) {
    ctx.obs(&format!("padding.{}", trailing.min(3)));
    if leaf_children.iter().any(|&x| x) {
        ctx.obs("shape.empty_child_list");
    }
    if depths.iter().filter(|&&d| d == 0).count() > 1 {
        ctx.obs("shape.multi_root");
    }
}

fn systematic(ctx: &mut Ctx) {
    let mut idx = 0u64;
    for n in 1..=6usize {
        for depths in forest_depths(n) {
            for sib in SIBS {
                for trailing in 0..4usize {
                    idx += 1;
                    if !ctx.want("forest", idx) {
                        continue;
                    }
                    let mut r = ctx.rng("forest", idx);
                    let enc = Enc::nth(idx.wrapping_add(ctx.seed.wrapping_mul(7)));
                    let scheme = SCHEMES[((idx / 3) % 7) as usize];
                    // leaves: all plain / all with empty child lists / random
                    let leaf_children: Vec<bool> = match idx % 3 {
                        0 => vec![false; n],
                        1 => (0..n).map(|_| r.bool()).collect(),
                        _ => vec![true; n],
                    };
                    let sp = ForestSpec {
                        enc,
                        kind: kind_for(enc, idx / 2),
                        depths: &depths,
                        leaf_children: leaf_children.clone(),
                        sib,
                        scheme,
                        trailing,
                        unused_decls: r.usize(3),
                        terminated: idx % 5 != 0,
                    };
                    let fu = forest_unit(&mut r, &sp, 0);
                    ctx.obs(&format!("sibling.{sib:?}"));
                    ctx.obs(&format!("codes.{scheme:?}"));
                    if !sp.terminated {
                        ctx.obs("abbrev.unterminated");
                    }
                    shape_obs(ctx, &depths, &leaf_children, trailing);
                    let cfg = InfoCfg { le: enc.le, tables: vec![fu.table], units: vec![fu.unit], abbrev_lead: (idx % 4) as usize };
                    let detail = format!("depths={depths:?} sib={sib:?} scheme={scheme:?} trailing={trailing}");
                    let b = run_case(ctx, &cfg, &[fu.notes], &[fu.strict], "forest", &detail, &mut r);
                    if idx == 2000 {
                        ctx.sample("forest", || json!({"enc": enc.label(), "detail": detail, "debug_info": hex(&b.debug_info), "debug_abbrev": hex(&b.debug_abbrev), "model": format!("{:?}", b.units[0].items.iter().map(|m| (m.offset, m.depth, m.null, m.tag)).collect::<Vec<_>>())}));
                    }
                }
            }
        }
    }
}

fn layouts(ctx: &mut Ctx) {
    // every header layout on its own, and all layouts of one (byte order) concatenated
    let mut idx = 0u64;
    for enc in Enc::all() {
        for kind in UnitKind::ALL {
            if !kind.valid_for(enc.version) {
                continue;
            }
            idx += 1;
            if !ctx.want("layout", idx) {
                continue;
            }
            let mut r = ctx.rng("layout", idx);
            let depths: Vec<u8> = vec![0, 1, 2, 1, 1, 2];
            let sp = ForestSpec {
                enc,
                kind,
                depths: &depths,
                leaf_children: vec![false, false, true, false, false, false],
                sib: SIBS[(idx % 3) as usize],
                scheme: SCHEMES[(idx % 7) as usize],
                trailing: (idx % 4) as usize,
                unused_decls: 1,
                terminated: true,
            };
            let fu = forest_unit(&mut r, &sp, 0);
            let cfg = InfoCfg { le: enc.le, tables: vec![fu.table], units: vec![fu.unit], abbrev_lead: 0 };
            let detail = format!("layout {} {:?}", enc.label(), kind);
            run_case(ctx, &cfg, &[fu.notes], &[fu.strict], "layout", &detail, &mut r);
        }
    }
    for le in [true, false] {
        for rep in 0..8u64 {
            let i = 1000 + rep + if le { 0 } else { 8 };
            if !ctx.want("layout", i) {
                continue;
            }
            let mut r = ctx.rng("layout", i);
            let mut encs: Vec<(Enc, UnitKind)> = vec![];
            for enc in Enc::all() {
                if enc.le != le {
                    continue;
                }
                for kind in UnitKind::ALL {
                    if kind.valid_for(enc.version) {
                        encs.push((enc, kind));
                    }
                }
            }
            r.shuffle(&mut encs);
            let mut tables = vec![];
            let mut units = vec![];
            let mut notes = vec![];
            let mut strict = vec![];
            let depths_pool: [&[u8]; 4] = [&[0], &[0, 1], &[0, 1, 1, 2], &[0, 1, 2, 3]];
            for (k, (enc, kind)) in encs.iter().enumerate() {
                let depths = depths_pool[r.usize(4)];
                let sp = ForestSpec {
                    enc: *enc,
                    kind: *kind,
                    depths,
                    leaf_children: vec![r.bool(); depths.len()],
                    sib: SIBS[r.usize(3)],
                    scheme: SCHEMES[r.usize(7)],
                    trailing: r.usize(4),
                    unused_decls: r.usize(2),
                    terminated: true,
                };
                let fu = forest_unit(&mut r, &sp, k);
                tables.push(fu.table);
                units.push(fu.unit);
                notes.push(fu.notes);
                strict.push(fu.strict);
            }
            let cfg = InfoCfg { le, tables, units, abbrev_lead: rep as usize };
            run_case(ctx, &cfg, &notes, &strict, "layout", "all layouts concatenated", &mut r);
        }
    }
}

fn random_depths(r: &mut Rng, n: usize, mode: u64) -> Vec<u8> {
    let mut d: Vec<u8> = vec![0];
    while d.len() < n {
        let last = *d.last().unwrap() as i64;
        let next = match mode {
            // bushy
            0 => r.irange(0.max(last - 2), (last + 1).min(200)),
            // deep-ish
            1 => if r.chance(3, 4) { (last + 1).min(200) } else { r.irange(1.min(last), last) },
            // wide under one root
            2 => if d.len() == 1 { 1 } else if r.chance(1, 10) { 2 } else { 1 },
            // anything incl. several roots
            _ => r.irange(0, (last + 1).min(200)),
        };
        d.push(next as u8);
    }
    d
}

fn random_forests(ctx: &mut Ctx) {
    let n = ctx.size(3_000, 40_000, 8);
    for i in 0..n {
        if !ctx.want("random", i) {
            continue;
        }
        let mut r = ctx.rng("random", i);
        let le = r.bool();
        let nunits = 1 + r.usize(4);
        let share = r.chance(1, 3);
        let mut tables = vec![];
        let mut units = vec![];
        let mut notes = vec![];
        let mut strict = vec![];
        let mut detail = String::new();
        for k in 0..nunits {
            let mut enc = Enc::random(&mut r);
            enc.le = le;
            let nn = 1 + r.small(60) as usize;
            let mode = r.below(4);
            let depths = random_depths(&mut r, nn, mode);
            let leaf_children: Vec<bool> = (0..nn).map(|_| r.chance(1, 4)).collect();
            let sib = SIBS[r.usize(SIBS.len())];
            let scheme = SCHEMES[r.usize(7)];
            let trailing = r.usize(4);
            let sp = ForestSpec { enc, kind: kind_for(enc, r.next()), depths: &depths, leaf_children: leaf_children.clone(), sib, scheme, trailing, unused_decls: r.usize(4), terminated: true };
            let fu = forest_unit(&mut r, &sp, k);
            ctx.obs(&format!("sibling.{sib:?}"));
            ctx.obs(&format!("codes.{scheme:?}"));
            shape_obs(ctx, &depths, &leaf_children, trailing);
            detail.push_str(&format!("[{} n={nn} sib={sib:?} scheme={scheme:?}] ", enc.label()));
            tables.push(fu.table);
            units.push(fu.unit);
            notes.push(fu.notes);
            strict.push(fu.strict);
        }
        if share && nunits > 1 {
            // duplicate unit 0 (same table, same items) at the end: shared abbreviation offset
            let mut u = units[0].clone();
            u.dwo_id ^= 0xff;
            units.push(u);
            notes.push(notes[0].clone());
            strict.push(strict[0]);
        }
        let cfg = InfoCfg { le, tables, units, abbrev_lead: r.usize(5) };
        run_case(ctx, &cfg, &notes, &strict, "random", &detail, &mut r);
    }
}

fn large(ctx: &mut Ctx) {
    // 2000-deep chains, 5000 siblings, 3000-entry forests
    let reps = ctx.size(12, 60, 4);
    for i in 0..reps {
        if !ctx.want("large", i) {
            continue;
        }
        let mut r = ctx.rng("large", i);
        let small_profile = ctx.dbg() || ctx.slow();
        let (depths, what): (Vec<u8>, &str) = match i % 3 {
            0 => {
                // chain: depth sequence 0,1,2,... is limited to u8; use a sawtooth of chains up to 200 deep,
                // and a real 2000-deep chain below through `deep_chain`
                let mut d = vec![];
                let total = if small_profile { 600 } else { 3000 };
                while d.len() < total {
                    let len = 1 + r.usize(200);
                    for k in 0..len {
                        d.push(k as u8);
                    }
                }
                d[0] = 0;
                (d, "shape.large")
            }
            1 => {
                let total = if small_profile { 1200 } else { 5000 };
                let mut d = vec![0u8];
                d.extend(std::iter::repeat(1u8).take(total));
                (d, "shape.wide")
            }
            _ => (random_depths(&mut r, if small_profile { 500 } else { 3000 }, 0), "shape.large"),
        };
        ctx.obs(what);
        let mut enc = Enc::random(&mut r);
        let sib = SIBS[r.usize(8)];
        let scheme = SCHEMES[r.usize(7)];
        let n = depths.len();
        let sp = ForestSpec { enc, kind: kind_for(enc, i), depths: &depths, leaf_children: (0..n).map(|_| r.chance(1, 8)).collect(), sib, scheme, trailing: r.usize(4), unused_decls: 2, terminated: true };
        let fu = forest_unit(&mut r, &sp, 0);
        ctx.obs(&format!("sibling.{sib:?}"));
        let cfg = InfoCfg { le: enc.le, tables: vec![fu.table], units: vec![fu.unit], abbrev_lead: 0 };
        run_case(ctx, &cfg, &[fu.notes], &[fu.strict], "large", &format!("{what} n={n} sib={sib:?} scheme={scheme:?}"), &mut r);
        enc.le = !enc.le;
    }
    // a genuine 2000-deep chain (the depth-sequence helper is limited to 255): hand-built stream
    for i in 0..ctx.size(4, 16, 2) {
        if !ctx.want("chain", i) {
            continue;
        }
        let mut r = ctx.rng("chain", i);
        let enc = Enc::random(&mut r);
        let depth = if ctx.dbg() || ctx.slow() { 600 } else { 2000 };
        let with_sibling = i % 2 == 1;
        let mut attrs = vec![AttrDecl::new(0x3b, forms::F_DATA1)];
        if with_sibling {
            attrs.push(AttrDecl::new(forms::AT_SIBLING, forms::F_REF4));
        }
        let decls = vec![
            AbbrevDecl { code: 1, tag: 0x11, children: true, attrs: attrs.clone() },
            AbbrevDecl { code: 2, tag: 0x24, children: false, attrs: vec![AttrDecl::new(0x3b, forms::F_DATA1)] },
        ];
        let mut items = vec![];
        for k in 0..depth {
            // entry k's subtree ends at the null that closes its list: item index 2*depth - k
            let mut vals = vec![AttrVal::u(k as u64 & 0xff)];
            if with_sibling {
                vals.push(AttrVal::new(Val::Ref { item: 2 * depth - k + 1, delta: 0 }));
            }
            items.push(Item::Die { abbrev: 0, vals, code_len: 0 });
        }
        items.push(Item::Die { abbrev: 1, vals: vec![AttrVal::u(7)], code_len: 0 });
        for _ in 0..depth {
            items.push(Item::Null);
        }
        ctx.obs("shape.deep_chain");
        let cfg = InfoCfg { le: enc.le, tables: vec![AbbrevTable { decls, terminated: true }], units: vec![UnitCfg::new(enc, UnitKind::Compile, 0, items)], abbrev_lead: 0 };
        run_case(ctx, &cfg, &[vec![]], &[true], "chain", &format!("chain depth {depth} sibling={with_sibling}"), &mut r);
    }
}

// ------------------------------------------------------------------ abbreviations

#[derive(Debug, Clone, PartialEq, Eq)]
struct DeclObs {
    code: u64,
    tag: u16,
    children: bool,
    attrs: Vec<(u16, u16, Option<i64>)>,
}

fn decl_model(d: &AbbrevDecl) -> DeclObs {
    DeclObs {
        code: d.code,
        tag: d.tag,
        children: d.children,
        attrs: d.attrs.iter().map(|a| (a.name, a.form, if a.form == forms::F_IMPLICIT_CONST { Some(a.implicit_const) } else { None })).collect(),
    }
}

fn random_table(r: &mut Rng, scheme: Scheme, n: usize) -> Vec<AbbrevDecl> {
    let codes = scheme_codes(r, scheme, n);
    (0..n)
        .map(|k| {
            let na = r.usize(8);
            let attrs = (0..na)
                .map(|_| {
                    let f = forms::FORMS[r.usize(forms::FORMS.len())].0;
                    let mut a = AttrDecl::new(1 + r.below(0x8c) as u16, f);
                    a.implicit_const = r.boundary() as i64;
                    a
                })
                .collect();
            AbbrevDecl { code: codes[k], tag: 1 + ((k as u16 * 7 + r.below(3) as u16) % 0x4b), children: r.bool(), attrs }
        })
        .collect()
}

fn abbrev_case(ctx: &mut Ctx, tag: &str, decls: &[AbbrevDecl], terminated: bool, lead: usize, le: bool, expect_dup: Option<u64>) {
    let cfg = InfoCfg { le, tables: vec![AbbrevTable { decls: decls.to_vec(), terminated }], units: vec![], abbrev_lead: lead };
    let b = cfg.build();
    let bytes = b.debug_abbrev.clone();
    let off = b.tables[0].offset;
    ctx.eval();
    let codes: Vec<u64> = decls.iter().map(|d| d.code).collect();
    let mut probes: Vec<u64> = vec![0];
    for &c in &codes {
        probes.push(c);
        probes.push(c.wrapping_add(1));
        probes.push(c.wrapping_sub(1));
    }
    probes.extend_from_slice(&[decls.len() as u64 + 1, 1 << 32, u64::MAX, 1 << 63, (1u64 << 32) + 5]);
    probes.sort();
    probes.dedup();
    let input = || json!({"what": tag, "codes": codes, "terminated": terminated, "offset": off, "debug_abbrev": hex(&bytes)});
    let got = ctx.guard(tag, &input, || {
        let endian = if le { RunTimeEndian::Little } else { RunTimeEndian::Big };
        let da = gimli::DebugAbbrev::new(&bytes, endian);
        let ab = da.abbreviations(gimli::DebugAbbrevOffset(off as usize)).map_err(|e| format!("{e:?}"))?;
        let mut out = vec![];
        for &p in &probes {
            out.push((
                p,
                ab.get(p).map(|a| DeclObs {
                    code: a.code(),
                    tag: a.tag().0,
                    children: a.has_children(),
                    attrs: a.attributes().iter().map(|s| (s.name().0, s.form().0, s.implicit_const_value())).collect(),
                }),
            ));
        }
        Ok::<_, String>(out)
    });
    let Some(got) = got else { return };
    if let Some(dup) = expect_dup {
        ctx.obs("abbrev.duplicate.rejected");
        match got {
            Err(e) => {
                if !e.contains(&format!("DuplicateAbbreviationCode({dup})")) {
                    ctx.obs("secondary.mismatch.duplicate_error_variant");
                }
            }
            Ok(_) => ctx.fail("abbreviations.duplicate.accepted", &format!("a table with duplicate code {dup} was accepted (codes {codes:?})"), &input),
        }
        return;
    }
    let got = match got {
        Ok(g) => g,
        Err(e) => {
            ctx.fail("abbreviations.parse.err", &format!("well-formed table rejected: {e} (codes {codes:?})"), &input);
            return;
        }
    };
    if !terminated {
        ctx.obs("abbrev.unterminated");
    }
    for (p, g) in got {
        let exp = decls.iter().find(|d| d.code == p).map(decl_model);
        if exp.is_some() {
            ctx.obs("abbrev.get.declared");
        } else {
            ctx.obs("abbrev.get.absent");
        }
        ctx.check_eq("Abbreviations.get", &(p, exp), &(p, g), &input);
    }
    ctx.nontrivial_bytes("c02.abbrev", &bytes);
}

fn abbrevs(ctx: &mut Ctx) {
    // lookups: scheme x table size x repetitions
    let reps = ctx.size(40, 400, 4);
    let mut idx = 0u64;
    for scheme in SCHEMES {
        for n in 1..=8usize {
            for rep in 0..reps {
                idx += 1;
                if !ctx.want("abbrev", idx) {
                    continue;
                }
                let mut r = ctx.rng("abbrev", idx);
                let n = if rep % 10 == 9 { n * 25 } else { n };
                let decls = random_table(&mut r, scheme, n);
                ctx.obs(&format!("codes.{scheme:?}"));
                abbrev_case(ctx, "abbrev", &decls, rep % 3 != 0, (rep % 4) as usize, rep % 2 == 0, None);
            }
        }
    }
    // fixed orders named in the design
    let fixed: &[&[u64]] = &[
        &[1, 2, 5, 3, 4],
        &[1, 3, 1000],
        &[(1 << 32) + 5, 1 << 63, u64::MAX],
        &[2, 1],
        &[3, 1, 2],
        &[5, 4, 3, 2, 1],
        &[1, 2, 3, 7, 4, 5, 6, 8],
        &[2, 3, 1, 4],
        &[u64::MAX, 1, u64::MAX - 1, 2],
    ];
    for (k, codes) in fixed.iter().enumerate() {
        if !ctx.want("abbrev.fixed", k as u64) {
            continue;
        }
        let mut r = ctx.rng("abbrev.fixed", k as u64);
        let mut decls = random_table(&mut r, Scheme::Sequential, codes.len());
        for (d, &c) in decls.iter_mut().zip(codes.iter()) {
            d.code = c;
        }
        abbrev_case(ctx, "abbrev.fixed", &decls, true, 0, true, None);
        // duplicates of every position into every later position
        for i in 0..codes.len() {
            for j in (i + 1)..codes.len() {
                let mut dd = decls.clone();
                dd[j].code = dd[i].code;
                abbrev_case(ctx, "abbrev.fixed.dup", &dd, true, 0, false, Some(dd[i].code));
            }
        }
    }
    // duplicates: scheme x n <= 6 x every position pair
    let reps = ctx.size(3, 20, 1);
    let mut idx = 0u64;
    for scheme in SCHEMES {
        for n in 2..=6usize {
            for rep in 0..reps {
                for i in 0..n {
                    for j in (i + 1)..n {
                        idx += 1;
                        if !ctx.want("abbrev.dup", idx) {
                            continue;
                        }
                        let mut r = ctx.rng("abbrev.dup", idx);
                        let mut decls = random_table(&mut r, scheme, n);
                        decls[j].code = decls[i].code;
                        // sometimes the duplicate is an exact copy of the declaration
                        if rep % 2 == 1 {
                            decls[j] = decls[i].clone();
                        }
                        let dup = decls[i].code;
                        abbrev_case(ctx, "abbrev.dup", &decls, rep % 2 == 0, 0, true, Some(dup));
                    }
                }
            }
        }
    }
    // the same codes in a *following* table are not duplicates
    for k in 0..ctx.size(40, 200, 2) {
        if !ctx.want("abbrev.two_tables", k) {
            continue;
        }
        let mut r = ctx.rng("abbrev.two_tables", k);
        let scheme = SCHEMES[r.usize(7)];
        let n = 1 + r.usize(5);
        let t1 = random_table(&mut r, scheme, n);
        let mut t2 = random_table(&mut r, scheme, n);
        for (a, b) in t2.iter_mut().zip(t1.iter()) {
            a.code = b.code;
        }
        let cfg = InfoCfg { le: true, tables: vec![AbbrevTable { decls: t1.clone(), terminated: true }, AbbrevTable { decls: t2.clone(), terminated: r.bool() }], units: vec![], abbrev_lead: r.usize(3) };
        let b = cfg.build();
        ctx.eval();
        let bytes = b.debug_abbrev.clone();
        let offs = [b.tables[0].offset, b.tables[1].offset];
        let input = || json!({"what": "two tables with the same codes", "offsets": offs, "debug_abbrev": hex(&bytes)});
        let got = ctx.guard("abbrev.two_tables", &input, || {
            let da = gimli::DebugAbbrev::new(&bytes, RunTimeEndian::Little);
            let mut out = vec![];
            for (ti, t) in [&t1, &t2].iter().enumerate() {
                match da.abbreviations(gimli::DebugAbbrevOffset(offs[ti] as usize)) {
                    Err(e) => out.push(Err(format!("{e:?}"))),
                    Ok(ab) => out.push(Ok(t.iter().map(|d| ab.get(d.code).map(|a| (a.code(), a.tag().0, a.has_children(), a.attributes().len()))).collect::<Vec<_>>())),
                }
            }
            out
        });
        let Some(got) = got else { continue };
        for (ti, t) in [&t1, &t2].iter().enumerate() {
            let exp: Result<Vec<Option<(u64, u16, bool, usize)>>, String> = Ok(t.iter().map(|d| Some((d.code, d.tag, d.children, d.attrs.len()))).collect());
            ctx.check_eq("Abbreviations.two_tables", &exp, &got[ti], &input);
        }
    }
}

pub fn run(ctx: &mut Ctx) {
    systematic(ctx);
    layouts(ctx);
    random_forests(ctx);
    large(ctx);
    abbrevs(ctx);
    corpus::run(ctx);
}
